// C16 — implementation side: the real stir::SingleScatterSimulation on small generated scanners.
//
//   Phase A (per world, several configurations): formula correspondence and property oracle
//     * `ssp` / `est` operations: what SingleScatterSimulation::simulate_for_one_scatter_point /
//       actual_scatter_estimate return, together with the ingredients they read (taken through the real
//       accessors); the Lean model recomputes the value exactly from the ingredients.
//     * ORACLE on the implementation: A<->B symmetry for ALL detector pairs and all scatter points,
//       output bin = estimate of the bin's detector pair, non-negativity, zero activity => zero,
//       homogeneity and additivity in the activity image, cache enabled == cache disabled (bitwise),
//       number of scatter points == number of voxels at/above the threshold, sign hypotheses of the
//       Lean non-negativity theorem, sentinel never a legitimate value.
//   Phase B: setter / set_up / process_data histories on one long-lived object, every successful
//       process_data compared bitwise with a freshly configured object (ORACLE), and every operation's
//       observable outcome (ok / err / crash / fresh / stale / #scatter points / template sizes)
//       compared with the Lean state machine.
//       - targeted clean histories (one per setter), random clean histories: a stale result is ORACLE-FAIL
//       - targeted histories for known departures: a stale/crashing result is KNOWN-CANDIDATE <key>
//   Extensions (coverage round 2):
//     * BlocksOnCylindrical templates (few flat blocks of 3-4 crystals: the two crystals of a pair sit at different
//       radii, so the two incidence cosines of detection_efficiency_no_scatter differ) in phase A (all oracles,
//       `ssp`/`est`/`effns` correspondence) and in the template pool of the histories;
//     * `set_act_ip` / `set_att_ip` / `set_spimg_ip`: the owner overwrites the voxel values of an image IN PLACE and
//       hands the SAME shared_ptr to the setter again (what ScatterEstimation::process_data does every iteration);
//     * scatter-point images (given and derived from mirrored attenuation images) with the same number of scatter
//       points at different places after a computation;
//     * down-sampled scanners (flag in set_up, explicit `ds_scanner r d` calls) in phase A and in the histories;
//       automatic zoom/size (-1) of the scatter-point image and downsample_images_to_scanner_size in phase A and in
//       oracle-only histories;
//     * randomly_place_scatter_points = true (the library default): per-object oracles (same object, same points);
//       `time()` is replaced by a clock derived from the seed so that `srand(time(NULL))` in sample_scatter_points is
//       reproducible (replays). In phase A the clock advances at every call (two samplings never draw the same points) and
//       the random configurations are judged by same-object oracles only; in the histories it stands still, so that the
//       comparison with a fresh object is meaningful (their text says "clock pinned").
//   Extensions (coverage round 3):
//     * the OLDER cache switch set_cache_enabled(bool) (flips the flag, leaves the arrays alone) and the parsed keyword
//       `use cache` (`parse_use_cache b`: parse() of a parameter file with only that keyword) in forced THREE-STEP
//       histories, per world and seed: compute with the cache on; switch off; change the activity / attenuation image
//       (new object, in place + same pointer, by file name); [set_up; compute;] switch on; set_up; compute — every
//       result compared with a fresh object of the same settings AND of the opposite cache setting (bitwise), and with
//       the Lean state machine (kind `clean2`: the weaker guard of runGuarded2);
//     * every other public entry point that changes the result is an operation of the histories: setters by FILE NAME
//       (set_activity_image / set_density_image / set_density_image_for_scatter_points / set_template_proj_data_info(string):
//       the pool images and some templates are written to Interfile files and the pool entries are what is read back),
//       set_exam_info_sptr, set_randomly_place_scatter_points in mid-history, the three public ways to provide the output
//       (set_output_proj_data_sptr(sptr), set_output_proj_data(""), set_output_proj_data_sptr(exam, info, ""));
//     * oracle-only: an object built by the parsing constructor SingleScatterSimulation(parameter file) gives the result of
//       the object configured through the setters, also after re-parsing `use cache` and changing an image.
//   Extensions (coverage round 4):
//     * ENERGY WINDOWS THAT DO NOT CONTAIN 511 keV (400-480, 250-350, 120-160), straddling ones whose upper threshold is just
//       above / just below 511, very narrow and very wide ones, energy resolutions 5 % and 30 % (templates 7 and 8): phase A
//       (all oracles + `ssp`/`est`/`effns`) and `deteff` / `eff511`: detection_efficiency(E) and the normalisation
//       detector_efficiency_no_scatter recomputed by the Lean model (transcription of detection_efficiency with erf in binary64)
//       for the pool windows x resolutions and for random windows / resolutions 5-30 %, oracle 0 <= efficiency <= 1;
//     * ACTIVITY IMAGES WITH LARGE VALUES: homogeneity factors 1e-6, 1e3, 1e6 (fresh and same object), an activity image with
//       values up to 1e6 in the formula correspondence, additivity with the two halves of an image (zero on one arm of most
//       scatter points) and a point source, `actint`: integral_over_activity_image_between_scattpoint_det vs the Lean model
//       (capped solid-angle factor x sum over the ray elements RayTraceVoxelsOnCartesianGrid returns, exact in Rat);
//     * AUTOMATIC SCATTER-POINT IMAGE ON A RE-USED OBJECT: attenuation images of ANOTHER x/y size (same voxel size and planes)
//       between set_ups, scatter-point image derived in set_up / by an explicit downsample_density_image_for_scatter_points
//       call with the automatic (-1) factors, with explicit factors and sizes -1, with explicit sizes: compared with fresh
//       objects (bitwise), index range of the scatter-point image compared with that of the fresh object, the stored members
//       zoom_size_xy / zoom_size_z (`zoommem`) compared with the Lean state machine.
//
// Usage: c16_scatter <seed> <quick|thorough> <opsfile> <implfile>
#include "stir_fixtures.h"
#include "common.h"
#include "stir/scatter/SingleScatterSimulation.h"
#include "stir/ProjDataInMemory.h"
#include "stir/ExamInfo.h"
#include "stir/Bin.h"
#include "stir/IndexRange3D.h"
#include "stir/ProjDataInterfile.h"
#include "stir/IO/write_to_file.h"
#include "stir/IO/read_from_file.h"
#include "stir/recon_buildblock/ProjMatrixElemsForOneBin.h"
#include "stir/recon_buildblock/RayTraceVoxelsOnCartesianGrid.h"
#include <fstream>
#include <sys/stat.h>
#include <algorithm>
#include <cmath>
#include <cstring>
#include <map>
#include <memory>
#include <set>
#include <unistd.h>
#include <sys/wait.h>
#include <ctime>

using namespace stir;
using std::string;

typedef VoxelsOnCartesianGrid<float> Img;

// `sample_scatter_points` calls srand((unsigned)time(NULL)) when randomly_place_scatter_points is on: pin the clock
// (this definition takes precedence over libc's for the statically linked STIR libraries) so that a run is a
// function of the seed only
// g_time_step = 1: every call sees a later second (every sampling of the scatter points draws other points, as in real
// life): used in phase A, where the oracles of the random configurations only compare results of ONE object;
// g_time_step = 0: the clock stands still (every sampling draws the same points): used in the histories, so that the
// comparison with a freshly configured object is meaningful with random placement as well.
static time_t g_pinned_time = 1700000000;
static int g_time_step = 0;
extern "C" time_t
time(time_t* t) noexcept
{
  g_pinned_time += g_time_step;
  if (t)
    *t = g_pinned_time;
  return g_pinned_time;
}

// access to the protected interface of the real class (no behaviour added)
struct Sim : public SingleScatterSimulation
{
  Sim() {}
  explicit Sim(const std::string& parameter_filename)
      : SingleScatterSimulation(parameter_filename)
  {}
  using SingleScatterSimulation::actual_scatter_estimate;
  using SingleScatterSimulation::simulate_for_one_scatter_point;
  using SingleScatterSimulation::scatter_estimate;
  using ScatterSimulation::find_detectors;
  using ScatterSimulation::cached_integral_over_activity_image_between_scattpoint_det;
  using ScatterSimulation::cached_exp_integral_over_attenuation_image_between_scattpoint_det;
  using ScatterSimulation::detection_efficiency_no_scatter;
  using ScatterSimulation::integral_over_activity_image_between_scattpoint_det;
  using ScatterSimulation::integral_between_2_points;
  float mem_zoom_xy() const { return zoom_xy; }
  float mem_zoom_z() const { return zoom_z; }
  int mem_size_xy() const { return zoom_size_xy; }
  int mem_size_z() const { return zoom_size_z; }
  static float max_cos(float low, float approx, float res) { return max_cos_angle(low, approx, res); }
  int ndet() const { return static_cast<int>(detection_points_vector.size()); }
  CartesianCoordinate3D<float> det(unsigned d) const { return detection_points_vector[d]; }
  CartesianCoordinate3D<float> sp(unsigned i) const { return scatt_points_vector[i].coord; }
  float mu(unsigned i) const { return scatt_points_vector[i].mu_value; }
  float vol() const { return scatter_volume; }
  bool is_blocks() const { return get_template_proj_data_info_sptr()->get_scanner_ptr()->get_scanner_geometry() == "BlocksOnCylindrical"; }
};

static string g_scratch; // /tmp/C16/harness-<pid>: Interfile images / projection data / parameter files of the worlds

static const float SENTINEL = -1234567.89E10F; // cache_init_value (cached_single_scatter_integrals.cxx:27)

// ------------------------------------------------------------------------------------------------ output
static FILE *g_ops, *g_out, *g_orc;
static long g_checks = 0, g_fails = 0;
static std::set<string> g_known_emitted;

static void
emit(const string& op, const string& ans)
{
  std::fprintf(g_ops, "%s\n", op.c_str());
  std::fprintf(g_out, "%s\n", ans.c_str());
}
static void
oracle(bool ok, const string& text)
{
  ++g_checks;
  if (!ok)
    {
      ++g_fails;
      if (g_fails <= 40)
        std::fprintf(g_orc, "ORACLE-FAIL %s\n", text.c_str());
    }
}
static void
known_candidate(const string& key, const string& text)
{
  ++g_checks;
  if (g_known_emitted.insert(key).second)
    std::fprintf(g_orc, "KNOWN-CANDIDATE %s %s\n", key.c_str(), text.c_str());
}
static string
str(double x)
{
  return vh::hex(x);
}
template <class T>
static string
num(T x)
{
  std::ostringstream s;
  s << x;
  return s.str();
}

// ------------------------------------------------------------------------------------------------ world
struct Zoom
{
  float zxy, zz;
  int sxy, sz;
};
struct TmplDims
{
  int base, dets, rings, ntang, nseg;
  int blocks, buckets; // BlocksOnCylindrical? ; number of transaxial buckets
};
// a template written to an Interfile projection-data file together with an exam info; pool entries `k_pool` / `e_pool`
// are what ProjData::read_from_file gives back
struct FileTmpl
{
  int k_pool, e_pool;
  string file;
};
struct World
{
  int id;
  string dir;
  std::vector<FileTmpl> ftmpls;
  std::vector<string> act_files, att_files, sp_files; // Interfile headers of the pool images (same index)
  string par_cache[2];                               // parameter files with only `use cache := 0|1`
  std::vector<shared_ptr<ProjDataInfo>> tmpls;
  std::vector<TmplDims> dims;
  std::vector<shared_ptr<ExamInfo>> exams;
  std::vector<shared_ptr<Img>> acts; // last one: different z-middle ("zbad")
  int zbad;
  std::vector<shared_ptr<Img>> atts; // 0,1 generated; 2 = 0 mirrored in x (same number of scatter points elsewhere)
  std::vector<shared_ptr<Img>> spimgs;
  // images on the z-grid of template `auto_tmpl`'s default image (2*rings-1 planes of ring_spacing/2) and a zoom set that
  // fits them: downsample_images_to_scanner_size keeps their z-grid, so one explicit zoom set is valid before and after
  shared_ptr<Img> act_grid, att_grid;
  Zoom zoom_grid;
  int auto_tmpl; // cylindrical template (>= 2 rings, coarse default bin size) for the automatic zoom of the scatter-point image
  std::vector<float> thrs;
  std::vector<Zoom> zooms;
  int anz, anxy;
  float avz, avxy;
  // round 4
  int tmpl_res05, tmpl_res30;                          // cylindrical templates with 5 % / 30 % energy resolution (sizes of template 0)
  int exam_extra0, exam_extra_end;                     // pool range of the windows below 511 / straddling / narrow / wide
  int act_large, act_left, act_right, act_point;       // values up to 1e6; act 0 restricted to x < 0 / x >= 0; one hot voxel
  int att_wide;                                        // attenuation image with 4-10 more voxels in x and y (same voxel sizes, planes)
  int zoom_autosize;                                   // zoom set with explicit factors and sizes -1
  // classes of the factors (zoom_xy, zoom_z, zoom_size_z) the automatic call stores, by value
  struct AutoCls
  {
    float zxy, zz;
    int sz;
  };
  std::vector<AutoCls> auto_classes;
  std::vector<int> auto_tmpls;                         // templates with a coarse default bin size (small automatic images)
};

static shared_ptr<Img>
blank(int nz, int nxy, float vz, float vxy)
{
  shared_ptr<Img> im(new Img(IndexRange3D(0, nz - 1, -(nxy / 2), -(nxy / 2) + nxy - 1, -(nxy / 2), -(nxy / 2) + nxy - 1),
                             CartesianCoordinate3D<float>(0, 0, 0),
                             CartesianCoordinate3D<float>(vz, vxy, vxy)));
  im->fill(0.F);
  return im;
}

static int
count_at_or_above(const DiscretisedDensity<3, float>& im, float thr)
{
  int n = 0;
  for (auto it = im.begin_all(); it != im.end_all(); ++it)
    if (*it >= thr)
      ++n;
  return n;
}

static shared_ptr<ExamInfo>
mk_exam(float lo, float hi)
{
  shared_ptr<ExamInfo> e(new ExamInfo);
  e->set_low_energy_thres(lo);
  e->set_high_energy_thres(hi);
  e->imaging_modality = ImagingModality::PT;
  return e;
}

// configuration of a simulation in terms of pool indices (-1 = not set)
struct Config
{
  int act = -1, att = -1, sp = -1, tmpl = -1, exam = -1, thr = 0, zoom = -1;
  bool use_cache = true;
  bool ds = false;
  int ds_rings = -1, ds_dets = -1;
  bool rnd = false;                          // randomly_place_scatter_points
  bool ds_images = false;                    // downsample_images_to_scanner_size() after the images were set
  bool grid = false;                         // act_grid / att_grid / zoom_grid instead of act / att / zoom
  std::vector<std::pair<int, int>> ds_calls; // explicit downsample_scanner(rings, dets) calls after the template was set
};

// "freshly configured": sampling parameters, template, exam info, images — then the caller calls set_up()
static std::unique_ptr<Sim>
configure(const World& w, const Config& c, shared_ptr<Img> act_override = shared_ptr<Img>())
{
  std::unique_ptr<Sim> s(new Sim);
  s->set_randomly_place_scatter_points(c.rnd);
  s->set_attenuation_threshold(w.thrs[c.thr]);
  s->set_use_cache(c.use_cache);
  if (c.tmpl >= 0)
    {
      s->set_template_proj_data_info(*w.tmpls[c.tmpl]);
      for (const auto& rd : c.ds_calls)
        s->downsample_scanner(rd.first, rd.second);
    }
  if (c.exam >= 0)
    s->set_exam_info(*w.exams[c.exam]);
  if (act_override)
    s->set_activity_image_sptr(act_override);
  else if (c.grid)
    s->set_activity_image_sptr(w.act_grid);
  else if (c.act >= 0)
    s->set_activity_image_sptr(w.acts[c.act]);
  if (c.grid)
    s->set_density_image_sptr(w.att_grid);
  else if (c.att >= 0)
    s->set_density_image_sptr(w.atts[c.att]);
  if (c.ds_images)
    s->downsample_images_to_scanner_size();
  if (c.grid)
    s->set_image_downsample_factors(w.zoom_grid.zxy, w.zoom_grid.zz, w.zoom_grid.sxy, w.zoom_grid.sz);
  else if (c.zoom >= 0)
    s->set_image_downsample_factors(w.zooms[c.zoom].zxy, w.zooms[c.zoom].zz, w.zooms[c.zoom].sxy, w.zooms[c.zoom].sz);
  if (c.sp >= 0)
    s->set_density_image_for_scatter_points_sptr(w.spimgs[c.sp]);
  s->set_downsample_scanner_bool(c.ds);
  s->set_num_downsample_scanner_rings(c.ds_rings);
  s->set_num_downsample_scanner_dets(c.ds_dets);
  return s;
}

// attach an in-memory output matching the current template and run process_data()
// returns false if process_data did not return Succeeded::yes; throws what the library throws
// out_mode: which public way provides the output: 0 set_output_proj_data_sptr(sptr), 1 set_output_proj_data("") (in memory),
// 2 set_output_proj_data_sptr(exam, info, "") (in memory)
static bool
run_process(Sim& s, std::vector<float>& v, int out_mode = 0)
{
  shared_ptr<ProjDataInMemory> out;
  if (s.has_template_proj_data_info() && s.has_exam_info())
    {
      if (out_mode == 1)
        s.set_output_proj_data(std::string());
      else if (out_mode == 2)
        s.set_output_proj_data_sptr(s.get_exam_info_sptr(), s.get_template_proj_data_info_sptr()->create_shared_clone(), std::string());
      else
        {
          out.reset(new ProjDataInMemory(s.get_exam_info_sptr(), s.get_template_proj_data_info_sptr()->create_shared_clone()));
          s.set_output_proj_data_sptr(out);
        }
    }
  if (s.process_data() != Succeeded::yes)
    return false;
  // downsample_scanner() inside set_up() may have replaced the output: read what the object holds
  shared_ptr<ProjData> o = s.get_output_proj_data_sptr();
  ProjDataInMemory* m = dynamic_cast<ProjDataInMemory*>(o.get());
  if (!m)
    return false;
  v.assign(m->begin_all(), m->end_all());
  return true;
}

static bool
fresh_result(const World& w, const Config& c, std::vector<float>& v, shared_ptr<Img> act_override = shared_ptr<Img>())
{
  try
    {
      std::unique_ptr<Sim> f = configure(w, c, act_override);
      if (f->set_up() != Succeeded::yes)
        return false;
      return run_process(*f, v);
    }
  catch (...)
    {
      return false;
    }
}

static bool
bitwise_equal(const std::vector<float>& a, const std::vector<float>& b)
{
  return a.size() == b.size() && (a.empty() || std::memcmp(a.data(), b.data(), a.size() * sizeof(float)) == 0);
}

static double
total(const std::vector<float>& v)
{
  double t = 0;
  for (float x : v)
    t += x;
  return t;
}

// ------------------------------------------------------------------------------------------------ world generation
// BlocksOnCylindrical scanner: nb flat blocks (one per bucket) of cpb crystals (cpb >= 3: the crystals of a block are
// at different distances from the axis), R rings
static shared_ptr<Scanner>
make_blocks_scanner(int nb, int cpb, int R, float radius, float fill, float eres)
{
  const int N = nb * cpb;
  // the block face (cpb * cs wide) takes `fill` of the side of the regular nb-gon at the inner radius
  const float cs = fill * 2.F * radius * std::tan(3.14159265F / nb) / cpb;
  shared_ptr<Scanner> s(new Scanner(Scanner::User_defined_scanner,
                                    std::string("verif_blocks"),
                                    N,
                                    R,
                                    N / 2 - 1,
                                    N / 2 - 1,
                                    radius,
                                    /*average_depth_of_interaction*/ 5.F,
                                    /*ring_spacing*/ 4.F,
                                    /*bin_size*/ 2.F,
                                    /*intrinsic_tilt*/ 0.F,
                                    /*num_axial_blocks_per_bucket*/ 1,
                                    /*num_transaxial_blocks_per_bucket*/ 1,
                                    /*num_axial_crystals_per_block*/ R,
                                    /*num_transaxial_crystals_per_block*/ cpb,
                                    /*num_axial_crystals_per_singles_unit*/ 1,
                                    /*num_transaxial_crystals_per_singles_unit*/ 1,
                                    /*num_detector_layers*/ 1,
                                    eres,
                                    511.F,
                                    /*max_num_of_timing_poss*/ static_cast<short>(1),
                                    /*size_timing_pos*/ 0.F,
                                    /*timing_resolution*/ 500.F,
                                    "BlocksOnCylindrical",
                                    /*axial_crystal_spacing*/ 4.F,
                                    /*transaxial_crystal_spacing*/ cs,
                                    /*axial_block_spacing*/ 4.F * R,
                                    /*transaxial_block_spacing*/ cs * cpb));
  return s;
}

static string
fmt9(double x)
{
  char b[64];
  std::snprintf(b, sizeof b, "%.9g", x);
  return b;
}

// Interfile copies of the pool: every image is written and the pool entry REPLACED by what read_from_file returns (so
// that "by file name" and "by object" are the same values exactly); the cylindrical templates 0, 1, 2 and 5 are written as
// projection data with an exam info and what is read back becomes a NEW pool template / exam info
// (not the BlocksOnCylindrical ones: the header prints crystal and block spacing with 6 decimals, after which
//  3 x crystal spacing may exceed the block spacing and Scanner::set_up refuses the scanner it reads — header I/O, not C16)
static void
write_world_files(World& w)
{
  w.dir = g_scratch + "/w" + num(w.id);
  ::mkdir(w.dir.c_str(), 0777);
  auto roundtrip = [&](std::vector<shared_ptr<Img>>& pool, std::vector<string>& files, const string& stem) {
    for (std::size_t k = 0; k < pool.size(); ++k)
      {
        const string f = write_to_file(w.dir + "/" + stem + num(k), *pool[k]);
        shared_ptr<DiscretisedDensity<3, float>> back(read_from_file<DiscretisedDensity<3, float>>(f));
        shared_ptr<Img> im = std::dynamic_pointer_cast<Img>(back);
        bool same = im && im->get_index_range() == pool[k]->get_index_range()
                    && norm(im->get_voxel_size() - pool[k]->get_voxel_size()) <= 1e-4F * norm(pool[k]->get_voxel_size())
                    && norm(im->get_origin() - pool[k]->get_origin()) <= 1e-4F;
        if (same)
          same = std::equal(im->begin_all_const(), im->end_all_const(), pool[k]->begin_all_const());
        oracle(same, "world=" + num(w.id) + " image " + stem + num(k) + " does not survive write_to_file / read_from_file — generator problem");
        if (im)
          pool[k] = im;
        files.push_back(f);
      }
  };
  roundtrip(w.acts, w.act_files, "act");
  roundtrip(w.atts, w.att_files, "att");
  roundtrip(w.spimgs, w.sp_files, "sp");
  int nfile = 0;
  for (int k : { 0, 1, 2, w.auto_tmpl })
    {
      // the state machine identifies templates / energy windows by pool index and assumes different indices mean different
      // values: the file gets a ring radius and an energy window of its own
      shared_ptr<Scanner> sc(new Scanner(*w.tmpls[k]->get_scanner_ptr()));
      sc->set_inner_ring_radius(sc->get_inner_ring_radius() + 2.F + nfile);
      const shared_ptr<ProjDataInfo> src = vh::make_pdi(sc, 1, w.dims[k].rings - 1, w.dims[k].dets / 2, w.dims[k].dets / 2 - 1);
      const shared_ptr<ExamInfo> src_exam = mk_exam(405.F + 12 * nfile, 630.F - 10 * nfile);
      ++nfile;
      const string stem = w.dir + "/tmpl" + num(k);
      {
        ProjDataInterfile pd(src_exam, src->create_shared_clone(), stem);
      }
      shared_ptr<ProjData> back = ProjData::read_from_file(stem + ".hs");
      shared_ptr<ProjDataInfo> p = back->get_proj_data_info_sptr()->create_shared_clone();
      shared_ptr<ExamInfo> ex = back->get_exam_info().create_shared_clone();
      // (the header prints floats with 6 significant digits: what is read back is a pool entry of its own, only its sizes
      //  and the presence of the energy information are required)
      const bool same = p->get_num_tangential_poss() == src->get_num_tangential_poss() && p->get_num_views() == src->get_num_views()
                        && p->get_num_segments() == src->get_num_segments()
                        && p->get_scanner_ptr()->get_num_rings() == w.tmpls[k]->get_scanner_ptr()->get_num_rings()
                        && p->get_scanner_ptr()->get_num_detectors_per_ring() == w.tmpls[k]->get_scanner_ptr()->get_num_detectors_per_ring()
                        && p->has_energy_information() && ex->has_energy_information()
                        && std::fabs(ex->get_low_energy_thres() - src_exam->get_low_energy_thres()) < 0.01F
                        && std::fabs(ex->get_high_energy_thres() - src_exam->get_high_energy_thres()) < 0.01F
                        && std::fabs(p->get_scanner_ptr()->get_energy_resolution() - w.tmpls[k]->get_scanner_ptr()->get_energy_resolution()) < 1e-4F;
      oracle(same, "world=" + num(w.id) + " template " + num(k) + " / its energy window does not survive the Interfile projection-data header — generator problem");
      FileTmpl ft;
      ft.k_pool = static_cast<int>(w.tmpls.size());
      ft.e_pool = static_cast<int>(w.exams.size());
      ft.file = stem + ".hs";
      TmplDims d = w.dims[k];
      d.base = ft.k_pool;
      w.tmpls.push_back(p);
      w.dims.push_back(d);
      w.exams.push_back(ex);
      w.ftmpls.push_back(ft);
    }
  for (int b = 0; b < 2; ++b)
    {
      w.par_cache[b] = w.dir + "/use_cache" + num(b) + ".par";
      std::ofstream f(w.par_cache[b].c_str());
      f << "PET Single Scatter Simulation Parameters :=\n use cache := " << b << "\nend PET Single Scatter Simulation Parameters :=\n";
    }
}

static World
make_world(int id, vh::Rng& rng, bool thorough)
{
  World w;
  w.id = id;
  // templates: 0 and 1 have the same sizes (so caches keep their size) but a different ring radius and
  // energy resolution; 2 has different sizes
  static const int Ns[] = { 8, 10, 12, 14, 16 };
  const int N = Ns[rng.range(0, thorough ? 4 : 2)];
  const int R = rng.range(1, 3);
  int N2 = Ns[rng.range(0, thorough ? 4 : 2)];
  int R2 = rng.range(1, 3);
  if (N2 == N && R2 == R)
    R2 = R % 3 + 1;
  auto add_tmpl = [&](int n, int r, float dradius, float eres) {
    shared_ptr<Scanner> sc = vh::make_scanner(n, r);
    sc->set_inner_ring_radius(sc->get_inner_ring_radius() + dradius);
    sc->set_energy_resolution(eres);
    shared_ptr<ProjDataInfo> p = vh::make_pdi(sc, 1, r - 1, n / 2, n / 2 - 1);
    TmplDims d;
    d.base = static_cast<int>(w.tmpls.size());
    d.dets = n;
    d.rings = r;
    d.ntang = p->get_num_tangential_poss();
    d.nseg = p->get_num_segments();
    d.blocks = 0;
    d.buckets = 1;
    w.tmpls.push_back(p);
    w.dims.push_back(d);
  };
  add_tmpl(N, R, 0.F, 0.10F + 0.02F * rng.range(0, 3));
  add_tmpl(N, R, 12.F + rng.range(0, 8), 0.20F);
  add_tmpl(N2, R2, 5.F, 0.14F);
  // templates 3 and 4: BlocksOnCylindrical, same sizes, different radius / crystal pitch / energy resolution
  {
    static const int NB[] = { 4, 4, 6, 5 }, CPB[] = { 3, 4, 3, 4 };
    const int k = rng.range(0, 3);
    // (>= 2 rings: downsample_scanner keeps the axial length of a blocks scanner, which is 0 for a single ring)
    const int RB = rng.range(2, 3);
    auto add_blocks = [&](float radius, float fill, float eres) {
      shared_ptr<Scanner> sc = make_blocks_scanner(NB[k], CPB[k], RB, radius, fill, eres);
      const int n = NB[k] * CPB[k];
      shared_ptr<ProjDataInfo> p = vh::make_pdi(sc, 1, RB - 1, n / 2, n / 2 - 1);
      TmplDims d;
      d.base = static_cast<int>(w.tmpls.size());
      d.dets = n;
      d.rings = RB;
      d.ntang = p->get_num_tangential_poss();
      d.nseg = p->get_num_segments();
      d.blocks = 1;
      d.buckets = NB[k];
      w.tmpls.push_back(p);
      w.dims.push_back(d);
    };
    add_blocks(95.F + rng.range(0, 10), 0.70F + 0.05F * rng.range(0, 4), 0.12F);
    add_blocks(120.F + rng.range(0, 10), 0.55F + 0.05F * rng.range(0, 3), 0.18F);
  }
  // template 5: cylindrical, >= 2 rings, coarse default bin size: the automatic (-1) zoom of the scatter-point image
  // then gives a small image
  {
    shared_ptr<Scanner> sc = vh::make_scanner(N, 2 + (id + rng.range(0, 1)) % 2);
    sc->set_default_bin_size(14.F + rng.range(0, 4));
    sc->set_energy_resolution(0.15F);
    const int r = sc->get_num_rings();
    shared_ptr<ProjDataInfo> p = vh::make_pdi(sc, 1, r - 1, N / 2, N / 2 - 1);
    TmplDims d;
    d.base = static_cast<int>(w.tmpls.size());
    d.dets = N;
    d.rings = r;
    d.ntang = p->get_num_tangential_poss();
    d.nseg = p->get_num_segments();
    d.blocks = 0;
    d.buckets = 1;
    w.auto_tmpl = d.base;
    w.tmpls.push_back(p);
    w.dims.push_back(d);
    // template 6: the same with a much coarser default bin size (another automatic zoom)
    shared_ptr<Scanner> sc2(new Scanner(*sc));
    sc2->set_default_bin_size(sc->get_default_bin_size() + 9.F);
    shared_ptr<ProjDataInfo> p2 = vh::make_pdi(sc2, 1, r - 1, N / 2, N / 2 - 1);
    d.base = static_cast<int>(w.tmpls.size());
    w.tmpls.push_back(p2);
    w.dims.push_back(d);
  }
  // templates 7 and 8 (round 4): sizes of template 0, energy resolution 5 % and 30 %
  w.tmpl_res05 = static_cast<int>(w.tmpls.size());
  add_tmpl(N, R, 3.F, 0.05F);
  w.tmpl_res30 = static_cast<int>(w.tmpls.size());
  add_tmpl(N, R, 7.F, 0.30F);
  // energy windows: different low thresholds (max scatter angle) and different efficiencies at 511 keV
  // (1 shares the upper threshold with 0, 2 the lower one: a setter that compares only part of the window is visible)
  w.exams.push_back(mk_exam(400.F, 650.F));
  w.exams.push_back(mk_exam(450.F, 650.F));
  w.exams.push_back(mk_exam(400.F, 555.F + 5 * rng.range(0, 4)));
  // round 4: windows that do NOT contain 511 keV (lower scatter windows), straddling windows whose upper threshold is just
  // above / just below 511, a very narrow and a very wide one
  w.exam_extra0 = static_cast<int>(w.exams.size());
  w.exams.push_back(mk_exam(400.F, 480.F));                            // +0 below
  w.exams.push_back(mk_exam(250.F, 350.F));                            // +1 below
  w.exams.push_back(mk_exam(120.F, 160.F));                            // +2 far below
  w.exams.push_back(mk_exam(350.F, 511.5F + 1.5F * rng.range(0, 6)));  // +3 upper threshold just above 511
  w.exams.push_back(mk_exam(350.F, 510.5F - 1.5F * rng.range(0, 6)));  // +4 upper threshold just below 511
  w.exams.push_back(mk_exam(505.F, 517.F));                            // +5 very narrow
  w.exams.push_back(mk_exam(50.F, 1000.F));                            // +6 very wide
  w.exam_extra_end = static_cast<int>(w.exams.size());
  // activity / attenuation grid
  w.anz = 3;
  w.anxy = rng.coin() ? 5 : 7;
  w.avz = 4.F;
  w.avxy = w.anxy == 5 ? 11.F : 8.F;
  auto fill_dense = [&](Img& im, float lo, float hi, float pzero) {
    for (auto it = im.begin_all(); it != im.end_all(); ++it)
      *it = rng.unit() < pzero ? 0.F : static_cast<float>(lo + (hi - lo) * rng.unit());
  };
  // acts: 0,1 dense; 2,3 sparse; 4 zero; 5 zbad (5 planes)
  for (int k = 0; k < 2; ++k)
    {
      auto a = blank(w.anz, w.anxy, w.avz, w.avxy);
      fill_dense(*a, 0.5F, 6.F, 0.25F);
      w.acts.push_back(a);
    }
  for (int k = 0; k < 2; ++k)
    {
      auto a = blank(w.anz, w.anxy, w.avz, w.avxy);
      const int hot = rng.range(2, 5);
      for (int h = 0; h < hot; ++h)
        (*a)[rng.range(0, w.anz - 1)][rng.range(-(w.anxy / 2), w.anxy / 2)][rng.range(-(w.anxy / 2), w.anxy / 2)]
            = static_cast<float>(1 + rng.range(0, 7));
      w.acts.push_back(a);
    }
  w.acts.push_back(blank(w.anz, w.anxy, w.avz, w.avxy));
  {
    auto a = blank(w.anz + 2, w.anxy, w.avz, w.avxy);
    fill_dense(*a, 0.5F, 6.F, 0.25F);
    w.acts.push_back(a);
    w.zbad = static_cast<int>(w.acts.size()) - 1;
  }
  // round 4: large values (log-uniform in 1 .. 1e6, as Bq/ml or counts); act 0 split into its x < 0 and x >= 0 halves (zero on
  // one arm of most scatter points; left + right = act 0 exactly); a point source
  {
    auto a = blank(w.anz, w.anxy, w.avz, w.avxy);
    for (auto it = a->begin_all(); it != a->end_all(); ++it)
      *it = rng.unit() < 0.25 ? 0.F : static_cast<float>(std::pow(10., 6. * rng.unit()));
    (*a)[rng.range(0, w.anz - 1)][rng.range(-(w.anxy / 2), w.anxy / 2)][rng.range(-(w.anxy / 2), w.anxy / 2)] = 1.0e6F;
    w.act_large = static_cast<int>(w.acts.size());
    w.acts.push_back(a);
    auto l = blank(w.anz, w.anxy, w.avz, w.avxy), r = blank(w.anz, w.anxy, w.avz, w.avxy);
    for (int z = 0; z < w.anz; ++z)
      for (int y = -(w.anxy / 2); y <= w.anxy / 2; ++y)
        for (int x = -(w.anxy / 2); x <= w.anxy / 2; ++x)
          (x < 0 ? *l : *r)[z][y][x] = (*w.acts[0])[z][y][x];
    w.act_left = static_cast<int>(w.acts.size());
    w.acts.push_back(l);
    w.act_right = static_cast<int>(w.acts.size());
    w.acts.push_back(r);
    auto pt = blank(w.anz, w.anxy, w.avz, w.avxy);
    (*pt)[rng.range(0, w.anz - 1)][rng.range(-(w.anxy / 2), w.anxy / 2)][rng.range(-(w.anxy / 2), w.anxy / 2)]
        = static_cast<float>(1 + rng.range(0, 9999));
    w.act_point = static_cast<int>(w.acts.size());
    w.acts.push_back(pt);
  }
  // thresholds: 0 = default 0.01, 1 = 0.07
  w.thrs.push_back(0.01F);
  w.thrs.push_back(0.07F);
  // zoom parameter sets for downsample_density_image_for_scatter_points (explicit sizes)
  Zoom z0 = { 3.F / w.anxy, 0.5F, 3, 2 };
  Zoom z1 = { 5.F / w.anxy, 0.5F, 5, 2 };
  w.zooms.push_back(z0);
  w.zooms.push_back(z1);
  // round 4: explicit factors, sizes -1: x/y size = int(old * 0.5 + 1) made odd (3 for 5, 5 for 7 and 9, 7 for 11 voxels),
  // z size = int(3 * 0.5 + 1) = 2, after which the member zoom_z is "adjusted" to (2 - 1) / (3 - 1) = 0.5 again
  Zoom z2 = { 0.5F, 0.5F, -1, -1 };
  w.zoom_autosize = static_cast<int>(w.zooms.size());
  w.zooms.push_back(z2);
  // attenuation images: "low" voxels (above thr 0 only) and "high" voxels (above both); after down-sampling
  // the two thresholds must select different, non-empty sets of scatter points (so that a stale set is visible)
  while (w.atts.size() < 2)
    {
      auto m = blank(w.anz, w.anxy, w.avz, w.avxy);
      for (auto it = m->begin_all(); it != m->end_all(); ++it)
        *it = rng.unit() < 0.6 ? static_cast<float>(0.012 + 0.02 * rng.unit()) : static_cast<float>(0.10 + 0.06 * rng.unit());
      w.atts.push_back(m);
      bool good = true;
      for (std::size_t z = 0; z < w.zooms.size(); ++z)
        {
          Config c;
          c.act = 0;
          c.att = static_cast<int>(w.atts.size()) - 1;
          c.tmpl = 0;
          c.exam = 0;
          c.zoom = static_cast<int>(z);
          std::unique_ptr<Sim> p = configure(w, c);
          p->set_up();
          const int n0 = count_at_or_above(p->get_attenuation_image_for_scatter_points(), w.thrs[0]);
          const int n1 = count_at_or_above(p->get_attenuation_image_for_scatter_points(), w.thrs[1]);
          if (n1 == 0 || n1 == n0)
            good = false;
        }
      if (!good)
        w.atts.pop_back();
    }
  // attenuation image 2: image 0 mirrored in x: the derived scatter-point image has the same number of scatter points
  // (the grids are symmetric) at mirrored places
  {
    auto m = blank(w.anz, w.anxy, w.avz, w.avxy);
    const Img& a0 = *w.atts[0];
    for (int z = 0; z < w.anz; ++z)
      for (int y = -(w.anxy / 2); y <= w.anxy / 2; ++y)
        for (int x = -(w.anxy / 2); x <= w.anxy / 2; ++x)
          (*m)[z][y][x] = a0[z][y][-x];
    w.atts.push_back(m);
  }
  // attenuation image 3 (round 4): ANOTHER x/y size (4-10 more voxels), same voxel sizes and planes
  {
    // (so many more that the automatic scatter-point image gets another x/y size under both templates with a coarse default
    //  bin size: int(n * voxel size / bin size + 1), made odd)
    int extra = 4;
    for (; extra < 12; extra += 2)
      {
        bool differs = true;
        for (int t : { w.auto_tmpl, w.auto_tmpl + 1 })
          {
            const float zxy = w.avxy / w.tmpls[t]->get_scanner_ptr()->get_default_bin_size();
            int a = static_cast<int>(w.anxy * zxy + 1), b = static_cast<int>((w.anxy + extra) * zxy + 1);
            a += (a % 2 == 0);
            b += (b % 2 == 0);
            if (a == b)
              differs = false;
          }
        if (differs)
          break;
      }
    auto m = blank(w.anz, w.anxy + extra, w.avz, w.avxy);
    for (auto it = m->begin_all(); it != m->end_all(); ++it)
      *it = rng.unit() < 0.6 ? static_cast<float>(0.012 + 0.02 * rng.unit()) : static_cast<float>(0.10 + 0.06 * rng.unit());
    w.att_wide = static_cast<int>(w.atts.size());
    w.atts.push_back(m);
  }
  // images on the z-grid of the automatic template
  {
    const int rr = w.dims[w.auto_tmpl].rings;
    w.act_grid = blank(2 * rr - 1, w.anxy, 2.F, w.avxy);
    w.att_grid = blank(2 * rr - 1, w.anxy, 2.F, w.avxy);
    fill_dense(*w.act_grid, 0.5F, 6.F, 0.25F);
    for (auto it = w.att_grid->begin_all(); it != w.att_grid->end_all(); ++it)
      *it = rng.unit() < 0.5 ? static_cast<float>(0.012 + 0.02 * rng.unit()) : static_cast<float>(0.10 + 0.06 * rng.unit());
    Zoom zg = { 3.F / w.anxy, 1.F / (2 * rr - 2), 3, 2 };
    w.zoom_grid = zg;
  }
  // scatter-point images on a coarse grid with the same z-middle: 0 and 1 have the SAME number of
  // voxels above each threshold at different places; 2 has different numbers
  const int cnxy = 3, cnz = 2;
  const float cvz = 8.F, cvxy = w.avxy * w.anxy / cnxy;
  const int nvox = cnxy * cnxy * cnz;
  const int nh = rng.range(2, 4), nl = rng.range(2, 4);
  auto make_sp = [&](int nhigh, int nlow) {
    auto s = blank(cnz, cnxy, cvz, cvxy);
    std::vector<int> perm(nvox);
    for (int i = 0; i < nvox; ++i)
      perm[i] = i;
    for (int i = nvox - 1; i > 0; --i)
      std::swap(perm[i], perm[rng.range(0, i)]);
    int k = 0;
    for (auto it = s->begin_all(); it != s->end_all(); ++it, ++k)
      {
        const int pos = static_cast<int>(std::find(perm.begin(), perm.end(), k) - perm.begin());
        if (pos < nhigh)
          *it = static_cast<float>(0.09 + 0.06 * rng.unit());
        else if (pos < nhigh + nlow)
          *it = static_cast<float>(0.02 + 0.03 * rng.unit());
      }
    return s;
  };
  w.spimgs.push_back(make_sp(nh, nl));
  for (;;)
    {
      auto s = make_sp(nh, nl);
      bool same_support = true;
      auto i0 = w.spimgs[0]->begin_all();
      for (auto it = s->begin_all(); it != s->end_all(); ++it, ++i0)
        if ((*it > 0) != (*i0 > 0))
          same_support = false;
      if (!same_support)
        {
          w.spimgs.push_back(s);
          break;
        }
    }
  w.spimgs.push_back(make_sp(nh + 1, nl + 2));
  write_world_files(w);
  return w;
}

// declare the world to the model
static void
declare_world(World& w)
{
  emit("cfg world " + num(w.id), "ok");
  for (std::size_t k = 0; k < w.tmpls.size(); ++k)
    {
      const TmplDims& d = w.dims[k];
      emit("cfg tmpl " + num(k) + " " + num(d.base) + " " + num(d.dets) + " " + num(d.rings) + " " + num(d.ntang) + " "
               + num(d.nseg) + " " + num(d.blocks) + " " + num(d.buckets),
           "ok");
    }
  for (std::size_t s = 0; s < w.spimgs.size(); ++s)
    for (std::size_t t = 0; t < w.thrs.size(); ++t)
      emit("cfg nspgiven " + num(s) + " " + num(t) + " " + num(count_at_or_above(*w.spimgs[s], w.thrs[t])), "ok");
  // down-sampled attenuation images: measured on a probe object through the public getter
  for (std::size_t m = 0; m < w.atts.size(); ++m)
    for (std::size_t z = 0; z < w.zooms.size(); ++z)
      {
        Config c;
        c.act = 0;
        c.att = static_cast<int>(m);
        c.tmpl = 0;
        c.exam = 0;
        c.zoom = static_cast<int>(z);
        std::unique_ptr<Sim> p = configure(w, c);
        p->set_up();
        for (std::size_t t = 0; t < w.thrs.size(); ++t)
          emit("cfg nspdown " + num(m) + " " + num(z) + " " + num(t) + " "
                   + num(count_at_or_above(p->get_attenuation_image_for_scatter_points(), w.thrs[t])),
               "ok");
      }
  emit("cfg zbad " + num(w.zbad), "ok");
  // round 4: the sizes of the zoom parameter sets (the members zoom_size_xy / zoom_size_z the setter stores)
  for (std::size_t z = 0; z < w.zooms.size(); ++z)
    emit("cfg zoomset " + num(z) + " " + num(w.zooms[z].sxy) + " " + num(w.zooms[z].sz), "ok");
  // round 4: the automatic (-1) factors. What downsample_density_image_for_scatter_points(-1,-1,-1,-1) stores in zoom_xy /
  // zoom_z / zoom_size_z for (attenuation image, template), measured on a probe object and turned into a class by value;
  // and the number of scatter points of every attenuation image down-sampled with the STORED factors of every class
  // (x/y size derived from the image: zoom_size_xy = -1)
  w.auto_tmpls = { w.auto_tmpl, w.auto_tmpl + 1, w.ftmpls[3].k_pool };
  for (int t : w.auto_tmpls)
    for (std::size_t m = 0; m < w.atts.size(); ++m)
      {
        Config c;
        c.act = 0;
        c.att = static_cast<int>(m);
        c.tmpl = t;
        c.exam = 0;
        c.zoom = -1;
        std::unique_ptr<Sim> p = configure(w, c);
        oracle(p->mem_zoom_xy() < 0 && p->mem_zoom_z() < 0 && p->mem_size_xy() == -1 && p->mem_size_z() == -1,
               "world=" + num(w.id) + " the zoom members of a new object are not the defaults (-1)");
        p->set_up();
        const World::AutoCls k = { p->mem_zoom_xy(), p->mem_zoom_z(), p->mem_size_z() };
        std::size_t id = 0;
        while (id < w.auto_classes.size()
               && !(w.auto_classes[id].zxy == k.zxy && w.auto_classes[id].zz == k.zz && w.auto_classes[id].sz == k.sz))
          ++id;
        if (id == w.auto_classes.size())
          w.auto_classes.push_back(k);
        emit("cfg autoclass " + num(m) + " " + num(t) + " " + num(id), "ok");
      }
  for (std::size_t id = 0; id < w.auto_classes.size(); ++id)
    for (std::size_t m = 0; m < w.atts.size(); ++m)
      {
        Config c;
        c.act = 0;
        c.att = static_cast<int>(m);
        c.tmpl = w.auto_tmpl;
        c.exam = 0;
        c.zoom = -1;
        std::unique_ptr<Sim> p = configure(w, c);
        try
          {
            p->set_image_downsample_factors(w.auto_classes[id].zxy, w.auto_classes[id].zz, -1, w.auto_classes[id].sz);
            if (p->set_up() != Succeeded::yes)
              continue;
          }
        catch (...)
          {
            continue;
          }
        for (std::size_t t = 0; t < w.thrs.size(); ++t)
          emit("cfg nspauto " + num(m) + " " + num(id) + " " + num(t) + " "
                   + num(count_at_or_above(p->get_attenuation_image_for_scatter_points(), w.thrs[t])),
               "ok");
      }
}

// ------------------------------------------------------------------------------------------------ phase A
static const double EPSF = 5.9604644775390625e-08; // 2^-24

struct Ingredients
{
  double pc[5];    // maxCos cosTheta eff dsigma mu
  double a[5], b[5]; // emis att attPow r2 cosInc
  double value;    // simulate_for_one_scatter_point
};

// what simulate_for_one_scatter_point(sp, A, B) reads, through the real accessors, and what it returns
static Ingredients
ingredients(Sim& s, const World& w, const Config& c, unsigned sp, unsigned A, unsigned B)
{
  Ingredients g;
  const CartesianCoordinate3D<float> S = s.sp(sp), DA = s.det(A), DB = s.det(B);
  const float maxcos = Sim::max_cos(w.exams[c.exam]->get_low_energy_thres(),
                                    2.f,
                                    s.get_template_proj_data_info_sptr()->get_scanner_ptr()->get_energy_resolution());
  const float costheta = static_cast<float>(-cos_angle(DA - S, DB - S));
  const float new_energy = ScatterSimulation::photon_energy_after_Compton_scatter_511keV(costheta);
  const float eff = s.detection_efficiency(new_energy);
  const float expo = ScatterSimulation::total_Compton_cross_section_relative_to_511keV(new_energy) - 1;
  g.pc[0] = maxcos;
  g.pc[1] = costheta;
  g.pc[2] = eff;
  g.pc[3] = ScatterSimulation::dif_Compton_cross_section(costheta, 511.F);
  g.pc[4] = s.mu(sp);
  auto side = [&](double* o, unsigned D, const CartesianCoordinate3D<float>& Dc) {
    const float e = s.cached_integral_over_activity_image_between_scattpoint_det(sp, D);
    const float at = s.cached_exp_integral_over_attenuation_image_between_scattpoint_det(sp, D);
    o[0] = e;
    o[1] = at;
    o[2] = std::pow(at, expo);
    o[3] = static_cast<float>(norm_squared(S - Dc));
    const CartesianCoordinate3D<float> to_centre(0, -Dc[2], -Dc[3]);
    o[4] = static_cast<float>(cos_angle(S - Dc, to_centre));
  };
  side(g.a, A, DA);
  side(g.b, B, DB);
  g.value = s.simulate_for_one_scatter_point(sp, A, B);
  return g;
}

static string
ing_text(const Ingredients& g)
{
  string t;
  for (int i = 0; i < 5; ++i)
    t += " " + str(g.pc[i]);
  for (int i = 0; i < 5; ++i)
    t += " " + str(g.a[i]);
  for (int i = 0; i < 5; ++i)
    t += " " + str(g.b[i]);
  return t;
}

// integral_over_activity_image_between_scattpoint_det(scatter point, detector) for the formula correspondence: the value the
// implementation returns, together with the elements of the ray as integral_between_2_points obtains them
// (RayTraceVoxelsOnCartesianGrid on the image the object holds, same arguments: single_scatter_integrals.cxx:70-87), each
// with "inside the index range" and the voxel value; the Lean model multiplies the sum by min(pi/2, 1/r^2)
static void
emit_actint(Sim& s, unsigned p, unsigned D, const string& ctx)
{
  const Img& image = dynamic_cast<const Img&>(s.get_activity_image());
  const CartesianCoordinate3D<float> S = s.sp(p), Dc = s.det(D);
  const float direct = s.integral_over_activity_image_between_scattpoint_det(S, Dc);
  const float cached = s.cached_integral_over_activity_image_between_scattpoint_det(p, D);
  oracle(std::memcmp(&direct, &cached, sizeof(float)) == 0,
         ctx + " cached_integral_over_activity_image_between_scattpoint_det differs from the direct integral for scatter point " + num(p)
             + ", detector " + num(D));
  const CartesianCoordinate3D<float> voxel_size = image.get_grid_spacing();
  CartesianCoordinate3D<float> origin = image.get_origin();
  const float z_to_middle = (image.get_max_index() + image.get_min_index()) * voxel_size.z() / 2.F;
  origin.z() -= z_to_middle;
  ProjMatrixElemsForOneBin lor;
  RayTraceVoxelsOnCartesianGrid(lor, (S - origin) / voxel_size, (Dc - origin) / voxel_size, voxel_size, 1 / voxel_size.x());
  lor.sort();
  string body;
  int n = 0;
  for (ProjMatrixElemsForOneBin::iterator e = lor.begin(); e != lor.end(); ++e, ++n)
    {
      const BasicCoordinate<3, int> cd = e->get_coords();
      const bool inside = cd[1] >= image.get_min_index() && cd[1] <= image.get_max_index() && cd[2] >= image[cd[1]].get_min_index()
                          && cd[2] <= image[cd[1]].get_max_index() && cd[3] >= image[cd[1]][cd[2]].get_min_index()
                          && cd[3] <= image[cd[1]][cd[2]].get_max_index();
      body += string(" ") + str(inside ? 1.0 : 0.0) + " " + str(inside ? image[cd] : 0.F) + " " + str(e->get_value());
    }
  const float r2 = norm_squared(S - Dc);
  emit("actint " + num(n) + " " + str(r2) + " " + str(static_cast<float>(_PI / 2)) + body, str(direct));
  // the line integral itself is a public-ish static of the class: the capped factor times it is the value, to rounding
  const float li = Sim::integral_between_2_points(image, S, Dc);
  const float saf = std::min(static_cast<float>(_PI / 2), 1.F / r2);
  oracle(std::fabs(direct - double(saf) * li) <= 4 * EPSF * std::fabs(double(saf) * li),
         ctx + " integral_over_activity_image_between_scattpoint_det is not min(pi/2, 1/r^2) * integral_between_2_points (" + str(direct) + " vs "
             + str(double(saf) * li) + ")");
}

// `deteff` operations: detection_efficiency(E) of an object with the given template (reference energy, energy resolution) and
// energy window, and the property's "never negative" (a detection probability: also <= 1) on the implementation
static void
emit_deteff(const Sim& s, float energy, const string& ctx)
{
  const Scanner& sc = *s.get_template_proj_data_info_sptr()->get_scanner_ptr();
  const ExamInfo& ex = *s.get_exam_info_sptr();
  const float v = s.detection_efficiency(energy);
  emit("deteff " + str(energy) + " " + str(sc.get_reference_energy()) + " " + str(sc.get_energy_resolution()) + " " + str(2.35482f) + " "
           + str(ex.get_low_energy_thres()) + " " + str(ex.get_high_energy_thres()),
       str(v));
  oracle(v >= 0.F && v <= 1.F + 4 * EPSF,
         ctx + " detection_efficiency(" + fmt9(energy) + " keV) = " + fmt9(v) + " for the energy window " + fmt9(ex.get_low_energy_thres()) + "-"
             + fmt9(ex.get_high_energy_thres()) + " keV, energy resolution " + fmt9(sc.get_energy_resolution()) + ": outside [0, 1]");
}

// detection_efficiency over the pool windows x templates of different energy resolution, and over random windows /
// resolutions (5-30 %): no set_up needed (the function reads the template and the exam info only)
static void
deteff_sweep(const World& w, vh::Rng& rng, int n_random)
{
  emit("cfg deteff world=" + num(w.id), "ok");
  const string ctx = "world=" + num(w.id) + " detection efficiency:";
  auto energies = [&](const Sim& s, float lo, float hi, int n_rand) {
    const float fixed[] = { 511.F, lo, hi, lo - 1.F, hi + 1.F, 0.5F * (lo + hi), 170.4F, 255.5F, 340.7F, 408.8F, 460.F, 495.F, 505.F, 510.F, 512.F, 560.F, 700.F };
    for (float e : fixed)
      if (e > 1.F)
        emit_deteff(s, e, ctx);
    for (int k = 0; k < n_rand; ++k)
      {
        // energies a scattered 511 keV photon can have (170.3 .. 511), some near the thresholds
        const int r = rng.range(0, 3);
        const float e = r == 0   ? static_cast<float>(lo + (rng.unit() - 0.5) * 40.)
                        : r == 1 ? static_cast<float>(hi + (rng.unit() - 0.5) * 40.)
                                 : static_cast<float>(170.4 + 340.6 * rng.unit());
        if (e > 1.F)
          emit_deteff(s, e, ctx);
      }
  };
  const int tmpls[] = { 0, 1, w.tmpl_res05, w.tmpl_res30, 3 };
  for (int k : tmpls)
    for (std::size_t e = 0; e < w.exams.size(); ++e)
      {
        // (windows read back from files: only with the first template)
        if (static_cast<int>(e) >= w.exam_extra_end && k != 0)
          continue;
        Sim s;
        s.set_template_proj_data_info(*w.tmpls[k]);
        s.set_exam_info(*w.exams[e]);
        energies(s, w.exams[e]->get_low_energy_thres(), w.exams[e]->get_high_energy_thres(), 2);
      }
  for (int k = 0; k < n_random; ++k)
    {
      shared_ptr<Scanner> sc(new Scanner(*w.tmpls[0]->get_scanner_ptr()));
      sc->set_energy_resolution(static_cast<float>(0.05 + 0.25 * rng.unit()));
      if (k % 4 == 3)
        sc->set_reference_energy(static_cast<float>(300 + 400 * rng.unit())); // (resolution quoted at another energy)
      const shared_ptr<ProjDataInfo> pdi = vh::make_pdi(sc, 1, w.dims[0].rings - 1, w.dims[0].dets / 2, w.dims[0].dets / 2 - 1);
      const float lo = static_cast<float>(30 + 570 * rng.unit());
      const int wk = rng.range(0, 3);
      const float width = static_cast<float>(wk == 0 ? 1 + 5 * rng.unit() : wk == 1 ? 10 + 90 * rng.unit() : wk == 2 ? 100 + 500 * rng.unit() : 511.F - lo + (rng.unit() - 0.5) * 6.);
      const float hi = lo + std::max(0.5F, width);
      Sim s;
      s.set_template_proj_data_info(*pdi);
      s.set_exam_info(*mk_exam(lo, hi));
      energies(s, lo, hi, 3);
    }
}

static void
phase_a(const World& w, const Config& c, vh::Rng& rng, int n_est_ops, const string& tag)
{
  emit("cfg formula world=" + num(w.id) + " " + tag + " act=" + num(c.act) + " att=" + num(c.att) + " sp=" + num(c.sp)
           + " tmpl=" + num(c.tmpl) + " exam=" + num(c.exam) + " thr=" + num(c.thr) + " zoom=" + num(c.zoom) + " rnd=" + num(c.rnd)
           + " ds=" + num(c.ds) + ":" + num(c.ds_rings) + ":" + num(c.ds_dets) + " dscalls=" + num(c.ds_calls.size())
           + " dsimg=" + num(c.ds_images) + " blocks=" + num(w.dims[c.tmpl].blocks),
       "ok");
  const string ctx = "world=" + num(w.id) + " " + tag + (w.dims[c.tmpl].blocks ? " (BlocksOnCylindrical)" : "") + (c.rnd ? " (random placement)" : "")
                     + (c.ds || !c.ds_calls.empty() ? " (down-sampled scanner)" : "") + (c.zoom < 0 && c.sp < 0 ? " (automatic zoom)" : "")
                     + (c.ds_images ? " (images down-sampled to scanner size)" : "")
                     + " (energy window " + fmt9(w.exams[c.exam]->get_low_energy_thres()) + "-" + fmt9(w.exams[c.exam]->get_high_energy_thres())
                     + " keV, resolution " + fmt9(w.tmpls[c.tmpl]->get_scanner_ptr()->get_energy_resolution()) + ")";
  g_time_step = c.rnd ? 1 : 0;
  struct Restore
  {
    ~Restore() { g_time_step = 0; }
  } restore_clock;
  std::unique_ptr<Sim> s = configure(w, c);
  s->set_up();
  std::vector<float> out;
  if (!run_process(*s, out))
    {
      oracle(false, ctx + " process_data failed on a complete configuration");
      return;
    }
  const int nsp = s->get_num_scatter_points();
  const int ndet = s->ndet();
  // number of scatter points = voxels at/above threshold of the scatter-point image
  oracle(nsp == count_at_or_above(s->get_attenuation_image_for_scatter_points(), w.thrs[c.thr]),
         ctx + " number of scatter points differs from the number of voxels at/above the threshold");
  // (dense activity images only: a few hot voxels may legitimately see no scatter in a tiny scanner; the windows far below
  //  511 keV / very narrow ones may legitimately detect nothing: there only scatter points are required)
  const bool dense_act = c.act < 2 || c.act == w.act_large;
  const bool extra_exam = c.exam >= w.exam_extra0 && c.exam < w.exam_extra_end;
  const bool may_detect_nothing = extra_exam && (c.exam == w.exam_extra0 + 2 || c.exam == w.exam_extra0 + 5);
  if (dense_act)
    oracle(nsp > 0 && (may_detect_nothing || total(out) > 0), ctx + " degenerate configuration (no scatter) — generator problem");
  // detection points: once every detector is registered they are symmetric in z about the centre of the scanner (the shift
  // applied by set_up: get_m of the first bin, cylindrical and blocks branch)
  {
    const Scanner& sc = *s->get_template_proj_data_info_sptr()->get_scanner_ptr();
    if (ndet == sc.get_num_rings() * sc.get_num_detectors_per_ring())
      {
        double sz = 0, az = 0;
        for (int d = 0; d < ndet; ++d)
          {
            sz += s->det(d)[1];
            az += std::fabs(s->det(d)[1]);
          }
        oracle(std::fabs(sz) <= 1e-4 * (az + 1), ctx + " detection points are not centred in z (sum of z = " + num(sz) + ")");
      }
    else
      ++g_checks;
    if (s->is_blocks() && sc.get_num_transaxial_crystals_per_block() >= 3)
      {
        // generator check: some pair must have clearly different incidence cosines (otherwise this template could not
        // tell cosA*cosB from cosA*cosA); (with 2 crystals per block all crystals are at the same radius)
        double maxdiff = 0;
        for (int A = 0; A < ndet; ++A)
          for (int B = A + 1; B < ndet; ++B)
            {
              const CartesianCoordinate3D<float> DA = s->det(A), DB = s->det(B);
              if (DA[2] == DB[2] && DA[3] == DB[3])
                continue;
              const CartesianCoordinate3D<float> ca(0, -DA[2], -DA[3]), cb(0, -DB[2], -DB[3]);
              maxdiff = std::max(maxdiff, std::fabs(cos_angle(DB - DA, ca) - cos_angle(DA - DB, cb)));
            }
        oracle(maxdiff > 1e-2, ctx + " blocks template without a pair of clearly different incidence cosines — generator problem");
      }
  }
  // (1) each output bin is the estimate for the bin's detector pair; non-negative
  {
    shared_ptr<const ProjDataInfo> pdi = s->get_template_proj_data_info_sptr();
    ProjDataInMemory tmp(s->get_exam_info_sptr(), pdi->create_shared_clone());
    std::copy(out.begin(), out.end(), tmp.begin_all());
    bool all_ok = true, nonneg = true;
    for (int seg = pdi->get_min_segment_num(); seg <= pdi->get_max_segment_num(); ++seg)
      for (int ax = pdi->get_min_axial_pos_num(seg); ax <= pdi->get_max_axial_pos_num(seg); ++ax)
        for (int v = pdi->get_min_view_num(); v <= pdi->get_max_view_num(); ++v)
          for (int t = pdi->get_min_tangential_pos_num(); t <= pdi->get_max_tangential_pos_num(); ++t)
            {
              Bin bin(seg, v, ax, t);
              unsigned A = 0, B = 0;
              s->find_detectors(A, B, bin);
              double e = 0;
              s->actual_scatter_estimate(e, A, B);
              const float got = tmp.get_bin_value(bin);
              if (got != static_cast<float>(e))
                all_ok = false;
              if (!(got >= 0.F))
                nonneg = false;
            }
    oracle(all_ok, ctx + " an output bin differs from actual_scatter_estimate of its detector pair");
    oracle(nonneg, ctx + " negative (or NaN) output bin");
  }
  // (2) A<->B symmetry, non-negativity and hypotheses for ALL detector pairs and scatter points
  {
    long asym_pairs = 0, asym_points = 0, negative = 0, hyp = 0, not_inward_on_cylinder = 0;
    for (unsigned A = 0; A < static_cast<unsigned>(ndet); ++A)
      for (unsigned B = A + 1; B < static_cast<unsigned>(ndet); ++B)
        {
          // detectors at the same transaxial position (different rings) are not a coincidence pair: no bin
          // refers to them (and detection_efficiency_no_scatter is 0 there)
          if (s->det(A)[2] == s->det(B)[2] && s->det(A)[3] == s->det(B)[3])
            continue;
          double eab = 0, eba = 0, mag = 0;
          s->actual_scatter_estimate(eab, A, B);
          s->actual_scatter_estimate(eba, B, A);
          // "never negative" is claimed for coincidence pairs: both crystals see the other one from the inside
          // (always the case on a cylinder; two crystals of the same flat block do not)
          bool inward;
          {
            const CartesianCoordinate3D<float> DA = s->det(A), DB = s->det(B);
            const CartesianCoordinate3D<float> ca(0, -DA[2], -DA[3]), cb(0, -DB[2], -DB[3]);
            inward = cos_angle(DB - DA, ca) > 0 && cos_angle(DA - DB, cb) > 0;
            if (!inward && !s->is_blocks())
              ++not_inward_on_cylinder;
          }
          for (unsigned p = 0; p < static_cast<unsigned>(nsp); ++p)
            {
              const double x = s->simulate_for_one_scatter_point(p, A, B);
              const double y = s->simulate_for_one_scatter_point(p, B, A);
              mag += std::fabs(x) + std::fabs(y);
              if (std::fabs(x - y) > 64 * EPSF * (std::fabs(x) + std::fabs(y)))
                ++asym_points;
              if (!(x >= 0) || !(y >= 0))
                ++negative;
            }
          if (!inward)
            {
              // symmetry still has to hold (checked below); the sign of the normalisation is not claimed
              if (nsp > 0 && std::fabs(eab - eba) > 64 * EPSF * (std::fabs(eab) + std::fabs(eba)))
                ++asym_pairs;
              continue;
            }
          if (nsp > 0)
            {
              const double cf = std::fabs(eab) + std::fabs(eba);
              if (std::fabs(eab - eba) > 64 * EPSF * cf)
                ++asym_pairs;
            }
          if (!(eab >= 0) || !(eba >= 0))
            ++negative;
        }
    oracle(asym_pairs == 0, ctx + " actual_scatter_estimate(A,B) != actual_scatter_estimate(B,A) for " + num(asym_pairs) + " detector pairs");
    oracle(asym_points == 0,
           ctx + " simulate_for_one_scatter_point(sp,A,B) != (sp,B,A) for " + num(asym_points) + " (point, pair) combinations");
    oracle(negative == 0, ctx + " negative scatter estimate for " + num(negative) + " (point, pair) combinations");
    oracle(not_inward_on_cylinder == 0, ctx + " a chord of a cylindrical scanner has a non-positive incidence cosine (" + num(not_inward_on_cylinder) + ")");
    // hypotheses of the Lean theorems, on the implementation
    for (unsigned p = 0; p < static_cast<unsigned>(nsp); ++p)
      for (unsigned D = 0; D < static_cast<unsigned>(ndet); ++D)
        {
          const float e = s->cached_integral_over_activity_image_between_scattpoint_det(p, D);
          const float a = s->cached_exp_integral_over_attenuation_image_between_scattpoint_det(p, D);
          if (!(e >= 0) || !(a > 0) || !(a <= 1) || e == SENTINEL || a == SENTINEL || !(s->mu(p) >= 0))
            ++hyp;
        }
    oracle(hyp == 0, ctx + " an integral is negative / equals the cache sentinel / attenuation factor outside (0,1] (" + num(hyp) + ")");
  }
  // (3) formula correspondence: ssp and est operations for a sample of detector pairs
  for (int k = 0; k < n_est_ops && ndet >= 2 && nsp > 0; ++k)
    {
      unsigned A, B;
      if (k % 2 == 0)
        { // a pair of some bin
          shared_ptr<const ProjDataInfo> pdi = s->get_template_proj_data_info_sptr();
          const int seg = rng.range(pdi->get_min_segment_num(), pdi->get_max_segment_num());
          Bin bin(seg,
                  rng.range(pdi->get_min_view_num(), pdi->get_max_view_num()),
                  rng.range(pdi->get_min_axial_pos_num(seg), pdi->get_max_axial_pos_num(seg)),
                  rng.range(pdi->get_min_tangential_pos_num(), pdi->get_max_tangential_pos_num()));
          s->find_detectors(A, B, bin);
          if (rng.coin())
            std::swap(A, B);
        }
      else
        {
          A = static_cast<unsigned>(rng.range(0, ndet - 1));
          B = static_cast<unsigned>(rng.range(0, ndet - 1));
          if (A == B)
            B = (A + ndet / 2) % ndet;
          if (s->det(A)[2] == s->det(B)[2] && s->det(A)[3] == s->det(B)[3])
            continue;
        }
      string est_line = "est " + num(nsp);
      for (unsigned p = 0; p < static_cast<unsigned>(nsp); ++p)
        {
          const Ingredients g = ingredients(*s, w, c, p, A, B);
          est_line += ing_text(g);
          if (p < 3 || g.value != 0)
            emit("ssp" + ing_text(g), str(g.value));
          if (p < 3)
            {
              // round 4: the efficiency and the activity integrals the point reads, recomputed by the model
              emit_deteff(*s, ScatterSimulation::photon_energy_after_Compton_scatter_511keV(static_cast<float>(g.pc[1])), ctx);
              emit_actint(*s, p, A, ctx);
              emit_actint(*s, p, B, ctx);
            }
        }
      const CartesianCoordinate3D<float> DA = s->det(A), DB = s->det(B);
      const CartesianCoordinate3D<float> ca(0, -DA[2], -DA[3]), cb(0, -DB[2], -DB[3]);
      const float eff511 = s->detection_efficiency(511.F) > 0 ? s->detection_efficiency(511.F) : 1.F;
      est_line += " " + str(static_cast<float>(norm_squared(DA - DB))) + " " + str(eff511) + " "
                  + str(static_cast<float>(cos_angle(DB - DA, ca))) + " " + str(static_cast<float>(cos_angle(DA - DB, cb))) + " "
                  + str(_PI) + " " + str(s->vol()) + " " + str(ScatterSimulation::total_Compton_cross_section(511.F));
      double e = 0;
      s->actual_scatter_estimate(e, A, B);
      emit(est_line, str(e));
      // detection_efficiency_no_scatter for the pair, both orders: the model gets the cosine of EACH detector
      const string r2 = str(static_cast<float>(norm_squared(DA - DB)));
      const string cA = str(static_cast<float>(cos_angle(DB - DA, ca))), cB = str(static_cast<float>(cos_angle(DA - DB, cb)));
      emit("effns " + r2 + " " + str(eff511) + " " + cA + " " + cB + " " + str(_PI), str(s->detection_efficiency_no_scatter(A, B)));
      emit("effns " + r2 + " " + str(eff511) + " " + cB + " " + cA + " " + str(_PI), str(s->detection_efficiency_no_scatter(B, A)));
      // round 4: the normalisation the object holds (detector_efficiency_no_scatter, private), recovered from
      // detection_efficiency_no_scatter(A,B) = eff * cosA * cosB / (0.75 / 2 / pi * rAB^2), vs the model's
      // `detection_efficiency(511) > 0 ? detection_efficiency(511) : 1`
      {
        const Scanner& sc = *s->get_template_proj_data_info_sptr()->get_scanner_ptr();
        // (the product of the two cosines is a SINGLE-precision product in the implementation)
        const float cos_prod = static_cast<float>(cos_angle(DB - DA, ca)) * static_cast<float>(cos_angle(DA - DB, cb));
        const double held = s->detection_efficiency_no_scatter(A, B) * (0.75 / 2. / _PI * static_cast<float>(norm_squared(DA - DB)) / cos_prod);
        emit("eff511 " + str(sc.get_reference_energy()) + " " + str(sc.get_energy_resolution()) + " " + str(2.35482f) + " "
                 + str(w.exams[c.exam]->get_low_energy_thres()) + " " + str(w.exams[c.exam]->get_high_energy_thres()),
             str(held));
        oracle(held > 0, ctx + " the normalisation detector_efficiency_no_scatter is not positive (" + str(held) + ")");
      }
    }
  // (3b) the same object after set_activity_image_sptr + set_up (scatter points are not resampled, so this also holds
  //      with random placement): 2*activity => 2*estimate, zero activity => 0, the first image again => the first output
  if (!c.ds && !c.ds_images)
    {
      shared_ptr<Img> a2(new Img(*w.acts[c.act]));
      *a2 *= 2.F;
      std::vector<float> o2, oz, ob;
      s->set_activity_image_sptr(a2);
      bool ok2 = s->set_up() == Succeeded::yes && run_process(*s, o2) && o2.size() == out.size();
      for (std::size_t i = 0; ok2 && i < out.size(); ++i)
        if (std::fabs(o2[i] - 2.0 * out[i]) > 16 * EPSF * std::fabs(2.0 * out[i]))
          ok2 = false;
      oracle(ok2, ctx + " same object: estimate after set_activity_image_sptr(2*activity) + set_up is not 2*estimate");
      // round 4: homogeneity far from 1 (Bq/ml or counts: voxel values of 1e3 .. 1e6 and more)
      for (float factor : { 1.0e6F, 1.0e3F, 1.0e-6F })
        {
          shared_ptr<Img> af(new Img(*w.acts[c.act]));
          *af *= factor;
          std::vector<float> of;
          s->set_activity_image_sptr(af);
          bool okf = s->set_up() == Succeeded::yes && run_process(*s, of) && of.size() == out.size();
          long bad = 0;
          for (std::size_t i = 0; okf && i < out.size(); ++i)
            if (!(std::fabs(of[i] - double(factor) * out[i]) <= 64 * EPSF * std::fabs(double(factor) * out[i])))
              ++bad;
          oracle(okf && bad == 0, ctx + " same object: estimate for " + fmt9(factor) + "*activity is not " + fmt9(factor) + "*estimate (" + num(bad)
                                      + " bins outside 64*2^-24 relative)");
        }
      s->set_activity_image_sptr(w.acts[4]);
      bool okz = s->set_up() == Succeeded::yes && run_process(*s, oz);
      for (float x : oz)
        if (x != 0.F)
          okz = false;
      oracle(okz, ctx + " same object: zero activity after set_activity_image_sptr + set_up does not give a zero estimate");
      // additivity on the same object: 2*a + 0.5*b
      {
        const int other = (c.act == 1) ? 2 : 1;
        std::vector<float> o_other, o_comb;
        s->set_activity_image_sptr(w.acts[other]);
        bool lin = s->set_up() == Succeeded::yes && run_process(*s, o_other);
        shared_ptr<Img> comb(new Img(*w.acts[c.act]));
        *comb *= 2.F;
        {
          Img tmp(*w.acts[other]);
          tmp *= 0.5F;
          *comb += tmp;
        }
        s->set_activity_image_sptr(comb);
        lin = lin && s->set_up() == Succeeded::yes && run_process(*s, o_comb) && o_comb.size() == out.size() && o_other.size() == out.size();
        long bad = 0;
        for (std::size_t i = 0; lin && i < out.size(); ++i)
          {
            const double expect = 2.0 * out[i] + 0.5 * o_other[i];
            if (std::fabs(o_comb[i] - expect) > 4 * 64 * EPSF * std::fabs(expect))
              ++bad;
          }
        oracle(lin && bad == 0, ctx + " same object: estimate is not additive in the activity image (" + num(bad) + " bins outside 4*64*2^-24 relative)");
      }
      s->set_activity_image_sptr(w.acts[c.act]);
      oracle(s->set_up() == Succeeded::yes && run_process(*s, ob) && bitwise_equal(ob, out),
             ctx + " same object: setting the first activity image again does not reproduce the first output");
    }
  // (4) cache disabled: bitwise the same output
  {
    Config c2 = c;
    c2.use_cache = false;
    std::vector<float> o2;
    if (!c.rnd) // (another object draws other scatter points)
      oracle(fresh_result(w, c2, o2) && bitwise_equal(out, o2), ctx + " output with the cache disabled differs from the output with the cache enabled");
    // toggling the cache off on the live object and recomputing
    std::vector<float> o3;
    s->set_use_cache(false);
    oracle(run_process(*s, o3) && bitwise_equal(out, o3), ctx + " output changes after set_use_cache(false) on the same object");
  }
  // (5) zero activity => zero; homogeneity; additivity — on fresh objects (with random placement: (3b) on the same object)
  if (!c.rnd)
  {
    std::vector<float> oz;
    Config cz = c;
    cz.act = 4;
    bool zero = fresh_result(w, cz, oz);
    for (float x : oz)
      if (x != 0.F)
        zero = false;
    oracle(zero, ctx + " zero activity does not give a zero scatter estimate");
    // 2*act: exact in floating point, so the result is exactly doubled up to the cast
    shared_ptr<Img> a2(new Img(*w.acts[c.act]));
    *a2 *= 2.F;
    std::vector<float> o2;
    bool hom = fresh_result(w, c, o2, a2) && o2.size() == out.size();
    for (std::size_t i = 0; hom && i < out.size(); ++i)
      if (std::fabs(o2[i] - 2.0 * out[i]) > 16 * EPSF * std::fabs(2.0 * out[i]))
        hom = false;
    oracle(hom, ctx + " estimate for 2*activity is not 2*estimate");
    // alpha*a + beta*b with a second image
    const int other = (c.act == 1) ? 2 : 1;
    std::vector<float> ob;
    Config cb2 = c;
    cb2.act = other;
    bool lin = fresh_result(w, cb2, ob);
    shared_ptr<Img> comb(new Img(*w.acts[c.act]));
    *comb *= 2.F;
    {
      Img tmp(*w.acts[other]);
      tmp *= 0.5F;
      *comb += tmp;
    }
    std::vector<float> oc;
    lin = lin && fresh_result(w, c, oc, comb) && oc.size() == out.size() && ob.size() == out.size();
    long bad = 0;
    for (std::size_t i = 0; lin && i < out.size(); ++i)
      {
        const double expect = 2.0 * out[i] + 0.5 * ob[i];
        // integrals are float sums over at most ~30 voxels, followed by ~20 operations: n = 64
        if (std::fabs(oc[i] - expect) > 4 * 64 * EPSF * std::fabs(expect))
          ++bad;
      }
    oracle(lin && bad == 0, ctx + " estimate is not additive in the activity image (" + num(bad) + " bins outside 4*64*2^-24 relative)");
    // round 4: homogeneity with factors far from 1 (the voxel products are rounded once: 64*2^-24)
    for (float factor : { 1.0e-6F, 1.0e3F, 1.0e6F })
      {
        shared_ptr<Img> af(new Img(*w.acts[c.act]));
        *af *= factor;
        std::vector<float> of;
        bool okf = fresh_result(w, c, of, af) && of.size() == out.size();
        long badf = 0;
        for (std::size_t i = 0; okf && i < out.size(); ++i)
          if (!(std::fabs(of[i] - double(factor) * out[i]) <= 64 * EPSF * std::fabs(double(factor) * out[i])))
            ++badf;
        oracle(okf && badf == 0, ctx + " estimate for " + fmt9(factor) + "*activity is not " + fmt9(factor) + "*estimate (" + num(badf)
                                     + " bins outside 64*2^-24 relative)");
      }
    // additivity with sparse images: the two halves of activity image 0 (each is zero on one arm of most scatter points:
    // the early return `emiss_to_detA == 0 && emiss_to_detB == 0` and the one-armed terms) and a point source
    {
      std::vector<float> o0, ol, orr, op, oc2;
      Config cc = c;
      cc.act = 0;
      bool ok = fresh_result(w, cc, o0);
      cc.act = w.act_left;
      ok = ok && fresh_result(w, cc, ol);
      cc.act = w.act_right;
      ok = ok && fresh_result(w, cc, orr);
      cc.act = w.act_point;
      ok = ok && fresh_result(w, cc, op);
      // 3 * left + 1e4 * point
      shared_ptr<Img> comb2(new Img(*w.acts[w.act_left]));
      *comb2 *= 3.F;
      {
        Img tmp(*w.acts[w.act_point]);
        tmp *= 1.0e4F;
        *comb2 += tmp;
      }
      ok = ok && fresh_result(w, c, oc2, comb2) && o0.size() == ol.size() && o0.size() == orr.size() && o0.size() == op.size() && o0.size() == oc2.size();
      long bad1 = 0, bad2 = 0;
      for (std::size_t i = 0; ok && i < o0.size(); ++i)
        {
          if (!(std::fabs(o0[i] - (double(ol[i]) + orr[i])) <= 4 * 64 * EPSF * (std::fabs(ol[i]) + std::fabs(orr[i]))))
            ++bad1;
          const double expect = 3.0 * ol[i] + 1.0e4 * op[i];
          if (!(std::fabs(oc2[i] - expect) <= 4 * 64 * EPSF * std::fabs(expect)))
            ++bad2;
        }
      oracle(ok && bad1 == 0, ctx + " estimate(left half) + estimate(right half) is not estimate(whole image) (" + num(bad1) + " bins outside 4*64*2^-24 relative)");
      oracle(ok && bad2 == 0, ctx + " estimate(3*half image + 1e4*point source) is not 3*estimate(half) + 1e4*estimate(point) (" + num(bad2) + " bins)");
    }
  }
}

// ------------------------------------------------------------------------------------------------ phase B
struct Hist
{
  const World* w;
  std::unique_ptr<Sim> sim;
  Config cfg; // what a fresh object would be given
  bool dead = false;
  std::vector<string> trace;
  // images owned by the "user" of the history object: overwritten in place and handed over again (same pointer)
  shared_ptr<Img> mut_act, mut_att, mut_sp;
  int out_mode = 0;           // which public way provides the output (see run_process)
  bool check_flipped = false; // every result must also equal that of a fresh object with the OPPOSITE cache setting
};

static void
hist_new(Hist& h, const World& w, bool rnd)
{
  h.w = &w;
  h.sim.reset(new Sim);
  h.sim->set_randomly_place_scatter_points(rnd);
  h.cfg = Config();
  h.cfg.rnd = rnd;
  h.mut_act.reset();
  h.mut_att.reset();
  h.mut_sp.reset();
  h.dead = false;
  h.trace.clear();
  emit("new", "ok");
  emit(string("set_rnd ") + (rnd ? "1" : "0"), "ok");
}

// executes one operation on the real object; returns the answer token(s)
static string
hist_apply(Hist& h, const std::vector<string>& t)
{
  const World& w = *h.w;
  Sim& s = *h.sim;
  const string& op = t[0];
  auto I = [&](int k) { return std::atoi(t[k].c_str()); };
  try
    {
      if (op == "set_tmpl")
        {
          s.set_template_proj_data_info(*w.tmpls[I(1)]);
          h.cfg.tmpl = I(1);
          h.cfg.ds_calls.clear();
          return "ok";
        }
      if (op == "ds_scanner")
        {
          if (!s.has_template_proj_data_info())
            return "bad-op"; // (null dereference in the library: the generator never asks for it)
          if (s.downsample_scanner(I(1), I(2)) != Succeeded::yes)
            return "err";
          h.cfg.ds_calls.push_back(std::make_pair(I(1), I(2)));
          return "ok";
        }
      // explicit downsample_density_image_for_scatter_points with the parameters of the current zoom set (what set_up
      // would call if there were no scatter-point image)
      if (op == "ds_sp")
        {
          if (h.cfg.zoom < 0)
            {
              // round 4: no zoom set: the members as arguments, exactly what set_up() passes (the defaults -1 before the
              // first automatic call, what that call stored afterwards)
              if (!s.has_template_proj_data_info())
                return "bad-op"; // (null dereference in the library: the generator never asks for it)
              s.downsample_density_image_for_scatter_points(s.mem_zoom_xy(), s.mem_zoom_z(), s.mem_size_xy(), s.mem_size_z());
              h.cfg.sp = -1;
              return "ok";
            }
          const Zoom& z = w.zooms[h.cfg.zoom];
          s.downsample_density_image_for_scatter_points(z.zxy, z.zz, z.sxy, z.sz);
          h.cfg.sp = -1;
          return "ok";
        }
      if (op == "zoommem")
        return num(s.mem_size_xy()) + " " + num(s.mem_size_z()) + " " + (s.mem_zoom_xy() < 0 ? "1" : "0");
      // in-place change + the same pointer again
      if (op == "set_act_ip" || op == "set_att_ip" || op == "set_spimg_ip")
        {
          const int k = I(1);
          shared_ptr<Img>& mut = op == "set_act_ip" ? h.mut_act : op == "set_att_ip" ? h.mut_att : h.mut_sp;
          const Img& src = op == "set_act_ip" ? *w.acts[k] : op == "set_att_ip" ? *w.atts[k] : *w.spimgs[k];
          if (!mut)
            mut.reset(new Img(src));
          else
            {
              if (mut->get_index_range() != src.get_index_range())
                return "bad-op";
              std::copy(src.begin_all_const(), src.end_all_const(), mut->begin_all()); // the object still points here
            }
          if (op == "set_act_ip")
            {
              s.set_activity_image_sptr(mut);
              h.cfg.act = k;
            }
          else if (op == "set_att_ip")
            {
              s.set_density_image_sptr(mut);
              h.cfg.att = k;
              h.cfg.sp = -1;
            }
          else
            {
              s.set_density_image_for_scatter_points_sptr(mut);
              h.cfg.sp = k;
            }
          return "ok";
        }
      if (op == "set_act")
        {
          s.set_activity_image_sptr(I(1) < 0 ? shared_ptr<Img>() : w.acts[I(1)]);
          h.cfg.act = I(1);
          return "ok";
        }
      if (op == "set_att")
        {
          s.set_density_image_sptr(I(1) < 0 ? shared_ptr<Img>() : w.atts[I(1)]);
          h.cfg.att = I(1);
          h.cfg.sp = -1;
          return "ok";
        }
      if (op == "set_spimg")
        {
          s.set_density_image_for_scatter_points_sptr(I(1) < 0 ? shared_ptr<Img>() : w.spimgs[I(1)]);
          h.cfg.sp = I(1);
          return "ok";
        }
      if (op == "set_exam")
        {
          s.set_exam_info(*w.exams[I(1)]);
          h.cfg.exam = I(1);
          return "ok";
        }
      if (op == "set_exam_sptr")
        {
          s.set_exam_info_sptr(w.exams[I(1)]);
          h.cfg.exam = I(1);
          return "ok";
        }
      // by file name: the pool entries k / e are what the file contains
      if (op == "set_tmpl_file")
        {
          const FileTmpl* ft = nullptr;
          for (const FileTmpl& f : w.ftmpls)
            if (f.k_pool == I(1) && f.e_pool == I(2))
              ft = &f;
          if (!ft)
            return "bad-op";
          s.set_template_proj_data_info(ft->file);
          h.cfg.tmpl = ft->k_pool;
          h.cfg.exam = ft->e_pool;
          h.cfg.ds_calls.clear();
          return "ok";
        }
      if (op == "set_act_file")
        {
          s.set_activity_image(w.act_files[I(1)]);
          h.cfg.act = I(1);
          return "ok";
        }
      if (op == "set_att_file")
        {
          s.set_density_image(w.att_files[I(1)]);
          h.cfg.att = I(1);
          h.cfg.sp = -1;
          return "ok";
        }
      if (op == "set_spimg_file")
        {
          s.set_density_image_for_scatter_points(w.sp_files[I(1)]);
          h.cfg.sp = I(1);
          return "ok";
        }
      if (op == "set_rnd")
        {
          s.set_randomly_place_scatter_points(I(1) != 0);
          h.cfg.rnd = I(1) != 0;
          return "ok";
        }
      // the parsed keyword: parse() of a parameter file that only has `use cache := b` (the parser writes the member; the
      // file-name members of this object are empty — the generator never mixes this with the setters by file name — so
      // post_processing() does nothing)
      if (op == "parse_use_cache")
        {
          if (!s.parse(w.par_cache[I(1) != 0 ? 1 : 0].c_str()))
            return "err";
          h.cfg.use_cache = I(1) != 0;
          return "ok";
        }
      if (op == "set_zoom")
        {
          const Zoom& z = w.zooms[I(1)];
          s.set_image_downsample_factors(z.zxy, z.zz, z.sxy, z.sz);
          h.cfg.zoom = I(1);
          return "ok";
        }
      if (op == "set_thr")
        {
          s.set_attenuation_threshold(w.thrs[I(1)]);
          h.cfg.thr = I(1);
          return "ok";
        }
      if (op == "set_use_cache")
        {
          s.set_use_cache(I(1) != 0);
          h.cfg.use_cache = I(1) != 0;
          return "ok";
        }
      if (op == "set_cache_enabled")
        {
          s.set_cache_enabled(I(1) != 0);
          h.cfg.use_cache = I(1) != 0;
          return "ok";
        }
      if (op == "set_ds")
        {
          s.set_downsample_scanner_bool(I(1) != 0);
          s.set_num_downsample_scanner_rings(I(2));
          s.set_num_downsample_scanner_dets(I(3));
          h.cfg.ds = I(1) != 0;
          h.cfg.ds_rings = I(2);
          h.cfg.ds_dets = I(3);
          return "ok";
        }
      if (op == "set_up")
        return s.set_up() == Succeeded::yes ? "ok" : "err";
      if (op == "nsp")
        return num(s.get_num_scatter_points());
      if (op == "tmplinfo")
        {
          if (!s.has_template_proj_data_info())
            return "none";
          shared_ptr<const ProjDataInfo> p = s.get_template_proj_data_info_sptr();
          return num(p->get_scanner_ptr()->get_num_detectors_per_ring()) + " " + num(p->get_scanner_ptr()->get_num_rings()) + " "
                 + num(p->get_num_tangential_poss()) + " " + num(p->get_num_views()) + " " + num(p->get_num_segments());
        }
    }
  catch (...)
    {
      return "err";
    }
  return "bad-op";
}

// process_data on the history object and comparison with a freshly configured object.
// Runs first in a forked child: an invalid memory access must not take the harness down.
static string
process_verdict(Hist& h, bool in_child)
{
  std::vector<float> v, f;
  try
    {
      if (!run_process(*h.sim, v, h.out_mode))
        return "err";
    }
  catch (...)
    {
      return "err";
    }
  if (!in_child)
    return "ok";
  if (!fresh_result(*h.w, h.cfg, f))
    return "ok nofresh";
  if (!bitwise_equal(v, f))
    return "ok stale";
  if (h.check_flipped)
    {
      // "the same with the line-integral cache enabled or disabled": a fresh object with the opposite setting
      Config c2 = h.cfg;
      c2.use_cache = !c2.use_cache;
      std::vector<float> f2;
      if (!fresh_result(*h.w, c2, f2))
        return "ok nofresh";
      if (!bitwise_equal(v, f2))
        return "ok stale";
    }
  // an all-zero estimate (zero activity, or nothing within the energy window) cannot show staleness:
  // reported separately so that the comparison with the model accepts either prediction
  for (float x : v)
    if (x != 0.F)
      return "ok fresh";
  return "ok zero";
}

static string
hist_process(Hist& h)
{
  std::fflush(g_ops);
  std::fflush(g_out);
  std::fflush(g_orc);
  std::fflush(stdout);
  std::fflush(stderr);
  int fd[2];
  if (pipe(fd) != 0)
    return "harness-error";
  const pid_t pid = fork();
  if (pid == 0)
    {
      close(fd[0]);
      const string v = process_verdict(h, true);
      ssize_t ignored = write(fd[1], v.c_str(), v.size());
      (void)ignored;
      close(fd[1]);
      _exit(0);
    }
  close(fd[1]);
  string verdict;
  char buf[64];
  ssize_t n;
  while ((n = read(fd[0], buf, sizeof buf)) > 0)
    verdict.append(buf, buf + n);
  close(fd[0]);
  int st = 0;
  waitpid(pid, &st, 0);
  if (!WIFEXITED(st) || WEXITSTATUS(st) != 0 || verdict.empty())
    {
      h.dead = true;
      return "crash";
    }
  // the child survived: do it for real so that the object's state advances
  const string again = process_verdict(h, false);
  if (again.substr(0, 2) != verdict.substr(0, 2))
    return "nondeterministic";
  return verdict;
}

// run one history; `key` empty: any stale/crash/nofresh result is an ORACLE-FAIL; otherwise KNOWN-CANDIDATE key
// kind: `clean` (guard opOk, oracle strict), `clean2` (weaker guard of runGuarded2, oracle strict), `strict` (no guard, oracle
// strict), `dirty` (no guard; a stale / crashing result is a KNOWN-CANDIDATE if a key is given, else only compared with the model)
static void
run_history(const World& w, const std::vector<string>& lines, const string& kind, const string& key, const string& what, bool rnd = false,
            int out_mode = 0, bool check_flipped = false)
{
  emit("cfg hist " + kind + " world=" + num(w.id) + (key.empty() ? "" : " " + key) + (rnd ? " random-placement" : "")
           + (out_mode ? " out-mode=" + num(out_mode) : "") + (check_flipped ? " cache-flipped-oracle" : ""),
       "ok");
  Hist h;
  hist_new(h, w, rnd);
  h.out_mode = out_mode;
  h.check_flipped = check_flipped;
  const bool strict = kind == "clean" || kind == "clean2" || kind == "strict";
  string trace = string("new; set_rnd ") + (rnd ? "1" : "0");
  bool set_up_succeeded_last = false; // set_up() returned Succeeded::yes and nothing was set since
  for (const string& line : lines)
    {
      trace += "; " + line;
      if (h.dead)
        {
          emit(line, "dead");
          continue;
        }
      const std::vector<string> t = vh::split(line);
      string ans;
      if (t[0] == "process")
        {
          ans = hist_process(h);
          const bool bad = ans == "ok stale" || ans == "crash" || ans == "ok nofresh" || ans == "nondeterministic"
                           || (ans == "err" && set_up_succeeded_last);
          if (strict || key.empty())
            {
              if (strict)
                oracle(!bad, "world=" + num(w.id) + (rnd ? " (random placement, clock pinned)" : "") + " history [" + trace + "]: process_data gives `" + ans
                                 + "` instead of the result of a freshly configured simulation");
              else
                ++g_checks;
            }
          else if (bad)
            known_candidate(key, what + " — history [" + trace + "] gives `" + ans + "` (world " + num(w.id) + ")");
          else
            ++g_checks;
        }
      else
        {
          ans = hist_apply(h, t);
          if (t[0] == "set_up")
            set_up_succeeded_last = ans == "ok";
          else if (t[0] != "nsp" && t[0] != "tmplinfo" && t[0] != "zoommem")
            set_up_succeeded_last = false;
          if (ans == "bad-op")
            oracle(false, "harness generated an operation it cannot execute: " + line);
        }
      emit(line, ans);
    }
}

static std::vector<string>
base_config(int act, int att, int sp, int tmpl, int exam, int thr, int zoom, bool ip = false)
{
  std::vector<string> l;
  l.push_back("set_thr " + num(thr));
  l.push_back("set_tmpl " + num(tmpl));
  l.push_back("set_exam " + num(exam));
  l.push_back((ip ? "set_act_ip " : "set_act ") + num(act));
  l.push_back((ip ? "set_att_ip " : "set_att ") + num(att));
  if (zoom >= 0)
    l.push_back("set_zoom " + num(zoom));
  if (sp >= 0)
    l.push_back((ip ? "set_spimg_ip " : "set_spimg ") + num(sp));
  return l;
}

static void
append(std::vector<string>& a, std::initializer_list<const char*> b)
{
  for (const char* x : b)
    a.push_back(x);
}

static void
targeted_histories(const World& w)
{
  // --- clean: one history per setter; each must give the fresh result after the change
  struct T
  {
    const char* name;
    std::vector<const char*> change;
  };
  const std::vector<T> changes = {
    { "activity image", { "set_act 1" } },
    { "activity image (sparse)", { "set_act 2" } },
    { "attenuation image (scatter points re-derived by set_up)", { "set_att 1" } },
    { "attenuation image, then the same scatter-point image again", { "set_att 1", "set_spimg 0" } },
    { "scatter-point image of another size", { "set_spimg 2" } },
    { "template of the same size", { "set_tmpl 1" } },
    { "template of another size", { "set_tmpl 2" } },
    { "template, then energy window", { "set_tmpl 0", "set_exam 1" } },
    { "template, then energy window (other)", { "set_tmpl 1", "set_exam 2" } },
    { "attenuation image, then threshold", { "set_att 0", "set_thr 1" } },
    { "attenuation image, then threshold, then scatter-point image", { "set_att 0", "set_thr 1", "set_spimg 1" } },
    { "attenuation image, then zoom", { "set_att 1", "set_zoom 1" } },
    { "cache off", { "set_use_cache 0" } },
    { "cache off via set_cache_enabled", { "set_cache_enabled 0" } },
    { "activity image, cache off, set_up, activity, cache on", { "set_act 1", "set_use_cache 0", "set_up", "process", "set_act 3", "set_use_cache 1" } },
  };
  for (const T& c : changes)
    {
      std::vector<string> l = base_config(0, 0, 0, 0, 0, 0, 0);
      append(l, { "nsp", "tmplinfo", "set_up", "process" });
      for (const char* x : c.change)
        l.push_back(x);
      append(l, { "process", "set_up", "nsp", "tmplinfo", "process", "process" });
      run_history(w, l, "clean", "", "");
    }
  // --- the same changes, other starting points: scatter points derived from the attenuation image (mirrored image 2:
  //     same number of scatter points at other places), BlocksOnCylindrical templates (3 and 4 have the same sizes, so
  //     the caches keep their size), random placement of the scatter points
  {
    struct V
    {
      int sp, tmpl;
      bool rnd;
      std::vector<const char*> change;
    };
    const std::vector<V> variants = {
      { -1, 0, false, { "set_att 2" } },
      { -1, 0, false, { "set_att 2", "set_thr 1" } },
      { -1, 1, false, { "set_act 1", "set_att 2" } },
      { -1, 3, false, { "set_att 2" } },
      { 0, 0, false, { "set_spimg 1" } },
      { 0, 0, false, { "set_act 2", "set_spimg 1" } },
      { 1, 3, false, { "set_spimg 0" } },
      { 0, 3, false, { "set_act 1" } },
      { 0, 3, false, { "set_tmpl 4" } },
      { 0, 3, false, { "set_tmpl 4", "set_exam 1" } },
      { 0, 4, false, { "set_tmpl 0" } },
      { 0, 0, false, { "set_tmpl 3" } },
      { 0, 3, false, { "set_att 1" } },
      { 0, 3, false, { "set_use_cache 0" } },
      { 0, 0, true, { "set_act 1" } },
      { 0, 0, true, { "set_spimg 1" } },
      { -1, 0, true, { "set_att 2" } },
      { 0, 3, true, { "set_tmpl 4" } },
      { 0, 0, true, { "set_use_cache 0" } },
    };
    for (const V& v : variants)
      {
        std::vector<string> l = base_config(0, 0, v.sp, v.tmpl, 0, 0, 0);
        append(l, { "nsp", "tmplinfo", "set_up", "process" });
        for (const char* x : v.change)
          l.push_back(x);
        append(l, { "process", "set_up", "nsp", "tmplinfo", "process", "process" });
        run_history(w, l, "clean", "", "", v.rnd);
      }
  }
  // --- an image is overwritten IN PLACE by its owner and the SAME shared_ptr is handed to the setter again
  //     (ScatterEstimation::process_data does this with the activity image in every iteration)
  {
    struct P
    {
      std::vector<const char*> pre;
      int sp, tmpl;
      bool rnd;
      std::vector<const char*> steps;
    };
    const std::vector<P> ips = {
      { {}, 0, 0, false, { "set_act_ip 1", "set_up", "process", "set_act_ip 4", "set_up", "process", "set_act_ip 2", "set_up", "process" } },
      { { "set_use_cache 0" }, 0, 0, false, { "set_act_ip 1", "set_up", "process", "set_act_ip 4", "set_up", "process", "set_act_ip 2", "set_up", "process" } },
      { {}, 1, 3, false, { "set_act_ip 3", "set_up", "process", "set_act_ip 4", "set_up", "process", "set_act_ip 0", "set_up", "process" } },
      { {}, 0, 0, true, { "set_act_ip 1", "set_up", "process", "set_act_ip 4", "set_up", "process", "set_act_ip 0", "set_up", "process" } },
      { {}, -1, 0, false, { "set_att_ip 1", "set_up", "nsp", "process", "set_att_ip 2", "set_up", "nsp", "process", "set_att_ip 0", "set_up", "process" } },
      { {}, -1, 4, false, { "set_att_ip 2", "set_up", "nsp", "process", "set_att_ip 1", "set_up", "process" } },
      { {}, 0, 0, false, { "set_att_ip 1", "set_spimg_ip 0", "set_up", "process", "set_att_ip 0", "set_spimg_ip 1", "set_up", "process" } },
      { {}, 0, 0, false, { "set_spimg_ip 1", "nsp", "set_up", "process", "set_spimg_ip 2", "nsp", "set_up", "process", "set_spimg_ip 0", "set_up", "process" } },
      { {}, 0, 3, false, { "set_spimg_ip 1", "set_up", "process", "set_spimg_ip 0", "set_up", "process" } },
      { {}, 0, 0, true, { "set_spimg_ip 1", "set_up", "process", "set_spimg_ip 0", "set_up", "process" } },
      { {}, 1, 1, false, { "set_act_ip 3", "process", "set_att_ip 1", "set_spimg_ip 1", "set_act_ip 1", "set_up", "process" } },
      // the pool pointer first, then the owner's own object, then the pool pointer again
      { {}, 0, 2, false, { "set_act 1", "set_up", "process", "set_act_ip 2", "set_up", "process", "set_act 1", "set_up", "process" } },
    };
    for (const P& v : ips)
      {
        std::vector<string> l;
        for (const char* x : v.pre)
          l.push_back(x);
        for (const string& x : base_config(0, 0, v.sp, v.tmpl, 0, 0, 0, true))
          l.push_back(x);
        append(l, { "set_up", "nsp", "process" });
        for (const char* x : v.steps)
          l.push_back(x);
        run_history(w, l, "clean", "", "", v.rnd);
      }
  }
  // --- explicit downsample_density_image_for_scatter_points: replaces a given scatter-point image by the derived one
  {
    std::vector<string> l = base_config(0, 0, 0, 0, 0, 0, 0);
    append(l, { "set_up", "nsp", "process", "ds_sp", "nsp", "process", "set_up", "process", "set_att_ip 2", "set_zoom 1", "ds_sp", "nsp", "set_up",
                "process", "set_spimg 1", "set_up", "process", "ds_sp", "set_act 1", "set_up", "process" });
    run_history(w, l, "clean", "", "");
  }
  // --- explicit downsample_scanner(rings, dets) calls: the down-sampled template is what a fresh object is given
  for (int tk : { 0, 3 })
    {
      const TmplDims& d = w.dims[tk];
      const int d1 = d.blocks ? d.dets : std::max(6, d.dets - 2);
      const int d2 = d.blocks ? d.buckets * 2 : std::max(6, d1 - 2);
      std::vector<string> l = base_config(0, 0, 0, tk, 0, 0, 0);
      l.push_back("ds_scanner 2 " + num(d1));
      append(l, { "tmplinfo", "set_up", "process", "set_act 1", "set_up", "process", "set_spimg 1", "set_up", "process" });
      l.push_back("ds_scanner 3 " + num(d2));
      append(l, { "tmplinfo", "process", "set_exam 1", "set_up", "process", "set_act_ip 2", "set_up", "process", "set_tmpl 1", "tmplinfo", "set_up",
                  "process" });
      run_history(w, l, "clean", "", "");
    }
  // the history the design document suspected (scatter-point image of the same size, different voxels):
  // sample_scatter_points() removes both caches, so it must be clean
  {
    std::vector<string> l = base_config(0, 0, 0, 0, 0, 0, 0);
    append(l, { "set_up", "process", "set_spimg 1", "nsp", "set_up", "process" });
    run_history(w, l, "dirty", "scatter-cache:density-image-setter-keeps-activity-cache",
                "set_density_image_for_scatter_points_sptr with an image of the same number of scatter points keeps stale cached integrals");
  }
  // error branches
  {
    std::vector<string> l;
    append(l, { "set_up", "process", "set_act -1", "set_att -1", "set_spimg -1", "set_tmpl 0", "set_up", "set_exam 0", "set_up", "set_act 0",
                "set_up", "set_att 0", "set_zoom 0", "nsp", "set_up", "nsp", "process", "set_act 5", "set_up", "process", "set_act 0", "set_up",
                "process" });
    run_history(w, l, "clean", "", "");
  }
  // --- known departures of the unchanged code (each replayed; see lean/StirVerif/C16/Props.lean for the witnesses)
  {
    std::vector<string> l = base_config(0, 0, 0, 0, 0, 0, 0);
    append(l, { "set_up", "process", "set_exam 1", "set_up", "process", "set_exam 2", "set_up", "process" });
    run_history(w, l, "dirty", "scatter-cache:exam-info-setter-keeps-detection-efficiency-no-scatter",
                "set_exam_info after a computation does not reset detector_efficiency_no_scatter (only set_template_proj_data_info does): "
                "the next estimate is normalised with the 511 keV efficiency of the OLD energy window");
  }
  {
    std::vector<string> l;
    append(l, { "set_use_cache 0" });
    for (const string& x : base_config(0, 0, 0, 0, 0, 0, 0))
      l.push_back(x);
    append(l, { "set_up", "process", "set_use_cache 1", "process" });
    run_history(w, l, "dirty", "scatter-cache:enabling-cache-after-set-up-reads-unallocated-cache",
                "set_use_cache(true) / set_cache_enabled(true) after set_up() ran with the cache disabled neither allocates the cache arrays nor "
                "resets _already_set_up: process_data indexes an empty Array (invalid memory access)");
  }
  {
    std::vector<string> l;
    append(l, { "set_cache_enabled 0" });
    for (const string& x : base_config(1, 1, 1, 1, 1, 0, 0))
      l.push_back(x);
    append(l, { "set_up", "process", "set_cache_enabled 1", "process" });
    run_history(w, l, "dirty", "scatter-cache:enabling-cache-after-set-up-reads-unallocated-cache",
                "set_use_cache(true) / set_cache_enabled(true) after set_up() ran with the cache disabled neither allocates the cache arrays nor "
                "resets _already_set_up: process_data indexes an empty Array (invalid memory access)");
  }
  for (int tk : { 0, 3 })
  {
    const TmplDims& d = w.dims[tk];
    std::vector<string> l = base_config(0, 0, 0, tk, 0, 0, 0);
    l.push_back("set_ds 1 " + num(std::max(2, d.rings)) + " " + num(d.dets - 2));
    append(l, { "set_up", "tmplinfo", "process", "set_act 1", "set_up", "tmplinfo", "process" });
    run_history(w, l, "dirty", "scatter-setup:downsample-scanner-flag-makes-set-up-non-idempotent",
                "with downsample_scanner_bool every set_up() down-samples the already down-sampled template again "
                "(one more tangential position each time): after set_activity_image_sptr + set_up the output has a different size than that of a fresh object");
  }
  // every setter that must force a new set_up: process_data directly afterwards has to refuse
  {
    std::vector<string> l = base_config(0, 0, 0, 0, 0, 0, 0);
    append(l, { "set_up", "process", "set_exam 1", "process", "set_up", "set_thr 0", "process", "set_up", "set_zoom 0", "process", "set_up",
                "set_spimg 0", "process", "set_up", "set_tmpl 0", "process", "set_up", "set_att 0", "process", "set_up", "set_act 0", "process",
                "set_up", "set_ds 0 2 8", "process", "set_up", "process" });
    run_history(w, l, "dirty", "", "");
  }
  // order dependences outside the property's list of changes (threshold / zoom factors): recorded, not counted
  {
    std::vector<string> l = base_config(0, 0, 0, 0, 0, 0, 0);
    append(l, { "set_thr 1", "nsp", "set_up", "nsp", "process" });
    run_history(w, l, "dirty", "", "");
  }
  {
    std::vector<string> l = base_config(0, 0, -1, 0, 0, 0, 0);
    append(l, { "set_up", "nsp", "process", "set_zoom 1", "set_up", "nsp", "process" });
    run_history(w, l, "dirty", "", "");
  }
}

// ------------------------------------------------------------------------------------------------ round 3: forced histories
// THE OLDER SWITCH set_cache_enabled(bool) (and the parsed keyword `use cache`): flips `use_cache` without clearing or
// allocating the arrays. Three steps: (1) compute with the cache on; (2) switch off, change an input image (the arrays
// survive the switch; the setter has to remove its array although the cache is off), [set_up, compute without cache];
// (3) switch on, set_up (keeps arrays of the right size), compute: must be the result for the NEW image.
// Every result: == fresh object with the same settings, == fresh object with the opposite cache setting, == Lean model.
static void
three_step_histories(const World& w, vh::Rng& rng)
{
  struct C
  {
    const char* what;
    int sp;  // scatter-point image of the base configuration (-1: derived from the attenuation image)
    bool ip; // base configuration through the owner's objects (so that an in-place change is possible)
    std::vector<const char*> change;
  };
  const std::vector<C> changes = {
    // activity image
    { "activity: new object", 0, false, { "set_act 1" } },
    { "activity: in place + same pointer", 0, true, { "set_act_ip 1" } },
    { "activity: by file name", 0, false, { "set_act_file 2" } },
    // attenuation image; the scatter points keep their number (image 2 mirrors image 0 / the same scatter-point image again),
    // so the arrays keep their size
    { "attenuation: new object, derived scatter points", -1, false, { "set_att 2" } },
    { "attenuation: in place + same pointer, derived scatter points", -1, true, { "set_att_ip 2" } },
    { "attenuation: by file name, derived scatter points", -1, false, { "set_att_file 2" } },
    { "attenuation: new object, the same scatter-point image again", 0, false, { "set_att 1", "set_spimg 0" } },
    { "attenuation: in place, the same scatter-point image again in place", 0, true, { "set_att_ip 1", "set_spimg_ip 0" } },
    // both
    { "activity and attenuation", -1, true, { "set_act_ip 3", "set_att_ip 2" } },
  };
  int n = 0;
  for (const C& c : changes)
    for (int mid = 0; mid < 2; ++mid, ++n)
      {
        // the switch: the setter, or the parsed keyword (not together with a setter by file name: a later parse() would read
        // the files again)
        bool files = false;
        for (const char* x : c.change)
          if (std::strstr(x, "_file"))
            files = true;
        const bool kw = !files && (n + w.id) % 3 == 0;
        const string off = kw ? "parse_use_cache 0" : "set_cache_enabled 0";
        const string on = kw ? "parse_use_cache 1" : "set_cache_enabled 1";
        const int tmpl = (n % 4 == 3) ? 3 : (n % 4 == 1 ? 1 : 0); // cylindrical / BlocksOnCylindrical
        std::vector<string> l = base_config(0, 0, c.sp, tmpl, rng.range(0, 2), 0, 0, c.ip);
        append(l, { "set_up", "nsp", "process" });
        l.push_back(off);
        for (const char* x : c.change)
          l.push_back(x);
        if (mid)
          append(l, { "set_up", "nsp", "process" }); // (2'): the uncached result has to be right, too
        l.push_back(on);
        append(l, { "set_up", "nsp", "process", "process" });
        // once more, the other way round: switch off, first image again, switch on
        const bool reverse = (n / 2) % 2 == 0;
        if (reverse)
          {
            l.push_back(off);
            const bool is_act = std::strncmp(c.change[0], "set_act", 7) == 0;
            l.push_back(c.ip ? (is_act ? "set_act_ip 0" : "set_att_ip 0") : (is_act ? "set_act 0" : "set_att 0"));
            if (!is_act && c.sp >= 0)
              l.push_back(c.ip ? "set_spimg_ip 0" : "set_spimg 0");
            append(l, { "set_up", "process" });
            l.push_back(on);
            append(l, { "set_up", "process" });
          }
        // (without a set_up while the cache is off the history also satisfies the stronger guard `opOk`)
        run_history(w, l, mid || reverse ? "clean2" : "clean", "", "", /*rnd*/ n % 5 == 4, /*out_mode*/ n % 3, /*check_flipped*/ true);
      }
  // the switch while NOTHING changes: off, compute, on, set_up, compute (the arrays survive and are still right)
  {
    std::vector<string> l = base_config(1, 1, 1, 0, 1, 0, 0);
    append(l, { "set_up", "process", "set_cache_enabled 0", "process", "set_cache_enabled 1", "set_up", "process", "parse_use_cache 0", "set_up", "process",
                "parse_use_cache 1", "set_up", "process" });
    run_history(w, l, "clean2", "", "", false, 1, true);
  }
  // … and WITHOUT set_up after switching on again: set_cache_enabled leaves the arrays alone, so they are still there and still
  // right (this is what distinguishes it from set_use_cache, which clears them: the same history with set_use_cache is the
  // known class `enabling-cache-after-set-up-reads-unallocated-cache`). Outside both guards of the Lean theorems (they
  // exclude enabling on a set-up object without set_up): kind `strict` = oracle strict, state machine compared unguarded.
  {
    std::vector<string> l = base_config(0, 1, 0, 1, 2, 0, 0);
    append(l, { "set_up", "process", "set_cache_enabled 0", "process", "set_cache_enabled 1", "process", "parse_use_cache 0", "process", "parse_use_cache 1",
                "process", "set_act 1", "set_up", "process", "set_cache_enabled 0", "set_cache_enabled 1", "process" });
    run_history(w, l, "strict", "", "", false, 0, true);
  }
  // template of the same sizes / scatter-point image with the same number of points while the cache is off
  {
    std::vector<string> l = base_config(0, 0, 0, 0, 0, 0, 0);
    append(l, { "set_up", "process", "set_cache_enabled 0", "set_tmpl 1", "set_up", "process", "set_cache_enabled 1", "set_up", "process",
                "set_cache_enabled 0", "set_spimg 1", "set_up", "process", "set_cache_enabled 1", "set_up", "process" });
    run_history(w, l, "clean2", "", "", false, 2, true);
  }
  // set_use_cache for comparison (clears the arrays before it changes the flag)
  {
    std::vector<string> l = base_config(0, 0, -1, 0, 0, 0, 0);
    append(l, { "set_up", "process", "set_use_cache 0", "set_act 1", "set_att 2", "set_up", "process", "set_use_cache 1", "set_up", "process" });
    run_history(w, l, "clean2", "", "", false, 0, true);
  }
}

// the other public entry points that change the result: by file name, set_exam_info_sptr, set_randomly_place_scatter_points
static void
entry_point_histories(const World& w, vh::Rng& rng)
{
  const FileTmpl& f0 = w.ftmpls[0];
  const FileTmpl& f1 = w.ftmpls[1];
  const FileTmpl& f2 = w.ftmpls[2];
  const FileTmpl& f3 = w.ftmpls[3];
  auto tf = [](const FileTmpl& f) { return "set_tmpl_file " + num(f.k_pool) + " " + num(f.e_pool); };
  // everything by file name, then changes by file name after a computation
  {
    std::vector<string> l;
    append(l, { "set_thr 0" });
    l.push_back(tf(f0));
    append(l, { "tmplinfo", "set_act_file 0", "set_att_file 0", "set_zoom 0", "set_spimg_file 0", "nsp", "set_up", "process", "set_act_file 1", "set_up",
                "process", "set_att_file 1", "set_up", "nsp", "process", "set_spimg_file 1", "nsp", "set_up", "process" });
    l.push_back(tf(f1)); // same sizes, other radius / energy resolution AND other energy window (exam info of the file)
    append(l, { "tmplinfo", "set_up", "process" });
    l.push_back(tf(f2)); // other sizes
    append(l, { "tmplinfo", "set_up", "process", "set_act 2", "set_up", "process" });
    l.push_back(tf(f3)); // 2-3 rings, coarse default bin size
    append(l, { "tmplinfo", "set_up", "process", "set_att_file 2", "set_up", "process" });
    run_history(w, l, "clean", "", "", false, 1, true);
  }
  // by file name after by object and back; the file's exam info replaces the one set before (and the efficiency cached
  // for it: set_template_proj_data_info(filename) calls set_exam_info BEFORE the template setter resets it)
  {
    std::vector<string> l = base_config(0, 0, 0, 0, 1, 0, 0);
    append(l, { "set_up", "process" });
    l.push_back(tf(f1));
    append(l, { "set_up", "process", "set_tmpl 0", "set_exam_sptr 2", "set_up", "process" });
    l.push_back(tf(f0));
    append(l, { "set_up", "process", "set_act_file 3", "set_spimg_file 0", "set_up", "process", "set_act_ip 1", "set_up", "process" });
    run_history(w, l, "clean", "", "", false, 2, false);
  }
  // set_exam_info_sptr where the clean histories use set_exam_info (right after the template)
  {
    std::vector<string> l;
    append(l, { "set_thr 0", "set_tmpl 0", "set_exam_sptr 0", "set_act 0", "set_att 0", "set_zoom 0", "set_spimg 0", "set_up", "process", "set_tmpl 1",
                "set_exam_sptr 1", "set_up", "process", "set_tmpl 3", "set_exam_sptr 2", "set_up", "process" });
    run_history(w, l, "clean", "", "", false, 0, false);
  }
  // … and where set_exam_info is known to leave detector_efficiency_no_scatter alone: the same class of input
  {
    std::vector<string> l = base_config(0, 0, 0, 0, 0, 0, 0);
    append(l, { "set_up", "process", "set_exam_sptr 1", "set_up", "process" });
    run_history(w, l, "dirty", "scatter-cache:exam-info-setter-keeps-detection-efficiency-no-scatter",
                "set_exam_info_sptr (like set_exam_info) after a computation does not reset detector_efficiency_no_scatter: "
                "the next estimate is normalised with the 511 keV efficiency of the OLD energy window");
  }
  // set_randomly_place_scatter_points in mid-history, where the scatter points are sampled afterwards (clock pinned)
  for (int first = 0; first < 2; ++first)
    {
      std::vector<string> l = base_config(0, 0, -1, first ? 3 : 0, 0, 0, 0);
      append(l, { "set_up", "nsp", "process", "set_att 1" });
      l.push_back(first ? "set_rnd 0" : "set_rnd 1");
      append(l, { "set_up", "nsp", "process", "set_act 1", "set_up", "process", "set_att_ip 2" });
      l.push_back(first ? "set_rnd 1" : "set_rnd 0");
      append(l, { "set_spimg 1", "set_up", "process" });
      run_history(w, l, "clean", "", "", first != 0, rng.range(0, 2), false);
    }
  // the value it already has, on an object with a user-supplied scatter-point image: nothing may change
  for (int v = 0; v < 2; ++v)
    {
      std::vector<string> l = base_config(0, 0, 1, v ? 3 : 0, 0, 0, 0);
      append(l, { "set_up", "nsp", "process" });
      l.push_back(v ? "set_rnd 1" : "set_rnd 0");
      append(l, { "nsp", "set_up", "nsp", "process", "set_act 1" });
      l.push_back(v ? "set_rnd 1" : "set_rnd 0");
      append(l, { "set_up", "process" });
      run_history(w, l, "clean", "", "", v != 0, 0, false);
    }
  // … and after they were sampled (a sampling parameter like threshold / zoom, outside the property's list of changes): recorded
  for (int first = 0; first < 2; ++first)
    {
      std::vector<string> l = base_config(0, 0, 0, 0, 0, 0, 0);
      append(l, { "set_up", "process" });
      l.push_back(first ? "set_rnd 0" : "set_rnd 1");
      append(l, { "process", "set_up", "process" });
      run_history(w, l, "dirty", "", "", first != 0);
    }
}

// ------------------------------------------------------------------------------------------------ round 4: automatic zoom
// ONE OBJECT RE-USED WITH ATTENUATION IMAGES OF ANOTHER x/y SIZE (same voxel sizes and planes), the scatter-point image
// derived (a) by set_up with the automatic (-1) factors, (b) by an explicit downsample_density_image_for_scatter_points call
// with the members as arguments, (c) with explicit factors and sizes -1 (zoom set 2), (d) with explicit sizes (zoom sets 0, 1).
// Every process_data == fresh object (bitwise, also with the opposite cache setting), every answer (`nsp`, `zoommem` = the
// stored members zoom_size_xy / zoom_size_z / zoom_xy < 0, ok / err / fresh) == Lean state machine under the guard `opOk`.
static std::vector<string>
auto_base(int act, int att, int tmpl, int exam, int thr = 0)
{
  std::vector<string> l;
  l.push_back("set_thr " + num(thr));
  l.push_back("set_tmpl " + num(tmpl));
  l.push_back("set_exam " + num(exam));
  l.push_back("set_act " + num(act));
  l.push_back("set_att " + num(att));
  return l;
}

static void
auto_zoom_histories(const World& w, vh::Rng& rng, int n_random)
{
  const int AT = w.auto_tmpl;
  const string W = num(w.att_wide);
  // generator check: the automatic scatter-point images of the narrow and the wide attenuation image have different x/y sizes
  {
    int sizes[2];
    int k = 0;
    for (int m : { 0, w.att_wide })
      {
        Config c;
        c.act = 0; c.att = m; c.tmpl = AT; c.exam = 0; c.zoom = -1;
        std::unique_ptr<Sim> p = configure(w, c);
        p->set_up();
        sizes[k++] = dynamic_cast<const Img&>(p->get_attenuation_image_for_scatter_points()).get_x_size();
      }
    oracle(sizes[0] != sizes[1], "world=" + num(w.id) + " automatic scatter-point images of the two attenuation image sizes have the same x size ("
                                     + num(sizes[0]) + ") — generator problem");
  }
  // (a)+(b) automatic factors
  for (int first_wide = 0; first_wide < 2; ++first_wide)
    {
      const string A = first_wide ? W : "0", B = first_wide ? "0" : W;
      std::vector<string> l = auto_base(0, first_wide ? w.att_wide : 0, first_wide ? AT + 1 : AT, first_wide);
      append(l, { "zoommem", "nsp", "set_up", "zoommem", "nsp", "process" });
      l.push_back("set_att " + B);
      append(l, { "set_up", "zoommem", "nsp", "process", "set_att 1", "set_up", "nsp", "process" });
      l.push_back("set_att_file " + B);
      append(l, { "ds_sp", "nsp", "zoommem", "process", "set_up", "process", "set_act 1", "set_up", "process", "set_att_ip 2", "set_up", "nsp", "process" });
      l.push_back("set_att " + A);
      append(l, { "set_thr 1", "ds_sp", "nsp", "set_up", "process", "process" });
      run_history(w, l, "clean", "", "", false, first_wide, true);
    }
  // the explicit call BEFORE any set_up (the factors are computed and stored by the call), cache off, by file name
  {
    std::vector<string> l = auto_base(1, 1, w.auto_tmpls[2], 2);
    l.insert(l.begin(), "set_use_cache 0");
    append(l, { "ds_sp", "zoommem", "nsp", "set_up", "process" });
    l.push_back("set_att " + W);
    append(l, { "ds_sp", "zoommem", "nsp", "set_up", "process", "set_act_file 0", "set_att_file 0", "set_up", "nsp", "process" });
    run_history(w, l, "clean", "", "", false, 2, true);
  }
  // (c) explicit factors, sizes -1 (zoom set 2): the x/y size follows the image, nothing is frozen
  for (int tk : { 0, 3 })
    {
      std::vector<string> l = base_config(0, 0, -1, tk, 0, 0, w.zoom_autosize);
      append(l, { "zoommem", "set_up", "zoommem", "nsp", "process" });
      l.push_back("set_att " + W);
      append(l, { "set_up", "zoommem", "nsp", "process", "set_att 1", "ds_sp", "nsp", "set_up", "process" });
      l.push_back("set_att_file " + W);
      append(l, { "set_act 1", "set_up", "nsp", "process" });
      run_history(w, l, "clean", "", "", false, 0, true);
    }
  // (d) explicit sizes (zoom sets 0 / 1): the wide image is down-sampled to the same number of voxels
  {
    std::vector<string> l = base_config(1, 1, -1, 1, 1, 0, 0);
    append(l, { "set_up", "zoommem", "nsp", "process" });
    l.push_back("set_att " + W);
    append(l, { "set_up", "zoommem", "nsp", "process" });
    l.push_back("set_att " + W);
    append(l, { "set_zoom 1", "set_up", "zoommem", "nsp", "process", "set_att 0", "ds_sp", "nsp", "set_up", "process" });
    run_history(w, l, "clean", "", "", false, 1, true);
  }
  // template changes with the automatic factors: the KNOWN classes `automatic-zoom-…` (emitted by the oracle-only histories):
  // here the Lean state machine has to predict which results are stale
  {
    std::vector<string> l = auto_base(0, 0, AT, 0);
    append(l, { "set_up", "zoommem", "nsp", "process" });
    l.push_back("set_tmpl " + num(AT + 1));
    append(l, { "set_up", "zoommem", "nsp", "process", "set_att 0", "set_up", "zoommem", "nsp", "process" });
    l.push_back("set_att " + W);
    append(l, { "set_up", "nsp", "process" });
    l.push_back("set_tmpl " + num(AT));
    append(l, { "set_up", "process", "set_att 1", "set_up", "nsp", "process", "set_zoom 0", "set_up", "zoommem", "process", "set_att 1", "set_up", "nsp", "process" });
    run_history(w, l, "dirty", "", "");
  }
  // random histories with the automatic factors inside the guard: one template (set again now and then), attenuation images
  // of both sizes by pointer / file / in place, explicit down-sampling calls
  for (int k = 0; k < n_random; ++k)
    {
      const int T = w.auto_tmpls[rng.range(0, 2)];
      std::vector<string> l = auto_base(rng.range(0, 3), rng.range(0, 3), T, rng.range(0, 2), rng.range(0, 1));
      if (rng.coin())
        l.insert(l.begin(), rng.coin() ? "set_use_cache 0" : "set_cache_enabled 0");
      if (rng.range(0, 3) == 0)
        {
          // another template first: nothing is stored before the first call
          l.insert(l.begin(), "set_tmpl " + num(w.auto_tmpls[rng.range(0, 2)]));
        }
      auto att_op = [&]() {
        const int m = rng.range(0, 3);
        const int r = rng.range(0, 3);
        // (the owner's image object has the size of images 0-2)
        return string(r == 0 && m != w.att_wide ? "set_att_ip " : r == 1 ? "set_att_file " : "set_att ") + num(m);
      };
      const int len = 14;
      for (int i = 0; i < len; ++i)
        {
          const int r = rng.range(0, 99);
          if (r < 12)
            l.push_back(string(rng.coin() ? "set_act " : "set_act_file ") + num(rng.range(0, 3)));
          else if (r < 34)
            l.push_back(att_op());
          else if (r < 40)
            {
              l.push_back(att_op());
              l.push_back("set_thr " + num(rng.range(0, 1)));
            }
          else if (r < 46)
            {
              l.push_back("set_tmpl " + num(T));
              if (rng.coin())
                l.push_back("set_exam " + num(rng.range(0, 2)));
            }
          else if (r < 54)
            l.push_back("ds_sp");
          else if (r < 60)
            l.push_back("zoommem");
          else if (r < 66)
            l.push_back("nsp");
          else if (r < 70)
            l.push_back("set_act 5"); // inconsistent z-middle: set_up must refuse
          else if (r < 80)
            l.push_back("set_up");
          else if (r < 85)
            l.push_back("process");
          else
            {
              l.push_back("set_up");
              l.push_back("process");
            }
        }
      l.push_back("set_act " + num(rng.range(0, 3)));
      append(l, { "set_up", "zoommem", "nsp", "process" });
      run_history(w, l, "clean", "", "", false, rng.range(0, 2), rng.range(0, 2) == 0);
    }
}

// random histories within the guard of the Lean theorem (`opOk`): the generator only emits
//   set_exam right after set_tmpl / ds_scanner, set_thr / set_zoom right after set_att, cache enabling right after a
//   setter that resets _already_set_up; never the downsample-scanner flag.
// Setters come in two flavours (pool pointer / owner's object overwritten in place, same pointer); templates are
// cylindrical and BlocksOnCylindrical; explicit downsample_scanner calls keep the template meaningful
// (tangential positions <= detectors - 1).
struct TmplTrack
{
  bool valid = false;
  TmplDims d;
  void set(const World& w, int k)
  {
    valid = true;
    d = w.dims[k];
  }
  // picks (rings, dets) for an explicit downsample_scanner call; false if none is admissible
  bool pick_ds(vh::Rng& rng, int& r, int& nd)
  {
    if (!valid)
      return false;
    r = rng.range(2, 3);
    if (d.blocks)
      nd = d.buckets * rng.range(2, std::max(2, d.dets / d.buckets));
    else
      nd = 2 * rng.range(3, std::max(3, d.dets / 2));
    if (nd % 2 != 0)
      return false;
    const int ntang = (d.ntang * nd + d.dets - 1) / d.dets + 1;
    if (ntang > nd - 1)
      return false;
    d.nseg = d.nseg == 1 ? 1 : 2 * (r - 1) + 1;
    d.ntang = ntang;
    d.dets = nd;
    d.rings = r;
    return true;
  }
};

static void
random_clean_history(const World& w, vh::Rng& rng, int length, bool rnd)
{
  std::vector<string> l;
  TmplTrack tt;
  const int ntm = static_cast<int>(w.tmpls.size());
  // a history either uses the setters by file name or the parsed keyword (a parse() after a setter by file name reads the
  // files again: not what `parse_use_cache` stands for)
  const bool files = rng.coin();
  bool cur_rnd = rnd;
  auto flavour = [&](const char* base, int k) {
    const int r = rng.range(0, files ? 4 : 2);
    // set_act_ip 4 etc.: the owner's object may not exist yet / have another size (zbad): hist_apply copies then
    return string(base) + (r == 0 ? "_ip " : r >= 3 ? "_file " : " ") + num(k);
  };
  auto act_op = [&](int k) { return flavour("set_act", k); };
  auto att_op = [&](int k) { return flavour("set_att", k); };
  auto sp_op = [&](int k) { return flavour("set_spimg", k); };
  auto exam_op = [&](int k) { return string(rng.coin() ? "set_exam " : "set_exam_sptr ") + num(k); };
  auto cache_op = [&](int b) {
    const int r = rng.range(0, files ? 1 : 2);
    return string(r == 0 ? "set_use_cache " : r == 1 ? "set_cache_enabled " : "parse_use_cache ") + num(b);
  };
  l.push_back("set_zoom " + num(rng.range(0, 1)));
  // most histories start from a complete configuration
  if (rng.range(0, 9) < 8)
    {
      const int tk = rng.range(0, ntm - 1);
      for (const string& x : base_config(rng.range(0, 3), rng.range(0, 2), rng.coin() ? rng.range(0, 2) : -1, tk, rng.range(0, 2),
                                         rng.range(0, 1), rng.range(0, 1), rng.range(0, 3) == 0))
        l.push_back(x);
      tt.set(w, tk);
      if (rng.coin())
        l.insert(l.begin(), cache_op(0));
      append(l, { "set_up", "process" });
    }
  for (int k = 0; k < length; ++k)
    {
      const int r = rng.range(0, 109);
      if (r >= 100)
        {
          // round 3: the cache switches around a change, `set_up` right after enabling (weaker guard); by file name; random placement
          if (r < 103)
            {
              l.push_back(cache_op(1));
              l.push_back("set_up");
            }
          else if (r < 105)
            {
              l.push_back(cache_op(0));
              l.push_back(rng.coin() ? act_op(rng.range(0, 3)) : att_op(rng.range(0, 2)));
              if (rng.coin())
                append(l, { "set_up", "process" });
              l.push_back(cache_op(1));
              append(l, { "set_up", "process" });
            }
          else if (r < 107)
            {
              if (files)
                {
                  const FileTmpl& f = w.ftmpls[rng.range(0, static_cast<int>(w.ftmpls.size()) - 1)];
                  l.push_back("set_tmpl_file " + num(f.k_pool) + " " + num(f.e_pool));
                  tt.set(w, f.k_pool);
                }
            }
          else if (r < 109)
            {
              l.push_back(att_op(rng.range(0, 2)));
              cur_rnd = rng.coin();
              l.push_back("set_rnd " + num(cur_rnd ? 1 : 0));
            }
          else
            l.push_back("set_rnd " + num(cur_rnd ? 1 : 0)); // the value it has: nothing may change
        }
      else if (r < 14)
        l.push_back(act_op(rng.range(0, 4)));
      else if (r < 24)
        l.push_back(att_op(rng.range(0, 2)));
      else if (r < 36)
        l.push_back(sp_op(rng.range(0, 2)));
      else if (r < 43)
        {
          const int tk = rng.range(0, ntm - 1);
          l.push_back("set_tmpl " + num(tk));
          tt.set(w, tk);
        }
      else if (r < 50)
        {
          const int tk = rng.range(0, ntm - 1);
          l.push_back("set_tmpl " + num(tk));
          tt.set(w, tk);
          l.push_back(exam_op(rng.range(0, 2)));
        }
      else if (r < 54)
        {
          int nr, nd;
          if (tt.pick_ds(rng, nr, nd))
            {
              l.push_back("ds_scanner " + num(nr) + " " + num(nd));
              if (rng.coin())
                l.push_back(exam_op(rng.range(0, 2)));
            }
        }
      else if (r < 58)
        {
          l.push_back(att_op(rng.range(0, 2)));
          l.push_back("set_thr " + num(rng.range(0, 1)));
          if (rng.coin())
            l.push_back(sp_op(rng.range(0, 2)));
        }
      else if (r < 62)
        {
          l.push_back(att_op(rng.range(0, 2)));
          l.push_back("set_zoom " + num(rng.range(0, 1)));
        }
      else if (r < 66)
        {
          l.push_back(act_op(rng.range(0, 3)));
          l.push_back(cache_op(rng.range(0, 1)));
        }
      else if (r < 69)
        l.push_back(cache_op(0));
      else if (r < 71)
        l.push_back("set_act 5"); // inconsistent z-middle: set_up must refuse
      else if (r < 73)
        l.push_back("set_act -1");
      else if (r < 82)
        l.push_back("set_up");
      else if (r < 84)
        l.push_back("nsp");
      else if (r < 86)
        l.push_back("ds_sp");
      else if (r < 87)
        l.push_back("tmplinfo");
      else if (r < 92)
        l.push_back("process"); // without set_up: must refuse unless nothing was set since the last set_up
      else
        {
          l.push_back("set_up");
          l.push_back("process");
        }
    }
  append(l, { "set_up", "process" });
  run_history(w, l, "clean2", "", "", rnd, rng.range(0, 2), rng.range(0, 3) == 0);
}

// random histories over everything (including the operations the guard excludes): only the correspondence with
// the Lean state machine is checked (it predicts which results are stale / crash)
static void
random_dirty_history(const World& w, vh::Rng& rng, int length)
{
  const int ntm = static_cast<int>(w.tmpls.size());
  // (not the template with 5 % energy resolution: there the windows 0 and 1 both have efficiency 1.0f at 511 keV, so the
  //  stale normalisation the state machine predicts after set_exam_info is invisible; the state machine identifies values by
  //  pool index and assumes different indices give different values)
  auto pick_tmpl = [&]() {
    int k = rng.range(0, ntm - 1);
    while (k == w.tmpl_res05)
      k = rng.range(0, ntm - 1);
    return k;
  };
  std::vector<string> l = base_config(rng.range(0, 1), rng.range(0, 1), rng.coin() ? rng.range(0, 2) : -1, pick_tmpl(), rng.range(0, 2),
                                      rng.range(0, 1), rng.range(0, 1), rng.range(0, 3) == 0);
  append(l, { "set_up", "process" });
  const bool files = rng.coin();
  for (int k = 0; k < length; ++k)
    {
      const int r = rng.range(0, 107);
      if (r >= 100)
        {
          if (r < 102)
            l.push_back("set_rnd " + num(rng.range(0, 1)));
          else if (r < 104)
            l.push_back("set_exam_sptr " + num(rng.range(0, 2)));
          else if (!files)
            l.push_back("parse_use_cache " + num(rng.range(0, 1)));
          else if (r < 106)
            {
              const FileTmpl& f = w.ftmpls[rng.range(0, static_cast<int>(w.ftmpls.size()) - 1)];
              l.push_back("set_tmpl_file " + num(f.k_pool) + " " + num(f.e_pool));
            }
          else
            l.push_back(string(rng.coin() ? "set_act_file " : "set_att_file ") + num(rng.range(0, 1)));
        }
      else if (r < 10)
        l.push_back(string(rng.coin() ? "set_act_ip " : "set_act ") + num(rng.range(0, 1)));
      else if (r < 18)
        l.push_back(string(rng.coin() ? "set_att_ip " : "set_att ") + num(rng.range(0, 2)));
      else if (r < 28)
        l.push_back(string(rng.coin() ? "set_spimg_ip " : "set_spimg ") + num(rng.range(0, 2)));
      else if (r < 36)
        l.push_back("set_tmpl " + num(pick_tmpl()));
      else if (r < 48)
        l.push_back("set_exam " + num(rng.range(0, 2)));
      else if (r < 56)
        l.push_back("set_thr " + num(rng.range(0, 1)));
      else if (r < 62)
        l.push_back("set_zoom " + num(rng.range(0, 1)));
      else if (r < 70)
        l.push_back(string(rng.coin() ? "set_use_cache " : "set_cache_enabled ") + num(rng.range(0, 1)));
      else if (r < 80)
        l.push_back("set_up");
      else if (r < 82)
        l.push_back("nsp");
      else if (r < 84)
        l.push_back("ds_sp");
      else if (r < 90)
        l.push_back("process");
      else
        {
          l.push_back("set_up");
          l.push_back("process");
        }
    }
  append(l, { "set_up", "process" });
  run_history(w, l, "dirty", "", "");
}

// ------------------------------------------------------------------------------------------------ oracle-only histories
// (configurations the Lean state machine does not model: automatic zoom of the scatter-point image,
//  downsample_images_to_scanner_size): the property's statement, evaluated on the implementation
static string
compare_with_fresh(Sim& s, const World& w, const Config& c)
{
  std::vector<float> v, f;
  try
    {
      if (!run_process(s, v))
        return "err";
    }
  catch (...)
    {
      return "err";
    }
  if (!fresh_result(w, c, f))
    return "ok nofresh";
  if (!bitwise_equal(v, f))
    return "ok stale";
  for (float x : v)
    if (x != 0.F)
      return "ok fresh";
  return "ok zero";
}

static string
try_set_up(Sim& s)
{
  try
    {
      return s.set_up() == Succeeded::yes ? "ok" : "err";
    }
  catch (...)
    {
      return "err";
    }
}

static void
oracle_only_histories(const World& w)
{
  emit("cfg oracle-only automatic-zoom world=" + num(w.id), "ok");
  const string ctx = "world=" + num(w.id) + " automatic zoom/size (-1) of the scatter-point image: ";
  {
    Config c;
    c.act = 0; c.att = 0; c.sp = -1; c.tmpl = w.auto_tmpl; c.exam = 0; c.thr = 0; c.zoom = -1;
    std::unique_ptr<Sim> o = configure(w, c);
    string su = try_set_up(*o), v = compare_with_fresh(*o, w, c);
    oracle(su == "ok" && v == "ok fresh", ctx + "[configure; set_up; process] gives `" + su + " / " + v + "`");
    const int nsp0 = o->get_num_scatter_points();
    oracle(nsp0 > 0, ctx + "no scatter points — generator problem");
    c.act = 1;
    o->set_activity_image_sptr(w.acts[1]);
    su = try_set_up(*o), v = compare_with_fresh(*o, w, c);
    oracle(su == "ok" && v == "ok fresh", ctx + "[...; set_activity_image_sptr; set_up; process] gives `" + su + " / " + v + "` instead of the fresh result");
    for (int m : { 1, 2 })
      {
        c.att = m;
        o->set_density_image_sptr(w.atts[m]);
        su = try_set_up(*o), v = compare_with_fresh(*o, w, c);
        oracle(su == "ok" && v == "ok fresh",
               ctx + "[...; set_density_image_sptr(" + num(m) + "); set_up; process] gives `" + su + " / " + v + "` instead of the fresh result");
      }
    // another template (other default bin size => a fresh object derives another scatter-point image)
    c.tmpl = w.auto_tmpl + 1;
    o->set_template_proj_data_info(*w.tmpls[c.tmpl]);
    su = try_set_up(*o), v = compare_with_fresh(*o, w, c);
    if (su == "ok" && (v == "ok fresh" || v == "ok zero"))
      ++g_checks;
    else
      known_candidate("scatter-setup:automatic-zoom-scatter-point-image-kept-after-template-change",
                      "with the default (-1) zoom factors the scatter-point image is derived from the attenuation image AND the template "
                      "(voxel size of the template's default image); set_template_proj_data_info keeps the image derived for the old template — "
                      "history [configure zoom=-1; set_up; process; set_template_proj_data_info(other default bin size); set_up; process] gives `"
                          + su + " / " + v + "` (world " + num(w.id) + ")");
    // ... and the attenuation image again: re-derived, but with the factors computed for the first template
    o->set_density_image_sptr(w.atts[c.att]);
    su = try_set_up(*o), v = compare_with_fresh(*o, w, c);
    if (su == "ok" && (v == "ok fresh" || v == "ok zero"))
      ++g_checks;
    else
      known_candidate("scatter-setup:automatic-zoom-factors-frozen-by-first-set-up",
                      "downsample_density_image_for_scatter_points(-1,-1,-1,-1) stores the factors it computed in zoom_xy/zoom_z/zoom_size_z "
                      "(set_image_downsample_factors), so they are no longer automatic: after a template change the scatter-point image is "
                      "re-derived with the factors of the FIRST template — history [configure zoom=-1; set_up; process; set_template_proj_data_info("
                      "other default bin size); set_density_image_sptr; set_up; process] gives `"
                          + su + " / " + v + "` (world " + num(w.id) + ")");
  }
  emit("cfg oracle-only downsample-images world=" + num(w.id), "ok");
  {
    const string ctx2 = "world=" + num(w.id) + " downsample_images_to_scanner_size: ";
    Config c;
    c.sp = -1; c.tmpl = w.auto_tmpl; c.exam = 0; c.thr = 0; c.grid = true;
    // (explicit zoom factors, images on the scanner's z-grid: the automatic factors would be frozen by the first set_up,
    //  which is the class `automatic-zoom-factors-frozen-by-first-set-up`)
    // on a configured object before the first set_up: the same as a fresh object (trivially the same call sequence)
    // after a computation: the activity and attenuation images are replaced; a fresh object derives the scatter points
    // from the down-sampled attenuation image
    std::unique_ptr<Sim> o = configure(w, c);
    string su = try_set_up(*o), v = compare_with_fresh(*o, w, c);
    oracle(su == "ok" && v == "ok fresh", ctx2 + "[configure; set_up; process] gives `" + su + " / " + v + "`");
    bool called = false;
    try
      {
        called = o->downsample_images_to_scanner_size() == Succeeded::yes;
      }
    catch (...)
      {
      }
    oracle(called, ctx2 + "call failed on a configured object");
    c.ds_images = true;
    su = try_set_up(*o);
    if (su == "err")
      oracle(false, ctx2 + "set_up refuses after downsample_images_to_scanner_size although a fresh object accepts the same configuration");
    else
      {
        v = compare_with_fresh(*o, w, c);
        if (v == "ok fresh" || v == "ok zero")
          ++g_checks;
        else
          known_candidate("scatter-setup:downsample-images-to-scanner-size-keeps-scatter-point-image",
                          "downsample_images_to_scanner_size() after a set_up replaces the attenuation image without resetting the scatter-point "
                          "image derived from the old one (set_density_image_sptr does reset it) — history [configure; set_up; process; "
                          "downsample_images_to_scanner_size; set_up; process] gives `"
                              + v + "`, a fresh object [configure; downsample_images_to_scanner_size; set_up; process] samples other scatter points (world "
                              + num(w.id) + ")");
      }
  }
}

// the parsing constructor SingleScatterSimulation(parameter file): every keyword, then post_processing() calls the setters by
// file name. Oracle: the object gives the result of an object configured through the setters; also after parse() of
// `use cache` (which, on THIS object, reads all files again), a setter, and parse() again.
static void
parsed_object_oracle(const World& w, vh::Rng& rng)
{
  emit("cfg oracle-only parsed-constructor world=" + num(w.id), "ok");
  const string ctx = "world=" + num(w.id) + " parsing constructor: ";
  for (int variant = 0; variant < 2; ++variant)
    {
      const FileTmpl& ft = w.ftmpls[variant == 0 ? rng.range(0, 2) : 3];
      Config c;
      c.act = rng.range(0, 1);
      c.att = rng.range(0, 2);
      c.sp = variant == 0 ? rng.range(0, 2) : -1;
      c.tmpl = ft.k_pool;
      c.exam = ft.e_pool;
      c.thr = rng.range(0, 1);
      c.zoom = rng.range(0, 1);
      c.use_cache = rng.coin();
      c.rnd = false;
      const Zoom& z = w.zooms[c.zoom];
      const string par = w.dir + "/sim" + num(variant) + ".par";
      {
        std::ofstream f(par.c_str());
        f << "PET Single Scatter Simulation Parameters :=\n"
          << " template projdata filename := " << ft.file << "\n"
          << " attenuation image filename := " << w.att_files[c.att] << "\n"
          << " activity image filename := " << w.act_files[c.act] << "\n";
        if (c.sp >= 0)
          f << " attenuation image for scatter points filename := " << w.sp_files[c.sp] << "\n";
        f << " zoom XY for attenuation image for scatter points := " << fmt9(z.zxy) << "\n"
          << " zoom Z for attenuation image for scatter points := " << fmt9(z.zz) << "\n"
          << " XY size of downsampled image for scatter points := " << z.sxy << "\n"
          << " Z size of downsampled image for scatter points := " << z.sz << "\n"
          << " attenuation threshold := " << fmt9(w.thrs[c.thr]) << "\n"
          << " randomly place scatter points := 0\n"
          << " use cache := " << (c.use_cache ? 1 : 0) << "\n"
          << "end PET Single Scatter Simulation Parameters :=\n";
      }
      std::unique_ptr<Sim> o;
      try
        {
          o.reset(new Sim(par));
        }
      catch (...)
        {
        }
      oracle(static_cast<bool>(o), ctx + "constructor throws on a complete parameter file (variant " + num(variant) + ")");
      if (!o)
        continue;
      oracle(o->get_use_cache() == c.use_cache, ctx + "`use cache` keyword not taken over");
      string su = try_set_up(*o), v = compare_with_fresh(*o, w, c);
      oracle(su == "ok" && v == "ok fresh", ctx + "[parse; set_up; process] gives `" + su + " / " + v + "` instead of the result of the object configured through the setters");
      oracle(o->get_num_scatter_points() > 0, ctx + "no scatter points — generator problem");
      // flip the keyword by parse(): the flag changes and every file is read again
      for (int step = 0; step < 2; ++step)
        {
          c.use_cache = !c.use_cache;
          bool parsed = false;
          try
            {
              parsed = o->parse(w.par_cache[c.use_cache ? 1 : 0].c_str());
            }
          catch (...)
            {
            }
          c.act = (c.act + 1) % 4;
          bool set = false;
          try
            {
              if (step == 0)
                o->set_activity_image(w.act_files[c.act]);
              else
                o->set_activity_image_sptr(w.acts[c.act]);
              set = true;
            }
          catch (...)
            {
            }
          su = try_set_up(*o), v = compare_with_fresh(*o, w, c);
          // (a sparse activity image may see no scatter at all in a tiny scanner)
          oracle(parsed && set && su == "ok" && (v == "ok fresh" || (c.act >= 2 && v == "ok zero")),
                 ctx + "[...; parse(use cache := " + num(c.use_cache) + "); set activity image; set_up; process] gives `" + su + " / " + v
                     + "` instead of the fresh result");
        }
    }
}

static void
remove_tree(const string& dir)
{
  if (dir.size() > 10 && dir.compare(0, 9, "/tmp/C16/") == 0)
    {
      const string cmd = "rm -rf '" + dir + "'";
      int ignored = std::system(cmd.c_str());
      (void)ignored;
    }
}

int
main(int argc, char** argv)
{
  if (argc < 5)
    return 2;
  vh::quiet();
  vh::Rng rng(std::strtoull(argv[1], nullptr, 10) * 1315423911ULL + 16);
  const bool thorough = string(argv[2]) == "thorough";
  g_pinned_time = 1700000000 + static_cast<time_t>(std::strtoull(argv[1], nullptr, 10) % 100000);
  g_ops = std::fopen(argv[3], "w");
  g_out = std::fopen(argv[4], "w");
  g_orc = std::fopen((string(argv[4]) + ".oracle").c_str(), "w");
  if (!g_ops || !g_out || !g_orc)
    return 2;
  ::mkdir("/tmp/C16", 0777);
  g_scratch = "/tmp/C16/harness-" + num(static_cast<long>(getpid()));
  ::mkdir(g_scratch.c_str(), 0777);
  const int n_worlds = thorough ? 30 : 4;
  const int n_clean = thorough ? 100 : 24;
  const int n_dirty = thorough ? 40 : 8;
  const int len = thorough ? 30 : 18;
  for (int wi = 0; wi < n_worlds; ++wi)
    {
      World w = make_world(wi, rng, thorough);
      declare_world(w);
      // phase A on several configurations
      {
        Config c;
        c.act = 0; c.att = 0; c.sp = 0; c.tmpl = 0; c.exam = 0; c.thr = 0; c.zoom = 0;
        phase_a(w, c, rng, thorough ? 12 : 6, "A1");
        Config c2;
        c2.act = 2; c2.att = 1; c2.sp = -1; c2.tmpl = 2; c2.exam = 1; c2.thr = 0; c2.zoom = 0;
        phase_a(w, c2, rng, thorough ? 12 : 6, "A2");
        Config c3;
        c3.act = 1; c3.att = 1; c3.sp = 2; c3.tmpl = 1; c3.exam = 2; c3.thr = 1; c3.zoom = 1;
        phase_a(w, c3, rng, thorough ? 12 : 6, "A3");
        if (thorough)
          {
            Config c4;
            c4.act = 3; c4.att = 0; c4.sp = -1; c4.tmpl = 0; c4.exam = 2; c4.thr = 1; c4.zoom = 1;
            phase_a(w, c4, rng, 12, "A4");
          }
        const int ne = thorough ? 10 : 6;
        // BlocksOnCylindrical templates
        Config b1;
        b1.act = 0; b1.att = 0; b1.sp = 0; b1.tmpl = 3; b1.exam = 0; b1.thr = 0; b1.zoom = 0;
        phase_a(w, b1, rng, ne, "B1");
        Config b2;
        b2.act = 1; b2.att = 1; b2.sp = -1; b2.tmpl = 4; b2.exam = 2; b2.thr = 0; b2.zoom = 1;
        phase_a(w, b2, rng, ne, "B2");
        if (thorough)
          {
            Config b3;
            b3.act = 2; b3.att = 2; b3.sp = 2; b3.tmpl = 3; b3.exam = 1; b3.thr = 1; b3.zoom = 0;
            phase_a(w, b3, rng, ne, "B3");
          }
        // down-sampled scanners: flag (set_up calls downsample_scanner()) on a cylindrical and on a blocks template,
        // explicit downsample_scanner(rings, dets) calls
        Config d1;
        d1.act = 0; d1.att = 1; d1.sp = 1; d1.tmpl = 0; d1.exam = 0; d1.thr = 0; d1.zoom = 0;
        d1.ds = true; d1.ds_rings = rng.range(2, 3); d1.ds_dets = std::max(6, w.dims[0].dets - 2 * rng.range(0, 2));
        phase_a(w, d1, rng, ne, "D1");
        Config d2;
        d2.act = 1; d2.att = 0; d2.sp = -1; d2.tmpl = 3; d2.exam = 1; d2.thr = 0; d2.zoom = 1;
        d2.ds = true; d2.ds_rings = rng.range(2, 3); d2.ds_dets = -1;
        phase_a(w, d2, rng, ne, "D2");
        Config d3;
        d3.act = 0; d3.att = 0; d3.sp = 0; d3.tmpl = 2; d3.exam = 2; d3.thr = 0; d3.zoom = 0;
        d3.ds_calls.push_back(std::make_pair(rng.range(2, 3), std::max(6, w.dims[2].dets - 2)));
        phase_a(w, d3, rng, ne, "D3");
        if (thorough)
          {
            Config d4;
            d4.act = 1; d4.att = 1; d4.sp = 1; d4.tmpl = 4; d4.exam = 0; d4.thr = 0; d4.zoom = 0;
            d4.ds_calls.push_back(std::make_pair(2, w.dims[4].buckets * (w.dims[4].buckets % 2 == 0 ? 3 : 4)));
            phase_a(w, d4, rng, ne, "D4");
          }
        // automatic zoom / size (-1) of the scatter-point image
        Config z1;
        z1.act = 1; z1.att = 0; z1.sp = -1; z1.tmpl = w.auto_tmpl; z1.exam = 0; z1.thr = 0; z1.zoom = -1;
        phase_a(w, z1, rng, ne, "Z1");
        // images down-sampled to the scanner's default grid
        Config i1;
        i1.act = 0; i1.att = 1; i1.sp = -1; i1.tmpl = w.auto_tmpl; i1.exam = 1; i1.thr = 0; i1.zoom = -1; i1.ds_images = true;
        phase_a(w, i1, rng, ne, "I1");
        // random placement of the scatter points (library default)
        Config r1;
        r1.act = 0; r1.att = 1; r1.sp = 0; r1.tmpl = 1; r1.exam = 0; r1.thr = 0; r1.zoom = 0; r1.rnd = true;
        phase_a(w, r1, rng, ne, "R1");
        Config r2;
        r2.act = 1; r2.att = 0; r2.sp = -1; r2.tmpl = 3; r2.exam = 2; r2.thr = 0; r2.zoom = 1; r2.rnd = true;
        phase_a(w, r2, rng, ne, "R2");
        // round 4: energy windows that do not contain 511 keV / straddle it narrowly / very narrow / very wide, with
        // energy resolutions 5 .. 30 % (templates 0-4 have 10-20 %, 7 has 5 %, 8 has 30 %)
        const int x0 = w.exam_extra0;
        Config e1;
        e1.act = 0; e1.att = 0; e1.sp = 0; e1.tmpl = 0; e1.exam = x0 + 0; e1.thr = 0; e1.zoom = 0;
        phase_a(w, e1, rng, ne, "E1");
        Config e2;
        e2.act = 1; e2.att = 1; e2.sp = -1; e2.tmpl = w.tmpl_res30; e2.exam = x0 + 1; e2.thr = 0; e2.zoom = 0;
        phase_a(w, e2, rng, ne, "E2");
        Config e3;
        e3.act = 0; e3.att = 0; e3.sp = 1; e3.tmpl = (wi % 2) ? w.tmpl_res05 : w.tmpl_res30; e3.exam = x0 + 2; e3.thr = 0; e3.zoom = 0;
        phase_a(w, e3, rng, ne, "E3");
        Config e4;
        e4.act = 1; e4.att = 0; e4.sp = 0; e4.tmpl = 3; e4.exam = x0 + 3; e4.thr = 0; e4.zoom = 0;
        phase_a(w, e4, rng, ne, "E4");
        Config e5;
        e5.act = 0; e5.att = 1; e5.sp = -1; e5.tmpl = (wi % 2) ? 1 : w.tmpl_res05; e5.exam = x0 + 4; e5.thr = 0; e5.zoom = 1;
        phase_a(w, e5, rng, ne, "E5");
        Config e6;
        e6.act = 1; e6.att = 0; e6.sp = 2; e6.tmpl = (wi % 2) ? w.tmpl_res05 : 2; e6.exam = x0 + 5; e6.thr = 0; e6.zoom = 0;
        phase_a(w, e6, rng, ne, "E6");
        Config e7;
        e7.act = 0; e7.att = 1; e7.sp = 0; e7.tmpl = (wi % 2) ? 4 : w.tmpl_res30; e7.exam = x0 + 6; e7.thr = 0; e7.zoom = 0;
        phase_a(w, e7, rng, ne, "E7");
        if (thorough)
          {
            // every extra window once more with another template / resolution
            for (int k = 0; k < 7; ++k)
              {
                Config ex;
                ex.act = k % 2; ex.att = (k + 1) % 2; ex.sp = (k % 3 == 0) ? -1 : k % 3; ex.tmpl = (k + wi) % 2 ? w.tmpl_res05 : w.tmpl_res30; ex.exam = x0 + k;
                ex.thr = 0; ex.zoom = 0;
                phase_a(w, ex, rng, ne, "EX" + num(k));
              }
          }
        // round 4: activity values up to 1e6 (formula correspondence `ssp`/`est`/`actint` on large integrals, all oracles)
        Config l1;
        l1.act = w.act_large; l1.att = 0; l1.sp = 0; l1.tmpl = 0; l1.exam = 0; l1.thr = 0; l1.zoom = 0;
        phase_a(w, l1, rng, ne, "L1");
        Config l2;
        l2.act = w.act_large; l2.att = 1; l2.sp = -1; l2.tmpl = 3; l2.exam = x0 + 0; l2.thr = 0; l2.zoom = 1;
        phase_a(w, l2, rng, ne, "L2");
        // a point source and a half image as THE activity image (sparse: `ssp` lines with one-armed terms)
        Config s1;
        s1.act = w.act_point; s1.att = 0; s1.sp = 0; s1.tmpl = 0; s1.exam = 0; s1.thr = 0; s1.zoom = 0;
        phase_a(w, s1, rng, ne, "S1");
        Config s2;
        s2.act = w.act_left; s2.att = 1; s2.sp = 1; s2.tmpl = 1; s2.exam = 2; s2.thr = 0; s2.zoom = 0;
        phase_a(w, s2, rng, ne, "S2");
        deteff_sweep(w, rng, thorough ? 60 : 30);
      }
      targeted_histories(w);
      three_step_histories(w, rng);
      entry_point_histories(w, rng);
      oracle_only_histories(w);
      parsed_object_oracle(w, rng);
      auto_zoom_histories(w, rng, thorough ? 30 : 10);
      for (int k = 0; k < n_clean; ++k)
        random_clean_history(w, rng, len, k % 5 == 4);
      for (int k = 0; k < n_dirty; ++k)
        random_dirty_history(w, rng, len);
      remove_tree(w.dir);
    }
  remove_tree(g_scratch);
  std::fprintf(g_orc, "ORACLE-DONE checks=%ld fails=%ld\n", g_checks, g_fails);
  std::fclose(g_ops);
  std::fclose(g_out);
  std::fclose(g_orc);
  return 0;
}
