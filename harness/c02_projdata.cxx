// C02 — implementation side: "projection data are one coherent array".
// Drives the REAL STIR API (ProjDataFromStream over std::stringstream / std::fstream, ProjDataInterfile,
// ProjDataInMemory, ProjData::read_from_file) with random interleaved write/read histories through all
// access paths and records, per operation,
//   * for a write: which element slots of the backing store changed (found by diffing a byte copy of the
//     store taken before/after the call -- the private get_offset/get_index are never called) + a checksum
//     of the new contents decoded by this harness' own byte-order/type decoder, and for file backings whether
//     an independent std::ifstream sees the new bytes before this harness flushes the writer (vis=);
//   * for a read: the values the API returns.
// The Lean model (lean/StirVerif/C02/Model.lean) answers the same lines from its transcription of get_offset.
// Streams with an integer on-disk type get a scale factor of 1, 1/2 or 3 (values are multiples of it); the model keeps the
// on-disk numbers and applies round(value/scale) and number*scale itself.
// ORACLE (property statement evaluated on the implementation): a reference std::map<bin,float> is updated
// with the *meaning* of every write; every read, a full sweep through a randomly chosen other path after
// every write, the visibility to a second reader and the header round trip are compared with it; requests
// outside the index ranges must throw and leave everything unchanged.
// Extension (scale factor, bulk arithmetic, get_subset, copies from differently laid-out sources, header variants,
// out-of-range container setters, containers of the right size with a shifted / smaller index range given to every
// container setter, exam information at its boundary values through both header writers): see the block comment above
// run_ext_op() and header_exam_info_boundaries().
// Usage: c02_projdata <seed> <quick|thorough> <opsfile> <implfile>
#include "stir_fixtures.h"
#include "common.h"
#include "stir/ProjDataFromStream.h"
#include "stir/ProjDataInterfile.h"
#include "stir/ProjDataInMemory.h"
#include "stir/ProjData.h"
#include "stir/copy_fill.h"
#include "stir/ExamInfo.h"
#include "stir/Bin.h"
#include "stir/Viewgram.h"
#include "stir/Sinogram.h"
#include "stir/SegmentByView.h"
#include "stir/SegmentBySinogram.h"
#include "stir/RelatedViewgrams.h"
#include "stir/Succeeded.h"
#include "stir/ByteOrder.h"
#include "stir/NumericType.h"
#include "stir/TimeFrameDefinitions.h"
#include "stir/PatientPosition.h"
#include "stir/RadionuclideDB.h"
#include "stir/recon_buildblock/DataSymmetriesForBins_PET_CartesianGrid.h"
#include "stir/DiscretisedDensity.h"
#include "stir/ProjDataInfoSubsetByView.h"
#include "stir/ProjDataInfoCylindricalArcCorr.h"
#include "stir/IO/interfile.h"
#include <algorithm>
#include <array>
#include <cstring>
#include <map>
#include <set>
#include <sys/stat.h>
#include <unistd.h>

using namespace stir;

typedef std::array<int, 5> Key; // seg, view, ax, tang, tof
typedef std::vector<unsigned char> Bytes;

static const int GUARD = 32;
static const int PAD = -1000000; // pseudo segment number: a padding element (expected value 0)

// ProjDataInterfile with access to its (protected) stream, only to flush it from the harness
struct InterfileProbe : public ProjDataInterfile
{
  using ProjDataInterfile::ProjDataInterfile;
  std::iostream& stream() { return *sino_stream; }
};

static bool g_sbs = true; // set by probe_bin_scale()
static bool g_chkseg_mem = true, g_chkseg_pdfs = true; // set by probe_segment_size_check()
static bool g_chksegt_mem = true, g_chksegt_pdfs = true; // set by probe_segment_size_check(): shifted tangential range refused?
static FILE *g_ops, *g_out, *g_orc;
static long g_checks = 0, g_fails = 0;
static std::set<std::string> g_known_emitted;
static std::map<std::string, long> g_hist;

static void
oracle_fail(const std::string& ctx, const std::string& what)
{
  ++g_fails;
  if (g_fails <= 40)
    std::fprintf(g_orc, "ORACLE-FAIL %s | %s\n", what.c_str(), ctx.c_str());
}
// the text is constant per key (stable replay names); where it was first seen goes to an INFO line
static void
known(const std::string& key, const std::string& text, const std::string& first_seen = "")
{
  if (g_known_emitted.insert(key).second)
    {
      std::fprintf(g_orc, "KNOWN-CANDIDATE %s %s\n", key.c_str(), text.c_str());
      if (!first_seen.empty())
        std::fprintf(g_orc, "INFO %s first seen at: %s\n", key.c_str(), first_seen.c_str());
    }
}
#define KNOWN_RANGE(ctx)                                                                                                          \
  known("range:view-tang-unchecked",                                                                                              \
        "ProjDataFromStream::get_offset / ProjDataInMemory::get_index check segment, axial and TOF ranges but not view / "      \
        "tangential position: an out-of-range request is accepted and reads/overwrites ANOTHER bin. Repro: any ProjDataFromStream " \
        "or ProjDataInMemory with views 0..V-1 and >= 2 axial positions in segment 0 (AxialPos_View order): "                    \
        "set_bin_value(Bin(0, V, 0, t, 0, x)) does not throw and changes get_bin_value(Bin(0, 0, 1, t, 0)); likewise "           \
        "tangential position max+1 lands on the next view",                                                                       \
        ctx)

#define KNOWN_BINSCALE(ctx)                                                                                                       \
  known("scale:set_bin_value-ignores-scale-factor",                                                                               \
        "ProjDataFromStream::set_bin_value writes the value with scale 1 although get_bin_value (and every other get_*/set_*) "  \
        "applies the stream's scale_factor: on a stream with scale factor != 1 a value written through the single-bin path is "  \
        "read back multiplied by the scale factor (or rounded to a multiple of it) through every path. Repro: ProjDataFromStream " \
        "over a stringstream, on-disk type short, scale_factor 3: set_bin_value(Bin(0,1,1,0,0,6.f)); get_bin_value of the same "  \
        "bin returns 18 (the same value written with set_viewgram is read back as 6)",                                           \
        ctx)

struct Case;
static float bin_get_fwd(Case& c, const std::array<int, 5>& k);

static std::string
num(double x)
{
  if (x == static_cast<long long>(x) && std::fabs(x) < 1e15)
    return std::to_string(static_cast<long long>(x));
  // exact dyadic fractions the Lean driver parses as rationals
  for (int q = 2; q <= 16; q *= 2)
    if (x * q == static_cast<long long>(x * q) && std::fabs(x) < 1e12)
      return std::to_string(static_cast<long long>(x * q)) + "/" + std::to_string(q);
  return vh::hex(x);
}

struct Case
{
  shared_ptr<ProjDataInfo> pdi;
  shared_ptr<ExamInfo> exam;
  int minSeg, maxSeg, minView, numViews, minTang, numTang, minTof, maxTof, numTof;
  std::map<int, int> minAx, numAx;
  std::string backing; // ss fs if mem
  int order;           // 0 = Segment_AxialPos_View_TangPos, 1 = Segment_View_AxialPos_TangPos
  NumericType type;
  ByteOrder bo;
  long offset;
  int esize;
  std::vector<int> seq, tofseq;
  long total; // number of element slots
  shared_ptr<ProjData> pd;
  ProjDataFromStream* pdfs = nullptr;
  ProjDataInMemory* pdm = nullptr;
  shared_ptr<std::stringstream> ss;
  shared_ptr<std::fstream> fs;
  InterfileProbe* ifp = nullptr;
  std::string datafile, headerfile;
  bool symmetric_ok = false;
  shared_ptr<DataSymmetriesForViewSegmentNumbers> sym;
  std::map<Key, float> ref;
  Bytes img; // current byte image (normalised)
  std::string cfgline;
  bool chkv = false, chkt = false;
  // --- extension
  float scale = 1.f;            // scale factor of the stream (p/q below), 1 for float / memory
  int scale_p = 1, scale_q = 1;
  float unit = 1.f;             // every generated value is an integer multiple of this (exactly representable on disk)
  bool arc = false;             // arc-corrected geometry
  int nframes = 1;
  shared_ptr<ProjDataInfo> pdi_wide; // same ranges but (possibly) more segments than pdi: wider sources / foreign segments

  int maxView() const { return minView + numViews - 1; }
  int maxTang() const { return minTang + numTang - 1; }
  int maxAxOf(int s) const { return minAx.at(s) + numAx.at(s) - 1; }
  bool file_backed() const { return backing == "fs" || backing == "if"; }
  int tof0() const { return tofseq.empty() ? minTof : tofseq[0]; }

  Bytes raw_image() const
  {
    Bytes b;
    if (backing == "ss")
      {
        const std::string s = ss->str();
        b.assign(s.begin(), s.end());
      }
    else if (backing == "mem")
      {
        b.resize(static_cast<std::size_t>(total) * 4);
        std::size_t k = 0;
        const ProjDataInMemory& m = *pdm;
        for (auto it = m.begin_all(); it != m.end_all(); ++it, ++k)
          {
            const float f = *it;
            std::memcpy(&b[4 * k], &f, 4);
          }
      }
    else
      {
        // the second, independent reader of the file
        std::ifstream f(datafile.c_str(), std::ios::binary);
        b.assign((std::istreambuf_iterator<char>(f)), std::istreambuf_iterator<char>());
      }
    return b;
  }
  std::size_t norm_len() const { return static_cast<std::size_t>(offset + total * esize + GUARD); }
  // normalised: fixed length; bytes beyond the end of the store read as 0 (Interfile starts empty), longer stores are kept
  Bytes image() const
  {
    Bytes b = raw_image();
    if (b.size() < norm_len())
      b.resize(norm_len(), 0);
    return b;
  }
  void flush_writer()
  {
    if (backing == "ss")
      ss->flush();
    else if (backing == "fs")
      fs->flush();
    else if (backing == "if")
      ifp->stream().flush();
  }
  double decode(const Bytes& b, long slot) const
  {
    unsigned char t[8];
    const unsigned char* p = &b[static_cast<std::size_t>(offset + slot * esize)];
    const bool swap = (backing != "mem") && !bo.is_native_order();
    for (int i = 0; i < esize; ++i)
      t[i] = swap ? p[esize - 1 - i] : p[i];
    if (backing == "mem" || type.id == NumericType::FLOAT)
      {
        float f;
        std::memcpy(&f, t, 4);
        return f;
      }
    if (type.id == NumericType::SHORT)
      {
        int16_t v;
        std::memcpy(&v, t, 2);
        return v;
      }
    if (type.id == NumericType::USHORT)
      {
        uint16_t v;
        std::memcpy(&v, t, 2);
        return v;
      }
    int32_t v;
    std::memcpy(&v, t, 4);
    return v;
  }
};

static std::string
ranges(const std::vector<long>& v)
{
  if (v.empty())
    return "-";
  std::ostringstream s;
  std::size_t i = 0;
  bool first = true;
  while (i < v.size())
    {
      std::size_t j = i;
      while (j + 1 < v.size() && v[j + 1] == v[j] + 1)
        ++j;
      s << (first ? "" : ",") << v[i] << "-" << v[j];
      first = false;
      i = j + 1;
    }
  return s.str();
}

// diff two normalised images: changed slots, changed bytes outside the slots, checksum of the new slot values
static std::string
diff_answer(const Case& c, const Bytes& before, const Bytes& after)
{
  std::vector<long> slots, outside;
  long long cs = 0;
  const std::size_t n = std::max(before.size(), after.size());
  for (long k = 0; k < c.total; ++k)
    {
      const std::size_t a = static_cast<std::size_t>(c.offset + k * c.esize);
      if (std::memcmp(&before[a], &after[a], c.esize) != 0)
        {
          // +0 -> -0 (float stores, e.g. 0 * -1 in the bulk arithmetic) is not a change of value
          if (c.decode(before, k) == 0 && c.decode(after, k) == 0)
            continue;
          slots.push_back(k);
          const double v = c.decode(after, k);
          const long long iv = (v == static_cast<long long>(v)) ? static_cast<long long>(v) : 999983;
          // (mathematical, non-negative remainder: values can be below -1000 after the bulk arithmetic)
          const long long ivm = (((iv + 1000) % 1000003) + 1000003) % 1000003;
          cs = (cs + ((k + 1) % 1000003) * ivm) % 1000003;
        }
    }
  for (std::size_t a = 0; a < n; ++a)
    {
      if (a >= static_cast<std::size_t>(c.offset) && a < static_cast<std::size_t>(c.offset + c.total * c.esize))
        continue;
      const int x = a < before.size() ? before[a] : 0;
      const int y = a < after.size() ? after[a] : 0;
      if (x != y)
        outside.push_back(static_cast<long>(a));
    }
  std::ostringstream s;
  s << "d=" << ranges(slots) << " cs=" << cs;
  if (!outside.empty())
    s << " out=" << ranges(outside);
  return s.str();
}

// ---------------------------------------------------------------------------------------------------
// reading everything through one path family (used by the oracle sweeps and to resynchronise the reference)
static bool
read_all(Case& c, int family, std::map<Key, float>& got)
{
  got.clear();
  ProjData& pd = *c.pd;
  try
    {
      for (int k = c.minTof; k <= c.maxTof; ++k)
        for (int s = c.minSeg; s <= c.maxSeg; ++s)
          {
            const int a0 = c.minAx[s], a1 = c.maxAxOf(s);
            switch (family)
              {
              case 0: { // segment by sinogram
                const SegmentBySinogram<float> seg = pd.get_segment_by_sinogram(s, k);
                for (int a = a0; a <= a1; ++a)
                  for (int v = c.minView; v <= c.maxView(); ++v)
                    for (int t = c.minTang; t <= c.maxTang(); ++t)
                      got[Key{ s, v, a, t, k }] = seg[a][v][t];
                break;
              }
              case 1: { // segment by view
                const SegmentByView<float> seg = pd.get_segment_by_view(s, k);
                for (int a = a0; a <= a1; ++a)
                  for (int v = c.minView; v <= c.maxView(); ++v)
                    for (int t = c.minTang; t <= c.maxTang(); ++t)
                      got[Key{ s, v, a, t, k }] = seg[v][a][t];
                break;
              }
              case 2: { // viewgrams
                for (int v = c.minView; v <= c.maxView(); ++v)
                  {
                    const Viewgram<float> vg = pd.get_viewgram(v, s, false, k);
                    for (int a = a0; a <= a1; ++a)
                      for (int t = c.minTang; t <= c.maxTang(); ++t)
                        got[Key{ s, v, a, t, k }] = vg[a][t];
                  }
                break;
              }
              case 3: { // sinograms
                for (int a = a0; a <= a1; ++a)
                  {
                    const Sinogram<float> sg = pd.get_sinogram(a, s, false, k);
                    for (int v = c.minView; v <= c.maxView(); ++v)
                      for (int t = c.minTang; t <= c.maxTang(); ++t)
                        got[Key{ s, v, a, t, k }] = sg[v][t];
                  }
                break;
              }
              default: { // single bins
                for (int a = a0; a <= a1; ++a)
                  for (int v = c.minView; v <= c.maxView(); ++v)
                    for (int t = c.minTang; t <= c.maxTang(); ++t)
                      {
                        Bin b(s, v, a, t, k, 0.f);
                        got[Key{ s, v, a, t, k }] = c.pdm ? c.pdm->get_bin_value(b) : c.pdfs->get_bin_value(b);
                      }
              }
              }
          }
    }
  catch (...)
    {
      return false;
    }
  return true;
}

static std::string
keystr(const Key& k)
{
  std::ostringstream s;
  s << "(seg " << k[0] << ", view " << k[1] << ", ax " << k[2] << ", tang " << k[3] << ", tof " << k[4] << ")";
  return s.str();
}

static void
sweep(Case& c, vh::Rng& rng, const std::string& ctx)
{
  int family = rng.range(0, 4);
  if (family == 4 && c.total > 700)
    family = rng.range(0, 3);
  std::map<Key, float> got;
  ++g_checks;
  if (!read_all(c, family, got))
    {
      oracle_fail(ctx, "sweep family " + std::to_string(family) + " threw on in-range requests");
      return;
    }
  for (auto& kv : c.ref)
    {
      auto it = got.find(kv.first);
      if (it == got.end() || it->second != kv.second)
        {
          oracle_fail(ctx,
                      "after this write, bin " + keystr(kv.first) + " read through path family " + std::to_string(family) + " is "
                          + (it == got.end() ? std::string("missing") : num(it->second)) + ", reference map has " + num(kv.second));
          return;
        }
    }
}

// ---------------------------------------------------------------------------------------------------
static const char* type_name(const Case& c)
{
  if (c.backing == "mem")
    return "float";
  return c.type.id == NumericType::FLOAT ? "float" : c.type.id == NumericType::SHORT ? "short" : c.type.id == NumericType::USHORT ? "ushort" : "int";
}

static bool
in_range(const Case& c, const Key& k)
{
  return k[0] >= c.minSeg && k[0] <= c.maxSeg && k[2] >= c.minAx.at(k[0]) && k[2] <= c.maxAxOf(k[0]) && k[1] >= c.minView
         && k[1] <= c.maxView() && k[3] >= c.minTang && k[3] <= c.maxTang() && k[4] >= c.minTof && k[4] <= c.maxTof;
}

// emit one op line + answer line
static void
emit(const std::string& op, const std::string& ans)
{
  std::fprintf(g_ops, "%s\n", op.c_str());
  std::fprintf(g_out, "%s\n", ans.c_str());
  g_hist[op.substr(0, op.find(' '))]++;
}

// performs a write through `call` (returns: 0 ok, 1 Succeeded::no, 2 threw), then diffs the store.
// `expect` = bins/values the write MEANS (empty if the request is out of range: must be rejected)
template <class F>
static void
do_write(Case& c, vh::Rng& rng, const std::string& op, F call, const std::vector<std::pair<Key, float>>& expect, bool out_of_range,
         const std::string& oor_kind)
{
  int status = 0;
  try
    {
      status = call() ? 0 : 1;
    }
  catch (...)
    {
      status = 2;
    }
  const std::string ctx = c.cfgline + " ;; " + op.substr(0, 120);
  // observation by the second reader BEFORE the harness flushes the writer
  std::string vis;
  Bytes A = c.image();
  if (c.file_backed())
    {
      c.flush_writer();
      const Bytes B = c.image();
      vis = (A == B) ? " vis=1" : " vis=0";
      if (A != B && status == 0)
        {
          ++g_checks;
          if (op.compare(0, 5, "setb ") == 0)
            known("flush:set_bin_value-no-flush",
                  "ProjDataFromStream::set_bin_value returns without flushing the stream (class documentation: every set_* flushes): "
                  "an independent std::ifstream opened after the call returned does not see the written value until the writer "
                  "is flushed/closed. Repro: ProjDataFromStream over std::fstream on a zero-filled file, set_bin_value(Bin(0,1,1,0,0,7.f)), "
                  "read the file with a new std::ifstream: all bytes still 0 (set_viewgram/set_sinogram/set_segment are visible at once)",
                  ctx);
          else
            oracle_fail(ctx, "written values not visible to an independent reader of the file when the write call returned");
        }
      else
        ++g_checks;
      A = B;
    }
  else
    c.flush_writer();
  const std::string d = diff_answer(c, c.img, A);
  const bool changed = d.compare(0, 8, "d=- cs=0") != 0 || d.find("out=") != std::string::npos;
  std::string ans;
  if (status != 0) // thrown exception or Succeeded::no: both are "reported as an error"
    ans = changed ? "err " + d : "err";
  else
    ans = "ok " + d + vis;
  emit(op, ans);
  c.img = A;

  // ----- oracle
  ++g_checks;
  if (out_of_range)
    {
      if (status == 0 || changed)
        {
          if (oor_kind == "view" || oor_kind == "tang")
            KNOWN_RANGE(ctx);
          else if (oor_kind == "axial size of the segment container")
            known("range:set_segment-axial-size-unchecked",
                  "ProjDataFromStream::set_segment and ProjDataInMemory::set_segment check the number of views and tangential positions of "
                  "the segment they are given but not its axial positions: a SegmentBySinogram/SegmentByView with one axial position more "
                  "than the segment has (axial position max+1 is outside the index range) is accepted (Succeeded::yes) and written as one "
                  "contiguous run, overwriting the first sinogram of the NEXT segment in the stream/buffer (behind the last segment of a "
                  "ProjDataInMemory: heap overflow). Repro: ProjDataInMemory for 8 detectors/3 rings, span 1, max_delta 1 (segments 0,+1,-1 "
                  "with 3,2,2 axial positions); clone the ProjDataInfo, set_max_axial_pos_num(3, 0), get_empty_segment_by_sinogram(0), "
                  "fill(-7), set_segment: returns yes and get_sinogram(0, 1) is now all -7",
                  ctx);
          else if (oor_kind == "tangential range of the segment container" && !(c.pdm ? g_chksegt_mem : g_chksegt_pdfs))
            known("range:set_segment-tang-range-unchecked",
                  "ProjDataFromStream::set_segment and ProjDataInMemory::set_segment (both overloads) compare the NUMBER of tangential "
                  "positions (and of views) of the segment they are given with the data's, not the index range: a SegmentByView/"
                  "SegmentBySinogram whose tangential range is shifted (min+1..max+1: its last index is outside the data's range) is "
                  "accepted (Succeeded::yes) and stored shifted by one bin (set_viewgram/set_sinogram refuse the same geometry through "
                  "ProjDataInfo::operator!=). Repro: ProjDataInMemory for 8 detectors/3 rings, span 1, max_delta 1, 3 tangential "
                  "positions -1..1; clone the ProjDataInfo, set_min_tangential_pos_num(0), set_max_tangential_pos_num(2), "
                  "get_empty_segment_by_sinogram(0), seg[0][0][2] = 5, set_segment: returns yes and get_bin_value(Bin(0,0,0,1)) is 5",
                  ctx);
          else
            oracle_fail(ctx, "out-of-range (" + oor_kind + ") write request was not rejected" + (changed ? " and changed the data" : ""));
          // the reference no longer describes the data: resynchronise from the implementation
          std::map<Key, float> got;
          if (read_all(c, 0, got))
            c.ref = got;
        }
      return;
    }
  if (status != 0)
    {
      oracle_fail(ctx, "in-range write request failed (status " + std::to_string(status) + ")");
      std::map<Key, float> got;
      if (read_all(c, 0, got))
        c.ref = got;
      return;
    }
  if (!g_sbs && c.scale != 1.f && op.compare(0, 5, "setb ") == 0)
    {
      // the value comes back multiplied by the scale factor (or rounded): known class, resynchronise
      bool same = false;
      try
        {
          same = expect.size() == 1 && bin_get_fwd(c, expect[0].first) == expect[0].second;
        }
      catch (...)
        {}
      if (!same)
        {
          KNOWN_BINSCALE(ctx);
          std::map<Key, float> got;
          if (read_all(c, 0, got))
            c.ref = got;
          return;
        }
    }
  for (auto& kv : expect)
    c.ref[kv.first] = kv.second;
  sweep(c, rng, ctx);
}

template <class F>
static void
do_read(Case& c, const std::string& op, F call, const std::vector<Key>& bins, bool out_of_range, const std::string& oor_kind)
{
  std::vector<float> vals;
  bool threw = false;
  try
    {
      vals = call();
    }
  catch (...)
    {
      threw = true;
    }
  std::string ans;
  if (threw)
    ans = "err";
  else
    {
      std::ostringstream s;
      for (std::size_t i = 0; i < vals.size(); ++i)
        s << (i ? " " : "") << num(vals[i]);
      ans = s.str();
      if (vals.empty())
        ans = "empty";
    }
  emit(op, ans);
  const std::string ctx = c.cfgline + " ;; " + op.substr(0, 120);
  ++g_checks;
  if (out_of_range)
    {
      if (!threw)
        {
          if (oor_kind == "view" || oor_kind == "tang")
            KNOWN_RANGE(ctx);
          else
            oracle_fail(ctx, "out-of-range (" + oor_kind + ") read request was not rejected");
        }
      return;
    }
  if (threw)
    {
      oracle_fail(ctx, "in-range read request threw");
      return;
    }
  if (vals.size() != bins.size())
    {
      oracle_fail(ctx, "read returned " + std::to_string(vals.size()) + " values, expected " + std::to_string(bins.size()));
      return;
    }
  for (std::size_t i = 0; i < bins.size(); ++i)
    {
      if (bins[i][0] == PAD)
        {
          if (vals[i] != 0.f)
            {
              oracle_fail(ctx, "padding element " + std::to_string(i) + " (make_num_tangential_poss_odd) is " + num(vals[i]) + ", not 0");
              return;
            }
          continue;
        }
      if (c.ref[bins[i]] != vals[i])
        {
          oracle_fail(ctx, "read of bin " + keystr(bins[i]) + " returned " + num(vals[i]) + ", reference map has " + num(c.ref[bins[i]]));
          return;
        }
    }
}

static std::string
vals_str(const std::vector<float>& v)
{
  std::ostringstream s;
  for (float x : v)
    s << " " << num(x);
  return s.str();
}

// canonical bin orders of the STIR containers
static std::vector<Key>
bins_viewgram(const Case& c, int s, int v, int k)
{
  std::vector<Key> r;
  for (int a = c.minAx.at(s); a <= c.maxAxOf(s); ++a)
    for (int t = c.minTang; t <= c.maxTang(); ++t)
      r.push_back(Key{ s, v, a, t, k });
  return r;
}
static std::vector<Key>
bins_sinogram(const Case& c, int s, int a, int k)
{
  std::vector<Key> r;
  for (int v = c.minView; v <= c.maxView(); ++v)
    for (int t = c.minTang; t <= c.maxTang(); ++t)
      r.push_back(Key{ s, v, a, t, k });
  return r;
}
static std::vector<Key>
bins_seg_by_view(const Case& c, int s, int k)
{
  std::vector<Key> r;
  for (int v = c.minView; v <= c.maxView(); ++v)
    for (int a = c.minAx.at(s); a <= c.maxAxOf(s); ++a)
      for (int t = c.minTang; t <= c.maxTang(); ++t)
        r.push_back(Key{ s, v, a, t, k });
  return r;
}
static std::vector<Key>
bins_seg_by_sino(const Case& c, int s, int k)
{
  std::vector<Key> r;
  for (int a = c.minAx.at(s); a <= c.maxAxOf(s); ++a)
    for (int v = c.minView; v <= c.maxView(); ++v)
      for (int t = c.minTang; t <= c.maxTang(); ++t)
        r.push_back(Key{ s, v, a, t, k });
  return r;
}
// order of ProjData::fill_from / copy_to: TOF slowest, standard_segment_sequence, SegmentBySinogram
static std::vector<Key>
bins_all(const Case& c)
{
  std::vector<Key> r;
  for (int k = c.minTof; k <= c.maxTof; ++k)
    for (int s : ProjData::standard_segment_sequence(*c.pdi))
      {
        const std::vector<Key> b = bins_seg_by_sino(c, s, k);
        r.insert(r.end(), b.begin(), b.end());
      }
  return r;
}

// small integer multiples of g_unit (= the stream's scale factor for integer on-disk types: exact on disk; 1 or 1/2 for float
// stores); negative ones unless the on-disk type is unsigned
static bool g_signed_values = true;
static float g_unit = 1.f; // values are integer multiples of this (the stream's scale factor; 1 or 1/2 for float stores)
static std::vector<float>
random_values(vh::Rng& rng, std::size_t n)
{
  std::vector<float> v(n);
  for (auto& x : v)
    {
      x = static_cast<float>(rng.range(0, 9) == 0 ? 0 : rng.range(1, 200));
      if (g_signed_values && x != 0 && rng.range(0, 2) == 0)
        x = -x;
      x *= g_unit;
    }
  return v;
}

static std::vector<std::pair<Key, float>>
zip(const std::vector<Key>& b, const std::vector<float>& v)
{
  std::vector<std::pair<Key, float>> r;
  for (std::size_t i = 0; i < b.size(); ++i)
    r.push_back(std::make_pair(b[i], v[i]));
  return r;
}

static float
bin_get(Case& c, const Key& k)
{
  Bin b(k[0], k[1], k[2], k[3], k[4], 0.f);
  return c.pdm ? c.pdm->get_bin_value(b) : c.pdfs->get_bin_value(b);
}
static float
bin_get_fwd(Case& c, const std::array<int, 5>& k)
{
  return bin_get(c, k);
}
static void
bin_set(Case& c, const Key& k, float v)
{
  Bin b(k[0], k[1], k[2], k[3], k[4], v);
  if (c.pdm)
    c.pdm->set_bin_value(b);
  else
    c.pdfs->set_bin_value(b);
}

// ---------------------------------------------------------------------------------------------------
static bool
build_case(Case& c, vh::Rng& rng, const std::string& outdir, int index, const std::string& backing)
{
  c.backing = backing;
  // ---- geometry
  static const int Ns[] = { 8, 10, 12, 16 };
  const int N = Ns[rng.range(0, 3)];
  const int R = rng.range(2, 5);
  int tofbins = -1, mash = 0;
  switch (rng.range(0, 5))
    {
    case 0: tofbins = 5; mash = 1; break;
    case 1: tofbins = 9; mash = 3; break;
    case 2: tofbins = 3; mash = 1; break;
    default: break;
    }
  const int span = (R >= 3 && rng.range(0, 2) == 0) ? 3 : 1;
  int max_delta = rng.range(0, R - 1);
  if (span == 3)
    max_delta = (R - 1 >= 4 && rng.coin()) ? 4 : 1; // whole segments only
  int num_views = N / 2;
  if (rng.range(0, 3) == 0 && (N / 2) % 2 == 0)
    num_views = N / 4;
  const int num_tang = rng.range(2, std::max(2, N / 2 - 1));
  shared_ptr<Scanner> scanner = vh::make_scanner(N, R, tofbins);
  c.arc = rng.range(0, 3) == 0;
  try
    {
      c.pdi = vh::make_pdi(scanner, span, max_delta, num_views, num_tang, c.arc, mash);
    }
  catch (...)
    {
      return false;
    }
  c.symmetric_ok = true;
  // trimmed / shifted index ranges (not for Interfile: the header cannot describe them)
  if (backing != "if" && rng.range(0, 2) == 0)
    {
      shared_ptr<ProjDataInfo> p = c.pdi->create_shared_clone();
      shared_ptr<ProjDataInfo> w = c.pdi->create_shared_clone(); // same edits, but the segment range is kept
      if (rng.coin() && p->get_max_segment_num() >= 1)
        {
          // really narrower than the twin `w`: at the lower end, at the upper end, or at both
          const int mode = rng.range(0, 2);
          int lo = p->get_min_segment_num(), hi = p->get_max_segment_num();
          if (mode != 1 && lo < 0)
            lo = rng.range(lo + 1, 0);
          if (mode != 0 || lo == p->get_min_segment_num())
            hi = rng.range(0, hi - 1);
          p->reduce_segment_range(lo, hi);
        }
      for (int s = p->get_min_segment_num(); s <= p->get_max_segment_num(); ++s)
        if (p->get_num_axial_poss(s) >= 3 && rng.range(0, 2) == 0)
          {
            if (rng.coin())
              {
                p->set_min_axial_pos_num(p->get_min_axial_pos_num(s) + 1, s);
                w->set_min_axial_pos_num(w->get_min_axial_pos_num(s) + 1, s);
              }
            else
              {
                p->set_max_axial_pos_num(p->get_max_axial_pos_num(s) - 1, s);
                w->set_max_axial_pos_num(w->get_max_axial_pos_num(s) - 1, s);
              }
          }
      if (rng.coin())
        {
          const int shift = rng.range(-1, 2);
          const int grow = rng.range(0, 1);
          p->set_min_tangential_pos_num(p->get_min_tangential_pos_num() + shift);
          p->set_max_tangential_pos_num(p->get_max_tangential_pos_num() + shift + grow);
          w->set_min_tangential_pos_num(w->get_min_tangential_pos_num() + shift);
          w->set_max_tangential_pos_num(w->get_max_tangential_pos_num() + shift + grow);
        }
      c.pdi = p;
      c.pdi_wide = w;
      c.symmetric_ok = false;
    }
  if (!c.pdi_wide)
    c.pdi_wide = c.pdi->create_shared_clone();
  const ProjDataInfo& p = *c.pdi;
  c.minSeg = p.get_min_segment_num();
  c.maxSeg = p.get_max_segment_num();
  c.minView = p.get_min_view_num();
  c.numViews = p.get_num_views();
  c.minTang = p.get_min_tangential_pos_num();
  c.numTang = p.get_num_tangential_poss();
  c.minTof = p.get_min_tof_pos_num();
  c.maxTof = p.get_max_tof_pos_num();
  c.numTof = p.get_num_tof_poss();
  c.total = 0;
  for (int s = c.minSeg; s <= c.maxSeg; ++s)
    {
      c.minAx[s] = p.get_min_axial_pos_num(s);
      c.numAx[s] = p.get_num_axial_poss(s);
      c.total += static_cast<long>(c.numAx[s]) * c.numViews * c.numTang;
    }
  c.total *= (c.maxTof - c.minTof + 1);
  if (c.numViews < 2 || c.numTang < 2 || c.numAx[0] < 2 || c.total > 12000)
    return false;

  // ---- exam info (only fields the Interfile projection-data header stores)
  c.exam.reset(new ExamInfo(ImagingModality::PT));
  {
    static const PatientPosition::PositionValue pos[] = { PatientPosition::HFS, PatientPosition::HFP, PatientPosition::FFS, PatientPosition::FFP };
    c.exam->patient_position = PatientPosition(pos[rng.range(0, 3)]);
    TimeFrameDefinitions tf;
    c.nframes = rng.range(0, 2) == 0 ? rng.range(2, 3) : 1;
    tf.set_num_time_frames(c.nframes);
    double start = rng.range(0, 50);
    for (int f = 1; f <= c.nframes; ++f)
      {
        const double end = start + rng.range(1, 900);
        tf.set_time_frame(f, start, end);
        start = end + rng.range(0, 30);
      }
    c.exam->set_time_frame_definitions(tf);
    c.exam->set_low_energy_thres(static_cast<float>(rng.range(300, 450)));
    c.exam->set_high_energy_thres(static_cast<float>(rng.range(550, 700)));
    // an unspecified radionuclide is read back as the PET default (F-18): name it explicitly
    RadionuclideDB db;
    c.exam->set_radionuclide(db.get_radionuclide(ImagingModality(ImagingModality::PT), "^18^Fluorine"));
  }

  // ---- layout
  c.order = rng.range(0, 1);
  static const NumericType::Type types[] = { NumericType::FLOAT, NumericType::SHORT, NumericType::USHORT, NumericType::INT };
  c.type = NumericType(types[rng.range(0, 3)]);
  c.bo = rng.coin() ? ByteOrder::little_endian : ByteOrder::big_endian;
  static const long offs[] = { 0, 0, 12, 37, 256 };
  c.offset = offs[rng.range(0, 4)];
  for (int s = c.minSeg; s <= c.maxSeg; ++s)
    c.seq.push_back(s);
  for (std::size_t i = c.seq.size(); i > 1; --i) // Fisher-Yates
    std::swap(c.seq[i - 1], c.seq[rng.range(0, static_cast<int>(i) - 1)]);
  if (rng.range(0, 4) == 0)
    c.seq = ProjData::standard_segment_sequence(p);
  const ProjDataFromStream::StorageOrder so
      = c.order == 0 ? ProjDataFromStream::Segment_AxialPos_View_TangPos : ProjDataFromStream::Segment_View_AxialPos_TangPos;
  // scale factor: integer on-disk types store value/scale; values are generated as k*scale (exact).
  // float stores (scale factor stays 1: write_data ignores it for float -> float) also get half-integers
  {
    const int pick = rng.range(0, 3);
    if (backing != "mem" && c.type.id != NumericType::FLOAT)
      {
        if (pick == 2)
          {
            c.scale = 0.5f;
            c.scale_p = 1;
            c.scale_q = 2;
          }
        else if (pick == 3)
          {
            c.scale = 3.f;
            c.scale_p = 3;
            c.scale_q = 1;
          }
        c.unit = c.scale;
      }
    else if (pick == 3)
      c.unit = 0.5f;
  }

  if (backing == "mem")
    {
      c.order = 0;
      c.type = NumericType(NumericType::FLOAT);
      c.bo = ByteOrder::native;
      c.offset = 0;
      c.esize = 4;
      c.seq = ProjData::standard_segment_sequence(p);
      c.pdm = new ProjDataInMemory(c.exam, c.pdi);
      c.pd.reset(c.pdm);
    }
  else
    {
      c.esize = static_cast<int>(c.type.size_in_bytes());
      Bytes init(static_cast<std::size_t>(c.offset + c.total * c.esize + GUARD), 0);
      for (long i = 0; i < c.offset; ++i)
        init[i] = 0xAB;
      for (int i = 0; i < GUARD; ++i)
        init[init.size() - 1 - i] = 0xCD;
      if (backing == "ss")
        {
          c.ss.reset(new std::stringstream(std::string(init.begin(), init.end()), std::ios::in | std::ios::out | std::ios::binary));
          c.pdfs = new ProjDataFromStream(c.exam, c.pdi, c.ss, c.offset, c.seq, so, c.type, c.bo, c.scale);
          c.pd.reset(c.pdfs);
        }
      else if (backing == "fs")
        {
          c.datafile = outdir + "/c02_" + std::to_string(static_cast<long>(getpid())) + "_case" + std::to_string(index) + ".dat";
          {
            std::ofstream f(c.datafile.c_str(), std::ios::binary | std::ios::trunc);
            f.write(reinterpret_cast<const char*>(init.data()), init.size());
          }
          c.fs.reset(new std::fstream(c.datafile.c_str(), std::ios::in | std::ios::out | std::ios::binary));
          c.pdfs = new ProjDataFromStream(c.exam, c.pdi, c.fs, c.offset, c.seq, so, c.type, c.bo, c.scale);
          c.pd.reset(c.pdfs);
        }
      else
        { // "if": ProjDataInterfile creates header + data file itself (offset 0)
          c.offset = 0;
          c.headerfile = outdir + "/c02_" + std::to_string(static_cast<long>(getpid())) + "_case" + std::to_string(index) + ".hs";
          c.datafile = outdir + "/c02_" + std::to_string(static_cast<long>(getpid())) + "_case" + std::to_string(index) + ".s";
          std::remove(c.datafile.c_str());
          try
            {
              c.ifp = new InterfileProbe(c.exam, c.pdi, c.headerfile, std::ios::in | std::ios::out | std::ios::trunc, c.seq, so, c.type, c.bo, c.scale);
            }
          catch (...)
            {
              // TOF data in Segment_AxialPos_View_TangPos order: write_basic_interfile_PDFS_header reports
              // "unsupported storage order" (an error, not silent corruption) -> use the other order
              std::fprintf(g_orc, "INFO interfile header writer rejects TOF data in Segment_AxialPos_View_TangPos order (reported error)\n");
              if (!(c.numTof > 1 && c.order == 0))
                {
                  oracle_fail("case " + std::to_string(index), "ProjDataInterfile constructor threw for a supported layout");
                  return false;
                }
              c.order = 1;
              c.ifp = new InterfileProbe(c.exam, c.pdi, c.headerfile, std::ios::in | std::ios::out | std::ios::trunc, c.seq,
                                         ProjDataFromStream::Segment_View_AxialPos_TangPos, c.type, c.bo, c.scale);
            }
          c.pdfs = c.ifp;
          c.pd.reset(c.ifp);
          // the data file starts empty: give it its full size (zeros) through the stream the object owns, so that
          // reads before the first write do not hit end-of-file (same initial state as the other stream backings)
          {
            const std::vector<char> z(static_cast<std::size_t>(c.total * c.esize), 0);
            c.ifp->stream().seekp(0, std::ios::beg);
            c.ifp->stream().write(z.data(), z.size());
            c.ifp->stream().flush();
          }
        }
    }
  if (c.pdfs)
    {
      c.seq = c.pdfs->get_segment_sequence_in_stream();
      c.tofseq = c.pdfs->get_timing_poss_sequence_in_stream();
      const ProjDataFromStream::StorageOrder o = c.pdfs->get_storage_order();
      c.order = (o == ProjDataFromStream::Segment_AxialPos_View_TangPos || o == ProjDataFromStream::Timing_Segment_AxialPos_View_TangPos) ? 0 : 1;
    }
  else
    {
      for (int k = c.minTof; k <= c.maxTof; ++k)
        c.tofseq.push_back(k);
    }
  if (c.symmetric_ok && c.minSeg == -c.maxSeg)
    {
      shared_ptr<DiscretisedDensity<3, float>> image = vh::make_image(p, 1.F, 5, 2 * R - 1);
      const int flags = rng.range(0, 7);
      try
        {
          c.sym.reset(new DataSymmetriesForBins_PET_CartesianGrid(c.pdi, image, flags & 1, flags & 2, flags & 4, true, true));
        }
      catch (...)
        {
          c.sym.reset();
        }
    }
  for (int k = c.minTof; k <= c.maxTof; ++k)
    for (int s = c.minSeg; s <= c.maxSeg; ++s)
      for (const Key& b : bins_seg_by_sino(c, s, k))
        c.ref[b] = 0.f;
  c.img = c.image();
  return true;
}

// view = max+1 for (first segment, first axial position, first TOF bin of the stream): does the unchecked alias stay inside the store?
static bool
view_hi_alias_inside(const Case& c)
{
  // AxialPos_View order: lands in the next sinogram (segment 0 has >= 2 axial positions, so there are >= 2 sinograms);
  // View_AxialPos order: lands just behind this segment's block: needs another segment or TOF block behind it
  return c.order == 0 || c.seq.size() > 1 || c.maxTof > c.minTof;
}

// does the implementation reject out-of-range view / tangential requests?  (read-only probes that alias inside the store)
static void
probe_range_checks(Case& c)
{
  const int s0 = c.seq[0];
  try
    {
      bin_get(c, Key{ s0, c.minView, c.minAx[s0], c.maxTang() + 1, c.tof0() });
      c.chkt = false;
    }
  catch (...)
    {
      c.chkt = true;
    }
  c.chkv = c.chkt;
  if (view_hi_alias_inside(c))
    {
      try
        {
          bin_get(c, Key{ s0, c.maxView() + 1, c.minAx[s0], c.minTang, c.tof0() });
          c.chkv = false;
        }
      catch (...)
        {
          c.chkv = true;
        }
    }
}

static bool g_fb = false; // does set_bin_value make its value visible (flush)?

// does set_segment reject a segment container with one axial position too many?
static void
probe_segment_size_check()
{
  shared_ptr<Scanner> scanner = vh::make_scanner(8, 3);
  shared_ptr<ProjDataInfo> pdi = vh::make_pdi(scanner, 1, 1, 4, 3, false, 0);
  shared_ptr<ExamInfo> exam(new ExamInfo(ImagingModality::PT));
  shared_ptr<ProjDataInfo> big = pdi->create_shared_clone();
  big->set_max_axial_pos_num(pdi->get_max_axial_pos_num(0) + 1, 0);
  for (int which = 0; which < 2; ++which)
    {
      shared_ptr<ProjData> pd;
      if (which == 0)
        pd.reset(new ProjDataInMemory(exam, pdi));
      else
        {
          shared_ptr<std::stringstream> ss(new std::stringstream(std::string(8192, '\0'), std::ios::in | std::ios::out | std::ios::binary));
          pd.reset(new ProjDataFromStream(exam, pdi, ss, 0, ProjDataFromStream::Segment_AxialPos_View_TangPos, NumericType::FLOAT, ByteOrder::native));
        }
      bool rejected = false;
      try
        {
          SegmentBySinogram<float> seg = big->get_empty_segment_by_sinogram(0, false, 0);
          seg.fill(1.f);
          rejected = pd->set_segment(seg) != Succeeded::yes;
        }
      catch (...)
        {
          rejected = true;
        }
      (which == 0 ? g_chkseg_mem : g_chkseg_pdfs) = rejected;
      // a segment container with the right NUMBER of tangential positions but a shifted range
      shared_ptr<ProjDataInfo> sh = pdi->create_shared_clone();
      sh->set_min_tangential_pos_num(pdi->get_min_tangential_pos_num() + 1);
      sh->set_max_tangential_pos_num(pdi->get_max_tangential_pos_num() + 1);
      rejected = false;
      try
        {
          SegmentBySinogram<float> seg = sh->get_empty_segment_by_sinogram(0, false, 0);
          seg.fill(1.f);
          rejected = pd->set_segment(seg) != Succeeded::yes;
        }
      catch (...)
        {
          rejected = true;
        }
      (which == 0 ? g_chksegt_mem : g_chksegt_pdfs) = rejected;
    }
}

// does set_bin_value honour the stream's scale factor (as get_bin_value and every other set_* do)?
static void
probe_bin_scale()
{
  shared_ptr<Scanner> scanner = vh::make_scanner(8, 2);
  shared_ptr<ProjDataInfo> pdi = vh::make_pdi(scanner, 1, 0, 4, 3, false, 0);
  shared_ptr<ExamInfo> exam(new ExamInfo(ImagingModality::PT));
  shared_ptr<std::stringstream> ss(new std::stringstream(std::string(4096, '\0'), std::ios::in | std::ios::out | std::ios::binary));
  ProjDataFromStream pd(exam, pdi, ss, 0, ProjDataFromStream::Segment_View_AxialPos_TangPos, NumericType::SHORT, ByteOrder::native, 3.f);
  Bin b(0, 1, 1, 0, 0, 6.f);
  try
    {
      pd.set_bin_value(b);
      g_sbs = pd.get_bin_value(b) == 6.f;
    }
  catch (...)
    {
      g_sbs = false;
    }
}

static void
probe_flush(const std::string& outdir)
{
  shared_ptr<Scanner> scanner = vh::make_scanner(8, 2);
  shared_ptr<ProjDataInfo> pdi = vh::make_pdi(scanner, 1, 0, 4, 3, false, 0);
  shared_ptr<ExamInfo> exam(new ExamInfo(ImagingModality::PT));
  const std::string fn = outdir + "/c02_" + std::to_string(static_cast<long>(getpid())) + "_flushprobe.dat";
  {
    std::ofstream f(fn.c_str(), std::ios::binary | std::ios::trunc);
    const std::vector<char> z(4096, 0);
    f.write(z.data(), z.size());
  }
  shared_ptr<std::fstream> fs(new std::fstream(fn.c_str(), std::ios::in | std::ios::out | std::ios::binary));
  ProjDataFromStream pd(exam, pdi, fs, 0, ProjDataFromStream::Segment_View_AxialPos_TangPos, NumericType::FLOAT, ByteOrder::native);
  Bin b(0, 1, 1, 0, 0, 7.f);
  pd.set_bin_value(b);
  std::ifstream f(fn.c_str(), std::ios::binary);
  Bytes bytes((std::istreambuf_iterator<char>(f)), std::istreambuf_iterator<char>());
  g_fb = false;
  for (unsigned char x : bytes)
    if (x)
      g_fb = true;
}

static void
write_cfg(Case& c)
{
  std::ostringstream s;
  s << "cfg " << c.backing << " " << c.order << " " << (c.backing == "mem" ? 1 : c.esize) << " " << c.offset << " " << c.minSeg << " "
    << c.maxSeg << " " << c.minView << " " << c.numViews << " " << c.minTang << " " << c.numTang << " " << c.minTof << " " << c.maxTof
    << " " << c.numTof << " " << (c.chkv ? 1 : 0) << " " << (c.chkt ? 1 : 0) << " " << (g_fb ? 1 : 0) << " " << type_name(c) << " "
    << (c.backing == "mem" ? "native" : (c.bo == ByteOrder::little_endian ? "little" : "big"));
  s << " scale " << c.scale_p << " " << c.scale_q << " " << (g_sbs ? 1 : 0) << " " << ((c.pdm ? g_chkseg_mem : g_chkseg_pdfs) ? 1 : 0)
    << " " << ((c.pdm ? g_chksegt_mem : g_chksegt_pdfs) ? 1 : 0);
  s << " seq";
  for (int x : c.seq)
    s << " " << x;
  s << " ax";
  for (int x = c.minSeg; x <= c.maxSeg; ++x)
    s << " " << c.minAx[x] << ":" << c.numAx[x];
  s << " tofseq";
  for (int x : c.tofseq)
    s << " " << x;
  c.cfgline = s.str();
  // implementation's own total: ProjData::size_all() (number of bins) -- model recomputes it from the layout
  emit(c.cfgline, "slots " + std::to_string(static_cast<long>(c.pd->size_all())));
}


// ===================================================================================================
// EXTENSION: operations added to close coverage gaps
//   bulk <kind> <fast> <a> <b> [y v..] [x v..] [A v..] [B v..]
//        ProjData::sapyb/xapyb/axpby (scalar and element-wise), operator+=,-=,*=,/= with ProjData and float,
//        and the ProjDataInMemory buffer specialisations (fast=1: destination and all operands are ProjDataInMemory).
//        Operand values are listed in the order the generic code reads them (TOF slowest, segments increasing,
//        SegmentBySinogram); the operands themselves are ProjDataInMemory or ProjDataFromStream objects with their
//        OWN random layout (storage order, segment permutation, byte order, offset).
//   subset <n> <views..>    ProjData::get_subset: content of the returned ProjDataInMemory in buffer order
//   tomem <how>             ProjDataInMemory(const ProjData&) [0], copy constructor [1], ProjDataInMemory::read_from_file [2]
//   fillsrc <v..>           fill(const ProjData&) from a stream with another layout and/or a wider segment range
//   getvo / getso / setvo   make_num_tangential_poss_odd = true
//   setv / sets / setss / setsv with a view / axial position / segment outside the ranges (must be rejected)
//   setssx / setsvx         set_segment with a segment container that has one axial position too many (must be rejected)
//   setc <setter> <seg> <view|ax> <tof> <cMinAx> <cMaxAx> <cNumViews> <cMinTang> <cMaxTang> <value> [n view seg ..]
//        set_viewgram / set_sinogram / set_segment (both overloads) / set_related_viewgrams given a container whose OWN
//        ProjDataInfo has the index ranges listed (right size but shifted by +-1 / +-k, or smaller): must be refused and
//        change no byte
//   hdr2                    write_basic_interfile_PDFS_header on a stream with non-zero offset -> ProjData::read_from_file
// ===================================================================================================

static std::vector<Key>
bins_all_of(const ProjDataInfo& p)
{
  std::vector<Key> r;
  for (int k = p.get_min_tof_pos_num(); k <= p.get_max_tof_pos_num(); ++k)
    for (int s : ProjData::standard_segment_sequence(p))
      for (int a = p.get_min_axial_pos_num(s); a <= p.get_max_axial_pos_num(s); ++a)
        for (int v = p.get_min_view_num(); v <= p.get_max_view_num(); ++v)
          for (int t = p.get_min_tangential_pos_num(); t <= p.get_max_tangential_pos_num(); ++t)
            r.push_back(Key{ s, v, a, t, k });
  return r;
}
// order of ProjData::xapyb / apply_func: TOF slowest, segments increasing, SegmentBySinogram
static std::vector<Key>
bins_bulk(const Case& c)
{
  std::vector<Key> r;
  for (int k = c.minTof; k <= c.maxTof; ++k)
    for (int s = c.minSeg; s <= c.maxSeg; ++s)
      {
        const std::vector<Key> b = bins_seg_by_sino(c, s, k);
        r.insert(r.end(), b.begin(), b.end());
      }
  return r;
}
// order of ProjData::fill(const ProjData&): segments increasing, TOF, SegmentByView
static std::vector<Key>
bins_fillpd(const Case& c)
{
  std::vector<Key> r;
  for (int s = c.minSeg; s <= c.maxSeg; ++s)
    for (int k = c.minTof; k <= c.maxTof; ++k)
      {
        const std::vector<Key> b = bins_seg_by_view(c, s, k);
        r.insert(r.end(), b.begin(), b.end());
      }
  return r;
}

// another projection-data object holding `vals` (bins not listed: 0): in memory (kind 0) or a float stream with its own
// random layout (kind 1)
static shared_ptr<ProjData>
make_operand(Case& c, vh::Rng& rng, const std::map<Key, float>& vals, int kind, const shared_ptr<ProjDataInfo>& pdi)
{
  shared_ptr<ProjData> r;
  if (kind == 0)
    r.reset(new ProjDataInMemory(c.exam, pdi));
  else
    {
      const ProjDataInfo& p = *pdi;
      std::vector<int> seq;
      for (int s = p.get_min_segment_num(); s <= p.get_max_segment_num(); ++s)
        seq.push_back(s);
      for (std::size_t i = seq.size(); i > 1; --i)
        std::swap(seq[i - 1], seq[rng.range(0, static_cast<int>(i) - 1)]);
      const long off = rng.coin() ? 0 : 20;
      const std::size_t total = static_cast<std::size_t>(p.size_all());
      shared_ptr<std::stringstream> ss(
          new std::stringstream(std::string(off + total * 4 + 16, '\0'), std::ios::in | std::ios::out | std::ios::binary));
      r.reset(new ProjDataFromStream(c.exam,
                                     pdi,
                                     ss,
                                     off,
                                     seq,
                                     rng.coin() ? ProjDataFromStream::Segment_AxialPos_View_TangPos
                                                : ProjDataFromStream::Segment_View_AxialPos_TangPos,
                                     NumericType::FLOAT,
                                     rng.coin() ? ByteOrder::little_endian : ByteOrder::big_endian,
                                     1.f));
    }
  const std::vector<Key> order = bins_all_of(*pdi);
  std::vector<float> v(order.size());
  for (std::size_t i = 0; i < order.size(); ++i)
    {
      auto it = vals.find(order[i]);
      v[i] = it == vals.end() ? 0.f : it->second;
    }
  r->fill_from(v.begin());
  return r;
}

static std::map<Key, float>
to_map(const std::vector<Key>& b, const std::vector<float>& v)
{
  std::map<Key, float> m;
  for (std::size_t i = 0; i < b.size(); ++i)
    m[b[i]] = v[i];
  return m;
}

static std::vector<float>
small_ints(vh::Rng& rng, std::size_t n, int lo, int hi, bool nonzero)
{
  std::vector<float> v(n);
  for (auto& x : v)
    {
      do
        x = static_cast<float>(rng.range(lo, hi));
      while (nonzero && x == 0.f);
    }
  return v;
}

static bool
has_wider_segments(const Case& c)
{
  return c.pdi_wide->get_min_segment_num() < c.minSeg || c.pdi_wide->get_max_segment_num() > c.maxSeg;
}

// returns false when the operation was not applicable (nothing emitted)
static bool
run_ext_op(Case& c, vh::Rng& rng, int kind)
{
  ProjData& pd = *c.pd;
  auto rseg = [&]() { return rng.range(c.minSeg, c.maxSeg); };
  auto rview = [&]() { return rng.range(c.minView, c.maxView()); };
  auto rtof = [&]() { return rng.range(c.minTof, c.maxTof); };
  auto rax = [&](int s) { return rng.range(c.minAx[s], c.maxAxOf(s)); };
  const bool sgn = g_signed_values;
  std::ostringstream op;
  switch (kind)
    {
    case 0:
    case 1:
    case 2:
    case 3: { // bulk arithmetic
      if (c.total > 3000 && rng.range(0, 3) != 0)
        return false;
      static const char* names[] = { "sapyb", "xapyb", "axpby", "sapybv", "xapybv", "add", "sub", "mul", "div", "addf", "subf", "mulf", "divf" };
      const int kd = rng.range(0, 12);
      const std::vector<Key> bins = bins_bulk(c);
      const std::size_t n = bins.size();
      const bool need_y = kd <= 8, need_x = kd == 1 || kd == 2 || kd == 4, need_AB = kd == 3 || kd == 4;
      float a = 0, b = 0;
      std::vector<float> y, x, A, B;
      if (kd <= 2)
        {
          a = static_cast<float>(rng.range(sgn ? -2 : 0, 3));
          b = static_cast<float>(rng.range(sgn ? -2 : 0, 3));
        }
      else if (kd == 9 || kd == 10)
        a = static_cast<float>(rng.range(sgn ? -50 : 0, 50)) * c.unit;
      else if (kd == 11)
        a = static_cast<float>(rng.range(sgn ? -2 : 0, 3));
      else if (kd == 12)
        {
          const int w = rng.range(0, 2);
          a = w == 0 ? 1.f : w == 1 ? 0.5f : (sgn ? -1.f : 1.f);
        }
      if (need_y)
        {
          if (kd == 7)
            y = small_ints(rng, n, sgn ? -2 : 0, 2, false);
          else if (kd == 8)
            {
              y = small_ints(rng, n, sgn ? -1 : 1, 1, true);
              if (rng.coin())
                for (auto& q : y)
                  if (q == 1.f && rng.range(0, 3) == 0)
                    q = 0.5f;
            }
          else
            y = random_values(rng, n);
        }
      if (need_x)
        x = random_values(rng, n);
      if (need_AB)
        {
          A = small_ints(rng, n, sgn ? -2 : 0, 2, false);
          B = small_ints(rng, n, sgn ? -2 : 0, 2, false);
        }
      // meaning
      std::vector<float> res(n);
      for (std::size_t i = 0; i < n; ++i)
        {
          const float o = c.ref[bins[i]];
          float r = 0;
          switch (kd)
            {
            case 0: r = a * o + b * y[i]; break;
            case 1:
            case 2: r = a * x[i] + b * y[i]; break;
            case 3: r = A[i] * o + B[i] * y[i]; break;
            case 4: r = A[i] * x[i] + B[i] * y[i]; break;
            case 5: r = o + y[i]; break;
            case 6: r = o - y[i]; break;
            case 7: r = o * y[i]; break;
            case 8: r = o / y[i]; break;
            case 9: r = o + a; break;
            case 10: r = o - a; break;
            case 11: r = o * a; break;
            default: r = o / a;
            }
          const float q = r / c.unit;
          if (q != static_cast<float>(static_cast<long>(q)) || std::fabs(q) > 20000.f || (!sgn && r < 0))
            return false; // result would not be exactly representable in the store
          res[i] = r;
        }
      // operands: in memory or streams with their own layout
      const int yk = rng.range(0, 1), xk = rng.range(0, 1), Ak = rng.range(0, 1), Bk = rng.range(0, 1);
      shared_ptr<ProjData> yp, xp, Ap, Bp;
      if (need_y)
        yp = make_operand(c, rng, to_map(bins, y), yk, c.pdi);
      if (need_x)
        xp = make_operand(c, rng, to_map(bins, x), xk, c.pdi);
      if (need_AB)
        {
          Ap = make_operand(c, rng, to_map(bins, A), Ak, c.pdi);
          Bp = make_operand(c, rng, to_map(bins, B), Bk, c.pdi);
        }
      bool fast = c.pdm != nullptr;
      if (need_y && yk != 0)
        fast = false;
      if (need_x && xk != 0)
        fast = false;
      if (need_AB && (Ak != 0 || Bk != 0))
        fast = false;
      if (kd >= 5 && kd <= 8 && c.pdm && yk != 0)
        fast = false;
      op << "bulk " << names[kd] << " " << (fast ? 1 : 0) << " " << num(a) << " " << num(b);
      if (need_y)
        op << " y" << vals_str(y);
      if (need_x)
        op << " x" << vals_str(x);
      if (need_AB)
        op << " A" << vals_str(A) << " B" << vals_str(B);
      const bool via_binary_operator = fast && kd >= 5 && kd <= 12 && rng.coin();
      do_write(
          c, rng, op.str(),
          [&]() {
            if (via_binary_operator)
              { // ProjDataInMemory operator+ ... (copy constructor + compound assignment), then buffer copy back
                const ProjDataInMemory& self = *c.pdm;
                const ProjDataInMemory* ym = dynamic_cast<const ProjDataInMemory*>(yp.get());
                ProjDataInMemory r = kd == 5   ? self + *ym
                                     : kd == 6 ? self - *ym
                                     : kd == 7 ? self * *ym
                                     : kd == 8 ? self / *ym
                                     : kd == 9 ? self + a
                                     : kd == 10 ? self - a
                                     : kd == 11 ? self * a
                                                : self / a;
                c.pdm->fill(r);
                return true;
              }
            switch (kd)
              {
              case 0: pd.sapyb(a, *yp, b); break;
              case 1: pd.xapyb(*xp, a, *yp, b); break;
              case 2: pd.axpby(a, *xp, b, *yp); break;
              case 3: pd.sapyb(*Ap, *yp, *Bp); break;
              case 4: pd.xapyb(*xp, *Ap, *yp, *Bp); break;
              case 5: pd += *yp; break;
              case 6: pd -= *yp; break;
              case 7: pd *= *yp; break;
              case 8: pd /= *yp; break;
              case 9: pd += a; break;
              case 10: pd -= a; break;
              case 11: pd *= a; break;
              default: pd /= a;
              }
            return true;
          },
          zip(bins, res), false, "");
      return true;
    }
    case 4: { // get_subset
      std::vector<int> views;
      for (int v = c.minView; v <= c.maxView(); ++v)
        views.push_back(v);
      for (std::size_t i = views.size(); i > 1; --i)
        std::swap(views[i - 1], views[rng.range(0, static_cast<int>(i) - 1)]);
      views.resize(static_cast<std::size_t>(rng.range(1, c.numViews)));
      if (rng.coin())
        std::sort(views.begin(), views.end());
      op << "subset " << views.size();
      for (int v : views)
        op << " " << v;
      std::vector<Key> bins; // buffer order of the subset
      for (int k = c.minTof; k <= c.maxTof; ++k)
        for (int s : ProjData::standard_segment_sequence(*c.pdi))
          for (int a = c.minAx[s]; a <= c.maxAxOf(s); ++a)
            for (int v : views)
              for (int t = c.minTang; t <= c.maxTang(); ++t)
                bins.push_back(Key{ s, v, a, t, k });
      do_read(
          c, op.str(),
          [&]() {
            const unique_ptr<ProjDataInMemory> sub = pd.get_subset(views);
            const ProjDataInMemory& cs = *sub;
            std::vector<float> r(cs.begin_all(), cs.end_all());
            // a second path through the subset object must agree with its buffer
            std::size_t i = 0;
            for (int k = c.minTof; k <= c.maxTof; ++k)
              for (int s : ProjData::standard_segment_sequence(*c.pdi))
                for (int a = c.minAx[s]; a <= c.maxAxOf(s); ++a)
                  {
                    // (the subset geometry numbers tangential positions from its own default minimum: positional comparison)
                    const Sinogram<float> sg = cs.get_sinogram(a, s, false, k);
                    if (sg.get_num_views() != static_cast<int>(views.size()) || sg.get_num_tangential_poss() != c.numTang)
                      return std::vector<float>();
                    for (int j = sg.get_min_view_num(); j <= sg.get_max_view_num(); ++j)
                      for (int t = sg.get_min_tangential_pos_num(); t <= sg.get_max_tangential_pos_num(); ++t, ++i)
                        if (i < r.size() && sg[j][t] != r[i])
                          r[i] = std::numeric_limits<float>::quiet_NaN();
                  }
            return r;
          },
          bins, false, "");
      return true;
    }
    case 5: { // copies into memory
      if (c.total > 4000 && rng.range(0, 2) != 0)
        return false;
      int how = 0;
      if (c.pdm && rng.coin())
        how = 1;
      else if (c.backing == "if" && rng.coin())
        how = 2;
      op << "tomem " << how;
      do_read(
          c, op.str(),
          [&]() {
            shared_ptr<ProjDataInMemory> m;
            if (how == 0)
              m.reset(new ProjDataInMemory(static_cast<const ProjData&>(pd)));
            else if (how == 1)
              m.reset(new ProjDataInMemory(*c.pdm));
            else
              m = ProjDataInMemory::read_from_file(c.headerfile);
            const ProjDataInMemory& cm = *m;
            if (!(*cm.get_proj_data_info_sptr() == *c.pdi))
              return std::vector<float>();
            return std::vector<float>(cm.begin_all(), cm.end_all());
          },
          bins_all(c), false, "");
      return true;
    }
    case 6: { // fill(const ProjData&) from a differently laid-out / wider source
      if (c.total > 4000 && rng.range(0, 2) != 0)
        return false;
      const std::vector<Key> bins = bins_fillpd(c);
      const std::vector<float> vals = random_values(rng, bins.size());
      const bool wide = has_wider_segments(c) && rng.range(0, 3) != 0;
      const int sk = wide ? rng.range(0, 1) : 1;
      std::map<Key, float> m = to_map(bins, vals);
      if (wide) // the segments this object does not have hold other values
        for (const Key& b : bins_all_of(*c.pdi_wide))
          if (b[0] < c.minSeg || b[0] > c.maxSeg)
            m[b] = 77.f * c.unit;
      if (wide)
        g_hist["sub:fillsrc-wider-source"]++;
      op << "fillsrc" << vals_str(vals);
      do_write(
          c, rng, op.str(),
          [&]() {
            shared_ptr<ProjData> src = make_operand(c, rng, m, sk, wide ? c.pdi_wide : c.pdi);
            pd.fill(*src);
            return true;
          },
          zip(bins, vals), false, "");
      return true;
    }
    case 7: { // make_num_tangential_poss_odd = true
      const int s = rseg(), v = rview(), k = rtof(), a = rax(s);
      const bool even = c.numTang % 2 == 0;
      const int w = rng.range(0, 2);
      if (w == 0)
        {
          std::vector<Key> bins;
          for (int aa = c.minAx[s]; aa <= c.maxAxOf(s); ++aa)
            {
              for (int t = c.minTang; t <= c.maxTang(); ++t)
                bins.push_back(Key{ s, v, aa, t, k });
              if (even)
                bins.push_back(Key{ PAD, 0, 0, 0, 0 });
            }
          op << "getvo " << s << " " << v << " " << k;
          do_read(
              c, op.str(),
              [&]() {
                const Viewgram<float> vg = pd.get_viewgram(v, s, true, k);
                std::vector<float> r;
                for (int aa = vg.get_min_axial_pos_num(); aa <= vg.get_max_axial_pos_num(); ++aa)
                  for (int t = vg.get_min_tangential_pos_num(); t <= vg.get_max_tangential_pos_num(); ++t)
                    r.push_back(vg[aa][t]);
                return r;
              },
              bins, false, "");
        }
      else if (w == 1)
        {
          std::vector<Key> bins;
          for (int vv = c.minView; vv <= c.maxView(); ++vv)
            {
              for (int t = c.minTang; t <= c.maxTang(); ++t)
                bins.push_back(Key{ s, vv, a, t, k });
              if (even)
                bins.push_back(Key{ PAD, 0, 0, 0, 0 });
            }
          op << "getso " << s << " " << a << " " << k;
          do_read(
              c, op.str(),
              [&]() {
                const Sinogram<float> sg = pd.get_sinogram(a, s, true, k);
                std::vector<float> r;
                for (int vv = sg.get_min_view_num(); vv <= sg.get_max_view_num(); ++vv)
                  for (int t = sg.get_min_tangential_pos_num(); t <= sg.get_max_tangential_pos_num(); ++t)
                    r.push_back(sg[vv][t]);
                return r;
              },
              bins, false, "");
        }
      else
        { // a viewgram with one tangential position too many must be rejected; with an odd number the flag does nothing
          const std::vector<Key> bins = bins_viewgram(c, s, v, k);
          const std::vector<float> vals = random_values(rng, bins.size());
          op << "setvo " << s << " " << v << " " << k << vals_str(vals);
          do_write(
              c, rng, op.str(),
              [&]() {
                Viewgram<float> vg = pd.get_empty_viewgram(v, s, true, k);
                vg.fill(213.f * c.unit);
                std::size_t i = 0;
                for (int aa = c.minAx[s]; aa <= c.maxAxOf(s); ++aa)
                  for (int t = c.minTang; t <= c.maxTang(); ++t)
                    vg[aa][t] = vals[i++];
                return pd.set_viewgram(vg) == Succeeded::yes;
              },
              even ? std::vector<std::pair<Key, float>>() : zip(bins, vals), even, "tangential size (make_num_tangential_poss_odd)");
        }
      return true;
    }
    case 9: { // container setters given a container whose OWN index range differs from the data's: right size but shifted
              // by +-1 / +-k, or smaller -- axial, tangential, view (smaller only: no STIR API makes min_view_num != 0)
      static const char* setters[] = { "v", "s", "ss", "sv", "rel" };
      int st = rng.range(0, 4);
      if (st == 4 && !c.sym)
        st = rng.range(0, 3);
      int dim = rng.range(0, 5) % 3; // 0 axial, 1 tangential, 2 view
      if (dim == 2 && (st == 4 || c.numViews < 2 || rng.coin()))
        dim = rng.range(0, 1);
      int s = rseg();
      const int k = rtof();
      std::vector<ViewSegmentNumbers> pairs;
      int idx = 0;
      if (st == 4)
        {
          ViewSegmentNumbers vs(rview(), s);
          c.sym->find_basic_view_segment_numbers(vs);
          c.sym->get_related_view_segment_numbers(pairs, vs);
          bool ok = !pairs.empty();
          for (auto& pr : pairs)
            if (pr.segment_num() < c.minSeg || pr.segment_num() > c.maxSeg || pr.view_num() < c.minView || pr.view_num() > c.maxView())
              ok = false;
          if (!ok)
            return false;
          s = pairs[0].segment_num();
          idx = pairs[0].view_num();
        }
      int a0 = c.minAx[s], a1 = c.maxAxOf(s), nv = c.numViews, t0 = c.minTang, t1 = c.maxTang();
      int mode = rng.range(0, 5); // +1, -1, +k, -k, smaller at the top, smaller at the bottom
      const int kk = rng.range(2, 3);
      const char* mname = "";
      if (dim == 2)
        {
          nv = c.numViews - 1;
          mname = "smaller";
        }
      else
        {
          int& lo = dim == 0 ? a0 : t0;
          int& hi = dim == 0 ? a1 : t1;
          if (mode >= 4 && lo == hi)
            mode = rng.range(0, 3);
          const int d = mode == 0 ? 1 : mode == 1 ? -1 : mode == 2 ? kk : -kk;
          if (mode == 4)
            --hi;
          else if (mode == 5)
            ++lo;
          else
            {
              lo += d;
              hi += d;
            }
          mname = mode >= 4 ? "smaller" : (mode <= 1 ? "shift1" : "shiftk");
        }
      shared_ptr<ProjDataInfo> q = c.pdi->create_shared_clone();
      if (dim == 0)
        {
          q->set_min_axial_pos_num(a0, s);
          q->set_max_axial_pos_num(a1, s);
        }
      else if (dim == 1)
        {
          q->set_min_tangential_pos_num(t0);
          q->set_max_tangential_pos_num(t1);
        }
      else
        q->set_num_views(nv);
      if (st == 0)
        idx = rng.range(0, nv - 1);
      else if (st == 1)
        idx = rng.range(a0, a1);
      const float val = 218.f * c.unit;
      g_hist[std::string("sub:setc-") + setters[st] + "-" + (dim == 0 ? "axial" : dim == 1 ? "tang" : "view") + "-" + mname]++;
      op << "setc " << setters[st] << " " << s << " " << idx << " " << k << " " << a0 << " " << a1 << " " << nv << " " << t0 << " " << t1 << " "
         << num(val);
      if (st == 4)
        {
          op << " " << pairs.size();
          for (auto& pr : pairs)
            op << " " << pr.view_num() << " " << pr.segment_num();
        }
      const bool seg_tang_shift = (st == 2 || st == 3) && dim == 1 && mode < 4;
      do_write(
          c, rng, op.str(),
          [&]() {
            switch (st)
              {
              case 0: {
                Viewgram<float> vg = q->get_empty_viewgram(idx, s, false, k);
                vg.fill(val);
                return pd.set_viewgram(vg) == Succeeded::yes;
              }
              case 1: {
                Sinogram<float> sg = q->get_empty_sinogram(idx, s, false, k);
                sg.fill(val);
                return pd.set_sinogram(sg) == Succeeded::yes;
              }
              case 2: {
                SegmentBySinogram<float> seg = q->get_empty_segment_by_sinogram(s, false, k);
                seg.fill(val);
                return pd.set_segment(seg) == Succeeded::yes;
              }
              case 3: {
                SegmentByView<float> seg = q->get_empty_segment_by_view(s, false, k);
                seg.fill(val);
                return pd.set_segment(seg) == Succeeded::yes;
              }
              default: {
                RelatedViewgrams<float> rv = q->get_empty_related_viewgrams(ViewgramIndices(idx, s, k), c.sym, false, k);
                for (auto it = rv.begin(); it != rv.end(); ++it)
                  it->fill(val);
                return pd.set_related_viewgrams(rv) == Succeeded::yes;
              }
              }
          },
          {}, true,
          seg_tang_shift ? std::string("tangential range of the segment container")
                         : std::string("container index range: ") + (dim == 0 ? "axial " : dim == 1 ? "tangential " : "view ") + mname);
      return true;
    }
    default: { // container setters with an index outside the ranges
      const int w = rng.range(0, 3);
      const bool hi = rng.coin();
      const int s = rseg(), k = rtof();
      const int s0 = c.seq[0];
      if (w == 0)
        { // set_viewgram, view outside
          int ss = s, vv = hi ? c.maxView() + 1 : c.minView - 1, kk = k;
          if (!c.chkv)
            { // without a view check the request aliases: keep the alias inside the store
              if (c.seq.size() < 2)
                return false;
              ss = s0;
              vv = c.maxView() + 1;
              kk = c.tof0();
            }
          const std::vector<float> vals = random_values(rng, bins_viewgram(c, ss, c.minView, kk).size());
          op << "setv " << ss << " " << vv << " " << kk << vals_str(vals);
          do_write(
              c, rng, op.str(),
              [&]() {
                Viewgram<float> vg = pd.get_empty_viewgram(vv, ss, false, kk);
                vg.fill(214.f * c.unit);
                return pd.set_viewgram(vg) == Succeeded::yes;
              },
              {}, true, "view");
        }
      else if (w == 1)
        { // set_sinogram, axial position outside
          const int aa = hi ? c.maxAxOf(s) + 1 : c.minAx[s] - 1;
          const std::vector<float> vals = random_values(rng, bins_sinogram(c, s, c.minAx[s], k).size());
          op << "sets " << s << " " << aa << " " << k << vals_str(vals);
          do_write(
              c, rng, op.str(),
              [&]() {
                Sinogram<float> sg = pd.get_empty_sinogram(aa, s, false, k);
                sg.fill(215.f * c.unit);
                return pd.set_sinogram(sg) == Succeeded::yes;
              },
              {}, true, "axial");
        }
      else if (w == 2)
        { // set_segment, segment outside (the container comes from the wider geometry)
          if (!has_wider_segments(c))
            return false;
          int sb = hi ? c.maxSeg + 1 : c.minSeg - 1;
          if (sb > c.pdi_wide->get_max_segment_num())
            sb = c.minSeg - 1;
          if (sb < c.pdi_wide->get_min_segment_num())
            sb = c.maxSeg + 1;
          if (sb < c.pdi_wide->get_min_segment_num() || sb > c.pdi_wide->get_max_segment_num())
            return false;
          const bool byview = rng.coin();
          g_hist["sub:set_segment-foreign-segment"]++;
          op << (byview ? "setsv " : "setss ") << sb << " " << k << " 0";
          do_write(
              c, rng, op.str(),
              [&]() {
                if (byview)
                  {
                    SegmentByView<float> seg = c.pdi_wide->get_empty_segment_by_view(sb, false, k);
                    seg.fill(216.f * c.unit);
                    return pd.set_segment(seg) == Succeeded::yes;
                  }
                SegmentBySinogram<float> seg = c.pdi_wide->get_empty_segment_by_sinogram(sb, false, k);
                seg.fill(216.f * c.unit);
                return pd.set_segment(seg) == Succeeded::yes;
              },
              {}, true, "segment");
        }
      else
        { // set_segment with a container that has one axial position too many (axial position max+1 is outside the range).
          // First segment of the stream and something stored behind it, so that an unchecked write stays inside the store.
          if (c.seq.size() < 2 && c.numTof < 2)
            return false;
          const int kk = c.numTof > 1 && c.seq.size() < 2 ? c.tofseq[0] : (c.seq.size() >= 2 ? k : c.tofseq[0]);
          const bool byview = rng.coin();
          op << (byview ? "setsvx " : "setssx ") << s0 << " " << kk << " " << num(217.f * c.unit);
          do_write(
              c, rng, op.str(),
              [&]() {
                shared_ptr<ProjDataInfo> big = c.pdi->create_shared_clone();
                big->set_max_axial_pos_num(c.maxAxOf(s0) + 1, s0);
                if (byview)
                  {
                    SegmentByView<float> seg = big->get_empty_segment_by_view(s0, false, kk);
                    seg.fill(217.f * c.unit);
                    return pd.set_segment(seg) == Succeeded::yes;
                  }
                SegmentBySinogram<float> seg = big->get_empty_segment_by_sinogram(s0, false, kk);
                seg.fill(217.f * c.unit);
                return pd.set_segment(seg) == Succeeded::yes;
              },
              {}, true, "axial size of the segment container");
        }
      return true;
    }
    }
}

// ---------------------------------------------------------------------------------------------------
static void
run_history(Case& c, vh::Rng& rng, int len)
{
  ProjData& pd = *c.pd;
  auto rseg = [&]() { return rng.range(c.minSeg, c.maxSeg); };
  auto rview = [&]() { return rng.range(c.minView, c.maxView()); };
  auto rtang = [&]() { return rng.range(c.minTang, c.maxTang()); };
  auto rtof = [&]() { return rng.range(c.minTof, c.maxTof); };
  auto rax = [&](int s) { return rng.range(c.minAx[s], c.maxAxOf(s)); };

  // Interfile starts with an empty data file: the first operation is a fill
  bool force_fill = false;
  for (int step = 0; step < len; ++step)
    {
      int kind = rng.range(0, 43);
      if (force_fill)
        {
          kind = 20;
          force_fill = false;
        }
      if (kind >= 28)
        {
          // 28-31 bulk, 32 subset, 33 tomem, 34 fillsrc, 35-36 make-odd, 37-39 container setters out of range
          // 40-43 container setters given containers with a shifted / smaller index range
          static const int map[] = { 0, 1, 2, 3, 4, 5, 6, 7, 7, 8, 8, 8, 9, 9, 9, 9 };
          if (!run_ext_op(c, rng, map[kind - 28]))
            --step;
          continue;
        }
      std::ostringstream op;
      switch (kind)
        {
        case 0:
        case 1:
        case 2: { // set_bin_value
          const int s = rseg();
          const Key k{ s, rview(), rax(s), rtang(), rtof() };
          const float v = random_values(rng, 1)[0];
          op << "setb " << k[0] << " " << k[1] << " " << k[2] << " " << k[3] << " " << k[4] << " " << num(v);
          do_write(c, rng, op.str(), [&]() { bin_set(c, k, v); return true; }, { std::make_pair(k, v) }, false, "");
          break;
        }
        case 3:
        case 4: { // get_bin_value
          const int s = rseg();
          const Key k{ s, rview(), rax(s), rtang(), rtof() };
          op << "getb " << k[0] << " " << k[1] << " " << k[2] << " " << k[3] << " " << k[4];
          do_read(c, op.str(), [&]() { return std::vector<float>{ bin_get(c, k) }; }, { k }, false, "");
          break;
        }
        case 5:
        case 6: { // set_viewgram
          const int s = rseg(), v = rview(), k = rtof();
          const std::vector<Key> bins = bins_viewgram(c, s, v, k);
          const std::vector<float> vals = random_values(rng, bins.size());
          op << "setv " << s << " " << v << " " << k << vals_str(vals);
          do_write(
              c, rng, op.str(),
              [&]() {
                Viewgram<float> vg = pd.get_empty_viewgram(v, s, false, k);
                std::size_t i = 0;
                for (int a = c.minAx[s]; a <= c.maxAxOf(s); ++a)
                  for (int t = c.minTang; t <= c.maxTang(); ++t)
                    vg[a][t] = vals[i++];
                return pd.set_viewgram(vg) == Succeeded::yes;
              },
              zip(bins, vals), false, "");
          break;
        }
        case 7:
        case 8: { // get_viewgram
          const int s = rseg(), v = rview(), k = rtof();
          op << "getv " << s << " " << v << " " << k;
          do_read(
              c, op.str(),
              [&]() {
                const Viewgram<float> vg = pd.get_viewgram(v, s, false, k);
                std::vector<float> r;
                for (int a = vg.get_min_axial_pos_num(); a <= vg.get_max_axial_pos_num(); ++a)
                  for (int t = vg.get_min_tangential_pos_num(); t <= vg.get_max_tangential_pos_num(); ++t)
                    r.push_back(vg[a][t]);
                return r;
              },
              bins_viewgram(c, s, v, k), false, "");
          break;
        }
        case 9:
        case 10: { // set_sinogram
          const int s = rseg(), a = rax(s), k = rtof();
          const std::vector<Key> bins = bins_sinogram(c, s, a, k);
          const std::vector<float> vals = random_values(rng, bins.size());
          op << "sets " << s << " " << a << " " << k << vals_str(vals);
          do_write(
              c, rng, op.str(),
              [&]() {
                Sinogram<float> sg = pd.get_empty_sinogram(a, s, false, k);
                std::size_t i = 0;
                for (int v = c.minView; v <= c.maxView(); ++v)
                  for (int t = c.minTang; t <= c.maxTang(); ++t)
                    sg[v][t] = vals[i++];
                return pd.set_sinogram(sg) == Succeeded::yes;
              },
              zip(bins, vals), false, "");
          break;
        }
        case 11:
        case 12: { // get_sinogram
          const int s = rseg(), a = rax(s), k = rtof();
          op << "gets " << s << " " << a << " " << k;
          do_read(
              c, op.str(),
              [&]() {
                const Sinogram<float> sg = pd.get_sinogram(a, s, false, k);
                std::vector<float> r;
                for (int v = sg.get_min_view_num(); v <= sg.get_max_view_num(); ++v)
                  for (int t = sg.get_min_tangential_pos_num(); t <= sg.get_max_tangential_pos_num(); ++t)
                    r.push_back(sg[v][t]);
                return r;
              },
              bins_sinogram(c, s, a, k), false, "");
          break;
        }
        case 13: { // set_segment (by view)
          const int s = rseg(), k = rtof();
          const std::vector<Key> bins = bins_seg_by_view(c, s, k);
          const std::vector<float> vals = random_values(rng, bins.size());
          op << "setsv " << s << " " << k << vals_str(vals);
          do_write(
              c, rng, op.str(),
              [&]() {
                SegmentByView<float> seg = pd.get_empty_segment_by_view(s, false, k);
                std::size_t i = 0;
                for (int v = c.minView; v <= c.maxView(); ++v)
                  for (int a = c.minAx[s]; a <= c.maxAxOf(s); ++a)
                    for (int t = c.minTang; t <= c.maxTang(); ++t)
                      seg[v][a][t] = vals[i++];
                return pd.set_segment(seg) == Succeeded::yes;
              },
              zip(bins, vals), false, "");
          break;
        }
        case 14: { // get_segment_by_view
          const int s = rseg(), k = rtof();
          op << "getsv " << s << " " << k;
          do_read(
              c, op.str(),
              [&]() {
                const SegmentByView<float> seg = pd.get_segment_by_view(s, k);
                std::vector<float> r;
                for (int v = seg.get_min_view_num(); v <= seg.get_max_view_num(); ++v)
                  for (int a = seg.get_min_axial_pos_num(); a <= seg.get_max_axial_pos_num(); ++a)
                    for (int t = seg.get_min_tangential_pos_num(); t <= seg.get_max_tangential_pos_num(); ++t)
                      r.push_back(seg[v][a][t]);
                return r;
              },
              bins_seg_by_view(c, s, k), false, "");
          break;
        }
        case 15: { // set_segment (by sinogram)
          const int s = rseg(), k = rtof();
          const std::vector<Key> bins = bins_seg_by_sino(c, s, k);
          const std::vector<float> vals = random_values(rng, bins.size());
          op << "setss " << s << " " << k << vals_str(vals);
          do_write(
              c, rng, op.str(),
              [&]() {
                SegmentBySinogram<float> seg = pd.get_empty_segment_by_sinogram(s, false, k);
                std::size_t i = 0;
                for (int a = c.minAx[s]; a <= c.maxAxOf(s); ++a)
                  for (int v = c.minView; v <= c.maxView(); ++v)
                    for (int t = c.minTang; t <= c.maxTang(); ++t)
                      seg[a][v][t] = vals[i++];
                return pd.set_segment(seg) == Succeeded::yes;
              },
              zip(bins, vals), false, "");
          break;
        }
        case 16: { // get_segment_by_sinogram
          const int s = rseg(), k = rtof();
          op << "getss " << s << " " << k;
          do_read(
              c, op.str(),
              [&]() {
                const SegmentBySinogram<float> seg = pd.get_segment_by_sinogram(s, k);
                std::vector<float> r;
                for (int a = seg.get_min_axial_pos_num(); a <= seg.get_max_axial_pos_num(); ++a)
                  for (int v = seg.get_min_view_num(); v <= seg.get_max_view_num(); ++v)
                    for (int t = seg.get_min_tangential_pos_num(); t <= seg.get_max_tangential_pos_num(); ++t)
                      r.push_back(seg[a][v][t]);
                return r;
              },
              bins_seg_by_sino(c, s, k), false, "");
          break;
        }
        case 17:
        case 18:
        case 19: { // related viewgrams (set or get)
          if (!c.sym)
            {
              --step;
              break;
            }
          ViewSegmentNumbers vs(rview(), rseg());
          c.sym->find_basic_view_segment_numbers(vs);
          std::vector<ViewSegmentNumbers> pairs;
          c.sym->get_related_view_segment_numbers(pairs, vs);
          const int k = rtof();
          bool ok = !pairs.empty();
          for (auto& pr : pairs)
            if (pr.segment_num() < c.minSeg || pr.segment_num() > c.maxSeg || pr.view_num() < c.minView || pr.view_num() > c.maxView())
              ok = false;
          if (!ok)
            {
              --step;
              break;
            }
          std::vector<Key> bins;
          std::ostringstream ps;
          for (auto& pr : pairs)
            {
              const std::vector<Key> b = bins_viewgram(c, pr.segment_num(), pr.view_num(), k);
              bins.insert(bins.end(), b.begin(), b.end());
              ps << " " << pr.view_num() << " " << pr.segment_num();
            }
          if (kind == 19)
            {
              op << "getrel " << k << " " << pairs.size() << ps.str();
              do_read(
                  c, op.str(),
                  [&]() {
                    const RelatedViewgrams<float> rv = pd.get_related_viewgrams(ViewgramIndices(vs.view_num(), vs.segment_num(), k), c.sym, false, k);
                    std::vector<float> r;
                    for (auto it = rv.begin(); it != rv.end(); ++it)
                      for (int a = it->get_min_axial_pos_num(); a <= it->get_max_axial_pos_num(); ++a)
                        for (int t = it->get_min_tangential_pos_num(); t <= it->get_max_tangential_pos_num(); ++t)
                          r.push_back((*it)[a][t]);
                    return r;
                  },
                  bins, false, "");
            }
          else
            {
              const std::vector<float> vals = random_values(rng, bins.size());
              op << "setrel " << k << " " << pairs.size() << ps.str() << vals_str(vals);
              do_write(
                  c, rng, op.str(),
                  [&]() {
                    RelatedViewgrams<float> rv = pd.get_empty_related_viewgrams(ViewgramIndices(vs.view_num(), vs.segment_num(), k), c.sym, false, k);
                    std::size_t i = 0;
                    for (auto it = rv.begin(); it != rv.end(); ++it)
                      for (int a = it->get_min_axial_pos_num(); a <= it->get_max_axial_pos_num(); ++a)
                        for (int t = it->get_min_tangential_pos_num(); t <= it->get_max_tangential_pos_num(); ++t)
                          (*it)[a][t] = vals[i++];
                    return pd.set_related_viewgrams(rv) == Succeeded::yes;
                  },
                  zip(bins, vals), false, "");
            }
          break;
        }
        case 20: { // fill(value)
          const float v = random_values(rng, 1)[0];
          op << "fill " << num(v);
          std::vector<std::pair<Key, float>> exp;
          for (auto& kv : c.ref)
            exp.push_back(std::make_pair(kv.first, v));
          do_write(c, rng, op.str(), [&]() { pd.fill(v); return true; }, exp, false, "");
          break;
        }
        case 21: { // fill_from(iterator) / fill(ProjData) : bulk paths
          if (c.total > 4000 && rng.range(0, 2) != 0)
            {
              --step;
              break;
            }
          const std::vector<Key> bins = bins_all(c);
          const std::vector<float> vals = random_values(rng, bins.size());
          const bool via_pd = rng.coin();
          op << (via_pd ? "fillpd" : "fillfrom") << vals_str(vals);
          do_write(
              c, rng, op.str(),
              [&]() {
                if (via_pd)
                  {
                    ProjDataInMemory src(c.exam, c.pdi);
                    src.ProjData::fill_from(vals.begin());
                    pd.fill(src);
                  }
                else if (c.pdm && rng.coin())
                  stir::fill_from(pd, vals.begin(), vals.end()); // copy_fill.h: uses the buffer directly for ProjDataInMemory
                else
                  pd.fill_from(vals.begin());
                return true;
              },
              zip(bins, vals), false, "");
          break;
        }
        case 22: { // copy_to (iteration over everything)
          if (c.total > 4000 && rng.range(0, 2) != 0)
            {
              --step;
              break;
            }
          op << "copyto";
          const int how = rng.range(0, 2);
          do_read(
              c, op.str(),
              [&]() {
                std::vector<float> r(static_cast<std::size_t>(c.total));
                if (how == 0 || !c.pdm)
                  pd.copy_to(r.begin());
                else if (how == 1)
                  stir::copy_to(pd, r.begin());
                else
                  std::copy(const_cast<const ProjDataInMemory*>(c.pdm)->begin_all(), const_cast<const ProjDataInMemory*>(c.pdm)->end_all(), r.begin());
                return r;
              },
              bins_all(c), false, "");
          break;
        }
        default: { // requests outside the index ranges
          const int which = rng.range(0, 9);
          const int s = rseg();
          Key k{ s, rview(), rax(s), rtang(), rtof() };
          std::string what;
          const bool hi = rng.coin();
          const int s0 = c.seq[0];
          switch (which)
            {
            case 0: k[0] = hi ? c.maxSeg + 1 : c.minSeg - 1; what = "segment"; break;
            case 1: k[2] = hi ? c.maxAxOf(s) + 1 : c.minAx[s] - 1; what = "axial"; break;
            case 2: k[4] = hi ? c.maxTof + 1 : c.minTof - 1; what = "tof"; break;
            case 3:
            case 4: // view: choose a bin whose (unchecked) alias stays inside the store
              // (first segment + first TOF bin of the stream, view = max+1: lands one sinogram / one segment further on;
              //  view = min-1 in the AxialPos_View order from the second axial position of segment 0: lands in the sinogram before)
              what = "view";
              if (view_hi_alias_inside(c) && (hi || c.order != 0))
                k = Key{ s0, c.maxView() + 1, c.minAx[s0], rtang(), c.tof0() };
              else if (c.order == 0)
                k = Key{ 0, c.minView - 1, c.minAx[0] + 1, rtang(), rtof() };
              else
                {
                  k = Key{ s0, c.minView, c.minAx[s0], c.maxTang() + 1, c.tof0() };
                  what = "tang";
                }
              break;
            case 5:
            case 6:
              // tang = max+1 on the first row of the stream aliases the next row; tang = min-1 from view min+1 aliases the row before
              if (hi)
                k = Key{ s0, c.minView, c.minAx[s0], c.maxTang() + 1, c.tof0() };
              else
                k = Key{ s, c.minView + 1, rax(s), c.minTang - 1, rtof() };
              what = "tang";
              break;
            default: break;
            }
          if (which <= 6)
            {
              const bool rd = rng.coin();
              if (rd)
                {
                  op << "getb " << k[0] << " " << k[1] << " " << k[2] << " " << k[3] << " " << k[4];
                  do_read(c, op.str(), [&]() { return std::vector<float>{ bin_get(c, k) }; }, {}, true, what);
                }
              else
                {
                  const float v = static_cast<float>(rng.range(201, 250));
                  op << "setb " << k[0] << " " << k[1] << " " << k[2] << " " << k[3] << " " << k[4] << " " << num(v);
                  do_write(c, rng, op.str(), [&]() { bin_set(c, k, v); return true; }, {}, true, what);
                }
            }
          else if (which == 7)
            { // sinogram with out-of-range axial position / viewgram, sinogram, segment with out-of-range TOF index
              const int kk = hi ? c.maxTof + 1 : c.minTof - 1;
              switch (rng.range(0, 4))
                {
                case 0:
                  op << "gets " << s << " " << c.maxAxOf(s) + 1 << " " << k[4];
                  do_read(c, op.str(), [&]() { pd.get_sinogram(c.maxAxOf(s) + 1, s, false, k[4]); return std::vector<float>(); }, {}, true, "axial");
                  break;
                case 1:
                  op << "getv " << s << " " << k[1] << " " << kk;
                  do_read(c, op.str(), [&]() { pd.get_viewgram(k[1], s, false, kk); return std::vector<float>(); }, {}, true, "tof");
                  break;
                case 2:
                  op << "gets " << s << " " << k[2] << " " << kk;
                  do_read(c, op.str(), [&]() { pd.get_sinogram(k[2], s, false, kk); return std::vector<float>(); }, {}, true, "tof");
                  break;
                case 3:
                  op << "getss " << s << " " << kk;
                  do_read(c, op.str(), [&]() { pd.get_segment_by_sinogram(s, kk); return std::vector<float>(); }, {}, true, "tof");
                  break;
                default:
                  op << "getsv " << s << " " << kk;
                  do_read(c, op.str(), [&]() { pd.get_segment_by_view(s, kk); return std::vector<float>(); }, {}, true, "tof");
                }
            }
          else if (which == 8)
            { // write of a viewgram / sinogram labelled with an out-of-range TOF index
              const int kk = hi ? c.maxTof + 1 : c.minTof - 1;
              if (rng.coin())
                {
                  const std::vector<float> vals = random_values(rng, bins_viewgram(c, s, k[1], c.minTof).size());
                  op << "setv " << s << " " << k[1] << " " << kk << vals_str(vals);
                  do_write(
                      c, rng, op.str(),
                      [&]() {
                        Viewgram<float> vg = pd.get_empty_viewgram(k[1], s, false, kk);
                        vg.fill(211.f);
                        return pd.set_viewgram(vg) == Succeeded::yes;
                      },
                      {}, true, "tof");
                }
              else
                {
                  const std::vector<float> vals = random_values(rng, bins_sinogram(c, s, k[2], c.minTof).size());
                  op << "sets " << s << " " << k[2] << " " << kk << vals_str(vals);
                  do_write(
                      c, rng, op.str(),
                      [&]() {
                        Sinogram<float> sg = pd.get_empty_sinogram(k[2], s, false, kk);
                        sg.fill(212.f);
                        return pd.set_sinogram(sg) == Succeeded::yes;
                      },
                      {}, true, "tof");
                }
            }
          else
            { // get_viewgram with view = max+1 for the first segment in the stream (alias stays inside the store)
              if (c.seq.size() < 2)
                {
                  --step;
                  break;
                }
              op << "getv " << s0 << " " << c.maxView() + 1 << " " << c.tof0();
              do_read(
                  c, op.str(),
                  [&]() {
                    const Viewgram<float> vg = pd.get_viewgram(c.maxView() + 1, s0, false, c.tof0());
                    std::vector<float> r;
                    for (int a = vg.get_min_axial_pos_num(); a <= vg.get_max_axial_pos_num(); ++a)
                      for (int t = vg.get_min_tangential_pos_num(); t <= vg.get_max_tangential_pos_num(); ++t)
                        r.push_back(vg[a][t]);
                    return r;
                  },
                  {}, true, "view");
            }
        }
        }
    }
}

// header + data read back by ProjData::read_from_file while the writer is still open: geometry, exam information
// (every time frame), layout description (segment sequence, storage order, number format, byte order, offset,
// scale factor) and values
static std::string
readback_verdict(Case& c, const std::string& headerfile)
{
  std::string verdict = "ok";
  try
    {
      shared_ptr<ProjData> rb = ProjData::read_from_file(headerfile);
      const ProjDataFromStream* pf = dynamic_cast<const ProjDataFromStream*>(rb.get());
      const ExamInfo& e = rb->get_exam_info();
      bool frames_ok = e.time_frame_definitions.get_num_time_frames() == static_cast<unsigned>(c.nframes);
      for (int f = 1; frames_ok && f <= c.nframes; ++f)
        frames_ok = e.time_frame_definitions.get_start_time(f) == c.exam->time_frame_definitions.get_start_time(f)
                    && e.time_frame_definitions.get_end_time(f) == c.exam->time_frame_definitions.get_end_time(f);
      if (!(*rb->get_proj_data_info_sptr() == *c.pdi))
        verdict = "bad:geometry";
      else if ((dynamic_cast<const ProjDataInfoCylindricalArcCorr*>(rb->get_proj_data_info_sptr().get()) != nullptr) != c.arc)
        verdict = "bad:arc-correction";
      else if (!frames_ok)
        verdict = "bad:time-frames";
      else if (!(e == *c.exam))
        verdict = "bad:exam-info";
      else if (!(e.patient_position == c.exam->patient_position) || e.get_low_energy_thres() != c.exam->get_low_energy_thres()
               || e.get_high_energy_thres() != c.exam->get_high_energy_thres()
               || e.imaging_modality.get_modality() != ImagingModality::PT)
        verdict = "bad:exam-info-fields";
      else if (!pf)
        verdict = "bad:type";
      else if (pf->get_segment_sequence_in_stream() != c.seq)
        verdict = "bad:segment-sequence";
      else if (pf->get_storage_order() != c.pdfs->get_storage_order())
        verdict = "bad:storage-order";
      else if (pf->get_data_type_in_stream().id != c.type.id || !(pf->get_byte_order_in_stream() == c.pdfs->get_byte_order_in_stream()))
        verdict = "bad:number-format";
      else if (pf->get_offset_in_stream() != static_cast<std::streamoff>(c.offset))
        verdict = "bad:data-offset";
      else if (pf->get_scale_factor() != c.scale)
        verdict = "bad:scale-factor";
      else
        {
          for (int k = c.minTof; k <= c.maxTof && verdict == "ok"; ++k)
            for (int s = c.minSeg; s <= c.maxSeg && verdict == "ok"; ++s)
              {
                const SegmentByView<float> seg = rb->get_segment_by_view(s, k);
                for (const Key& b : bins_seg_by_view(c, s, k))
                  if (seg[b[1]][b[2]][b[3]] != c.ref[b])
                    {
                      verdict = "bad:values";
                      break;
                    }
              }
        }
    }
  catch (...)
    {
      verdict = "bad:threw";
    }
  return verdict;
}

// header round trip for an Interfile-backed case: the writer is still open
static void
header_roundtrip(Case& c)
{
  ++g_checks;
  const std::string verdict = readback_verdict(c, c.headerfile);
  emit("hdr", verdict);
  if (verdict != "ok")
    oracle_fail(c.cfgline, "header round trip (ProjDataInterfile -> ProjData::read_from_file, writer still open): " + verdict);
}

// header written by write_basic_interfile_PDFS_header for a plain ProjDataFromStream on a file (non-zero data offset,
// scale factor, several time frames, arc-corrected geometries) -> ProjData::read_from_file; the writer is still open
static void
header_roundtrip_offset(Case& c)
{
  ++g_checks;
  const std::string hdr = c.datafile.substr(0, c.datafile.size() - 4) + ".hs";
  std::string verdict;
  try
    {
      if (write_basic_interfile_PDFS_header(hdr, c.datafile, *c.pdfs) != Succeeded::yes)
        verdict = "bad:write";
      else
        verdict = readback_verdict(c, hdr);
    }
  catch (...)
    {
      verdict = "bad:header-writer-threw";
    }
  std::remove(hdr.c_str());
  emit("hdr2", verdict);
  if (verdict != "ok")
    oracle_fail(c.cfgline, "header round trip (write_basic_interfile_PDFS_header on a stream at offset " + std::to_string(c.offset)
                               + " -> ProjData::read_from_file, writer still open): " + verdict);
}

// ProjData::write_to_file (any backing) -> ProjData::read_from_file
static void
write_to_file_roundtrip(Case& c, const std::string& outdir)
{
  std::string verdict = "ok";
  ++g_checks;
  const std::string base = outdir + "/c02_" + std::to_string(static_cast<long>(getpid())) + "_wtf";
  try
    {
      if (c.pd->write_to_file(base + ".hs") != Succeeded::yes)
        verdict = "bad:write";
      else
        {
          shared_ptr<ProjData> rb = ProjData::read_from_file(base + ".hs");
          if (!(*rb->get_proj_data_info_sptr() == *c.pdi))
            verdict = "bad:geometry";
          else if (!(rb->get_exam_info() == *c.exam))
            verdict = "bad:exam-info";
          else
            for (int k = c.minTof; k <= c.maxTof && verdict == "ok"; ++k)
              for (int s = c.minSeg; s <= c.maxSeg && verdict == "ok"; ++s)
                {
                  const SegmentBySinogram<float> seg = rb->get_segment_by_sinogram(s, k);
                  for (const Key& b : bins_seg_by_sino(c, s, k))
                    if (seg[b[2]][b[1]][b[3]] != c.ref[b])
                      {
                        verdict = "bad:values";
                        break;
                      }
                }
        }
    }
  catch (...)
    {
      verdict = "bad:threw";
    }
  std::remove((base + ".hs").c_str());
  std::remove((base + ".s").c_str());
  emit("wtf", verdict);
  if (verdict != "ok")
    oracle_fail(c.cfgline, "ProjData::write_to_file -> ProjData::read_from_file: " + verdict);
}

// exam-information fields the projection-data header does not carry
static void
header_exam_info_extras(const std::string& outdir)
{
  shared_ptr<Scanner> scanner = vh::make_scanner(8, 2);
  shared_ptr<ProjDataInfo> pdi = vh::make_pdi(scanner, 1, 1, 4, 3, false, 0);
  const std::string pid = std::to_string(static_cast<long>(getpid()));
  for (int which = 0; which < 2; ++which)
    {
      shared_ptr<ExamInfo> exam(new ExamInfo(ImagingModality::PT));
      {
        RadionuclideDB db;
        exam->set_radionuclide(db.get_radionuclide(ImagingModality(ImagingModality::PT), "^18^Fluorine"));
        // (a frame definition is needed too: TimeFrameDefinitions::operator== throws std::out_of_range when the
        //  right-hand side has fewer frames, and the header reader always creates one frame)
        TimeFrameDefinitions tf;
        tf.set_num_time_frames(1);
        tf.set_time_frame(1, 0., 60.);
        exam->set_time_frame_definitions(tf);
      }
      if (which == 0)
        exam->start_time_in_secs_since_1970 = 1.0e9;
      else
        exam->set_calibration_factor(2.5f);
      const std::string base = outdir + "/c02_" + pid + "_examinfo" + std::to_string(which);
      bool equal = false, threw = false, field_ok = false;
      try
        {
          {
            ProjDataInterfile pd(exam, pdi, base + ".hs", std::ios::in | std::ios::out | std::ios::trunc);
            pd.fill(1.f);
          }
          shared_ptr<ProjData> rb = ProjData::read_from_file(base + ".hs");
          equal = rb->get_exam_info() == *exam;
          field_ok = which == 0 ? std::fabs(rb->get_exam_info().start_time_in_secs_since_1970 - 1.0e9) <= .5
                                : std::fabs(rb->get_exam_info().get_calibration_factor() - 2.5f) <= 2.5e-3f;
        }
      catch (std::exception& e)
        {
          std::fprintf(g_orc, "INFO hdrx exception: %s\n", e.what());
          threw = true;
        }
      catch (...)
        {
          threw = true;
        }
      std::remove((base + ".hs").c_str());
      std::remove((base + ".s").c_str());
      ++g_checks;
      emit(std::string("hdrx ") + (which == 0 ? "start-time" : "calibration-factor"), "done");
      if (threw)
        oracle_fail("hdrx", "header round trip threw");
      else if (!field_ok)
        {
          if (which == 0)
            known("header:start-time-not-written",
                  "write_basic_interfile_PDFS_header does not write 'study date/time': ExamInfo::start_time_in_secs_since_1970 (1e9) is 0 "
                  "after ProjDataInterfile -> ProjData::read_from_file, so ExamInfo::operator== is false (the image header writer does "
                  "write it)");
          else
            known("header:calibration-factor-not-written",
                  "write_basic_interfile_PDFS_header does not write 'calibration factor': ExamInfo calibration factor 2.5 is -1 after "
                  "ProjDataInterfile -> ProjData::read_from_file, so ExamInfo::operator== is false (the image header writer does write it)");
        }
      else if (!equal)
        oracle_fail("hdrx", std::string("exam information differs after the header round trip although ")
                                + (which == 0 ? "the start time" : "the calibration factor") + " was read back");
    }
}

// EXAM INFORMATION AT ITS BOUNDARY VALUES through both header writers (ProjDataInterfile constructor and
// write_basic_interfile_PDFS_header on a plain stream) -> ProjData::read_from_file, every field compared on its own:
// energy window with low threshold 0, unset (-1/-1), half set, high = low; calibration factor 1 / unset / 0 / tiny;
// originating system empty / the scanner's name; radionuclide unset / named; time frames starting at 0 / fractional;
// every (orientation, rotation) of the patient position including unknown.
static void
header_exam_info_boundaries(vh::Rng& rng, const std::string& outdir, int n)
{
  shared_ptr<Scanner> scanner = vh::make_scanner(8, 2);
  shared_ptr<ProjDataInfo> pdi = vh::make_pdi(scanner, 1, 1, 4, 3, false, 0);
  const std::string pid = std::to_string(static_cast<long>(getpid()));
  RadionuclideDB db;
  const Radionuclide pet_default = db.get_radionuclide(ImagingModality(ImagingModality::PT), "");
  static const float win[][2] = { { 0.f, 650.f }, { -1.f, -1.f }, { -1.f, 650.f }, { 350.f, -1.f }, { 511.f, 511.f }, { 350.f, 650.f }, { 0.f, 1.f } };
  static const float cal[] = { 1.f, -1.f, 1e-6f, 2.5f, 0.f };
  for (int i = 0; i < n; ++i)
    {
      shared_ptr<ExamInfo> exam(new ExamInfo(ImagingModality::PT));
      const float lo = win[i % 7][0], hi = win[i % 7][1];
      exam->set_low_energy_thres(lo);
      exam->set_high_energy_thres(hi);
      const float cf = cal[rng.range(0, 4)];
      exam->set_calibration_factor(cf);
      const int orient = (i % 24) / 6, rot = (i % 24) % 6;
      exam->patient_position
          = PatientPosition(static_cast<PatientPosition::OrientationValue>(orient), static_cast<PatientPosition::RotationValue>(rot));
      const bool sys_set = rng.coin();
      exam->originating_system = sys_set ? scanner->get_name() : std::string();
      const int rn = rng.range(0, 2);
      if (rn != 0)
        {
          Radionuclide r = db.get_radionuclide(ImagingModality(ImagingModality::PT), rn == 1 ? "^18^Fluorine" : "^11^Carbon");
          if (r.get_half_life(false) < 0)
            r = db.get_radionuclide(ImagingModality(ImagingModality::PT), "^18^Fluorine");
          exam->set_radionuclide(r);
        }
      const int nframes = rng.range(1, 3);
      {
        TimeFrameDefinitions tf;
        tf.set_num_time_frames(nframes);
        static const double starts[] = { 0., 0., 0.5, 7. };
        double start = starts[rng.range(0, 3)];
        for (int f = 1; f <= nframes; ++f)
          {
            const double end = start + (rng.range(0, 4) == 0 ? 0.25 : static_cast<double>(rng.range(1, 900)));
            tf.set_time_frame(f, start, end);
            start = end + (rng.coin() ? 0 : 3);
          }
        exam->set_time_frame_definitions(tf);
      }
      const bool half_set = (lo < 0) != (hi < 0);
      for (int which = 0; which < 2; ++which)
        {
          const std::string base = outdir + "/c02_" + pid + "_exb" + std::to_string(which);
          std::string bad;
          bool window_dropped = false;
          try
            {
              shared_ptr<ProjData> keep; // the writer stays open while the pair is read back
              shared_ptr<std::fstream> fs;
              if (which == 0)
                {
                  keep.reset(new ProjDataInterfile(exam, pdi, base + ".hs", std::ios::in | std::ios::out | std::ios::trunc));
                  keep->fill(1.f);
                }
              else
                {
                  {
                    std::ofstream f((base + ".s").c_str(), std::ios::binary | std::ios::trunc);
                    const std::vector<char> z(static_cast<std::size_t>(pdi->size_all()) * 4, 0);
                    f.write(z.data(), z.size());
                  }
                  fs.reset(new std::fstream((base + ".s").c_str(), std::ios::in | std::ios::out | std::ios::binary));
                  ProjDataFromStream* pf = new ProjDataFromStream(exam, pdi, fs, 0, ProjData::standard_segment_sequence(*pdi),
                                                                  ProjDataFromStream::Segment_View_AxialPos_TangPos, NumericType::FLOAT,
                                                                  ByteOrder::native, 1.f);
                  keep.reset(pf);
                  keep->fill(1.f);
                  if (write_basic_interfile_PDFS_header(base + ".hs", base + ".s", *pf) != Succeeded::yes)
                    bad = "header-writer-failed";
                }
              if (bad.empty())
                {
                  shared_ptr<ProjData> rb = ProjData::read_from_file(base + ".hs");
                  const ExamInfo& e = rb->get_exam_info();
                  const TimeFrameDefinitions& tf = exam->time_frame_definitions;
                  bool frames_ok = e.time_frame_definitions.get_num_time_frames() == static_cast<unsigned>(nframes);
                  for (int f = 1; frames_ok && f <= nframes; ++f)
                    frames_ok = e.time_frame_definitions.get_start_time(f) == tf.get_start_time(f)
                                && e.time_frame_definitions.get_end_time(f) == tf.get_end_time(f);
                  const float ecf = e.get_calibration_factor();
                  if (e.get_low_energy_thres() != lo || e.get_high_energy_thres() != hi)
                    {
                      bad = "energy-window [" + num(lo) + "," + num(hi) + "] read back as [" + num(e.get_low_energy_thres()) + ","
                            + num(e.get_high_energy_thres()) + "]";
                      window_dropped = half_set && e.get_low_energy_thres() < 0 && e.get_high_energy_thres() < 0;
                    }
                  else if (!((cf <= 0 && ecf <= 0) || (cf > 0 && std::fabs(ecf / cf - 1.) <= 1e-3)))
                    bad = "calibration-factor " + vh::hex(cf) + " read back as " + vh::hex(ecf);
                  else if (!(e.patient_position == exam->patient_position)
                           || e.patient_position.get_orientation() != exam->patient_position.get_orientation()
                           || e.patient_position.get_rotation() != exam->patient_position.get_rotation())
                    bad = "patient-position orientation " + std::to_string(orient) + " rotation " + std::to_string(rot);
                  else if (!frames_ok)
                    bad = "time-frames";
                  else if (e.originating_system != scanner->get_name()) // (an empty one is written as the scanner's name)
                    bad = "originating-system read back as '" + e.originating_system + "'";
                  else if (e.imaging_modality.get_modality() != ImagingModality::PT)
                    bad = "modality";
                  else if (rn != 0 && (!(e.get_radionuclide() == exam->get_radionuclide()) || e.get_radionuclide().get_name() != exam->get_radionuclide().get_name()))
                    bad = "radionuclide " + exam->get_radionuclide().get_name() + " read back as " + e.get_radionuclide().get_name();
                  else if (rn == 0 && !(e.get_radionuclide() == exam->get_radionuclide()) && !(e.get_radionuclide() == pet_default))
                    bad = "unset radionuclide read back as " + e.get_radionuclide().get_name();
                  else if (rn != 0 && !(e == *exam))
                    bad = "ExamInfo::operator== is false although every field was read back";
                  else if (!(*rb->get_proj_data_info_sptr() == *pdi))
                    bad = "geometry";
                  else if (rb->get_viewgram(1, 0)[1][0] != 1.f)
                    bad = "values";
                }
            }
          catch (std::exception& e)
            {
              bad = std::string("threw: ") + std::string(e.what()).substr(0, 100);
            }
          catch (...)
            {
              bad = "threw";
            }
          std::remove((base + ".hs").c_str());
          std::remove((base + ".s").c_str());
          ++g_checks;
          g_hist[std::string("sub:hdrb-window-") + std::to_string(i % 7)]++;
          emit("hdrb " + std::to_string(which) + " win " + num(lo) + " " + num(hi) + " cal " + vh::hex(cf) + " pos " + std::to_string(orient) + " " + std::to_string(rot) + " frames " + std::to_string(nframes) + " rn " + std::to_string(rn),
               (window_dropped || bad.empty()) ? "ok" : "bad");
          const std::string ctx = std::string(which == 0 ? "ProjDataInterfile" : "write_basic_interfile_PDFS_header") + " -> ProjData::read_from_file, case "
                                  + std::to_string(i);
          if (window_dropped)
            known("header:half-set-energy-window-dropped",
                  "write_interfile_energy_windows (src/IO/interfile.cxx; used by write_basic_interfile_PDFS_header) writes the energy window only "
                  "when high > 0 && low >= 0, and InterfileHeader::post_processing reads it back only under the same condition: an ExamInfo "
                  "with only ONE threshold set (low -1/high 650, or low 350/high -1) loses it (read back as [-1,-1]; ExamInfo::operator== is "
                  "false). Repro: ExamInfo e(PT); e.set_high_energy_thres(650); ProjDataInterfile(e, pdi, \"x.hs\"); "
                  "ProjData::read_from_file(\"x.hs\")->get_exam_info().get_high_energy_thres() is -1",
                  ctx);
          else if (!bad.empty())
            oracle_fail(ctx, "exam information differs after the header round trip: " + bad);
        }
    }
}

int
main(int argc, char** argv)
{
  if (argc < 5)
    return 2;
  vh::quiet();
  vh::Rng rng(std::strtoull(argv[1], nullptr, 10) * 2654435761ULL + 2);
  const bool thorough = std::string(argv[2]) == "thorough";
  g_ops = std::fopen(argv[3], "w");
  g_out = std::fopen(argv[4], "w");
  g_orc = std::fopen((std::string(argv[4]) + ".oracle").c_str(), "w");
  std::string outdir = argv[3];
  outdir = outdir.substr(0, outdir.find_last_of('/'));
  if (outdir.empty() || outdir == argv[3])
    outdir = ".";

  probe_flush(outdir);
  probe_bin_scale();
  probe_segment_size_check();

  const int ncases = thorough ? 3000 : 160;
  const int len = thorough ? 80 : 30;
  static const char* backs[] = { "ss", "fs", "if", "mem", "ss", "fs", "if", "ss" };
  int done = 0, tries = 0;
  while (done < ncases && tries < 20 * ncases)
    {
      ++tries;
      Case c;
      const std::string backing = backs[done % 8];
      bool ok = false;
      try
        {
          ok = build_case(c, rng, outdir, done, backing);
        }
      catch (...)
        {
          ok = false;
        }
      if (!ok)
        continue;
      g_signed_values = c.backing == "mem" || c.type.id != NumericType::USHORT;
      g_unit = c.unit;
      if (c.arc)
        g_hist["case:arc-corrected"]++;
      if (c.scale != 1.f)
        g_hist["case:scale-factor-not-1"]++;
      if (c.unit == 0.5f && c.scale == 1.f)
        g_hist["case:float-half-integers"]++;
      if (c.nframes > 1)
        g_hist["case:several-time-frames"]++;
      if (has_wider_segments(c))
        g_hist["case:wider-source-available"]++;
      probe_range_checks(c);
      write_cfg(c);
      run_history(c, rng, len);
      if (c.backing == "if")
        header_roundtrip(c);
      else
        {
          // (the header cannot describe trimmed index ranges, and its writer rejects TOF data in AxialPos_View order)
          if (c.backing == "fs" && c.symmetric_ok && !(c.numTof > 1 && c.order == 0))
            header_roundtrip_offset(c);
          if (c.symmetric_ok && done % 2 == 0)
            write_to_file_roundtrip(c, outdir);
        }
      ++done;
      // keep build/out small
      if (!c.datafile.empty())
        {
          c.pd.reset();
          c.fs.reset();
          std::remove(c.datafile.c_str());
          if (!c.headerfile.empty())
            std::remove(c.headerfile.c_str());
        }
    }
  header_exam_info_extras(outdir);
  header_exam_info_boundaries(rng, outdir, thorough ? 168 : 42);
  std::remove((outdir + "/c02_" + std::to_string(static_cast<long>(getpid())) + "_flushprobe.dat").c_str());

  std::fprintf(g_orc, "INFO cases=%d", done);
  for (auto& kv : g_hist)
    std::fprintf(g_orc, " %s=%ld", kv.first.c_str(), kv.second);
  std::fprintf(g_orc, "\n");
  std::fprintf(g_orc, "ORACLE-DONE checks=%ld fails=%ld\n", g_checks, g_fails);
  std::fclose(g_ops);
  std::fclose(g_out);
  std::fclose(g_orc);
  return 0;
}
