// C02 — implementation side: "projection data are one coherent array".
// Drives the REAL STIR API (ProjDataFromStream over std::stringstream / std::fstream, ProjDataInterfile,
// ProjDataInMemory, ProjData::read_from_file) with random interleaved write/read histories through all
// access paths and records, per operation,
//   * for a write: which element slots of the backing store changed (found by diffing a byte copy of the
//     store taken before/after the call -- the private get_offset/get_index are never called) + a checksum
//     of the new contents decoded by this harness' own byte-order/type decoder, and for file backings whether
//     an independent std::ifstream sees the new bytes before this harness flushes the writer (vis=);
//   * for a read: the values the API returns.
// The Lean model (lean/StirVerif/C02/Model.lean) answers the same lines from its transcription of get_offset.
// ORACLE (property statement evaluated on the implementation): a reference std::map<bin,float> is updated
// with the *meaning* of every write; every read, a full sweep through a randomly chosen other path after
// every write, the visibility to a second reader and the header round trip are compared with it; requests
// outside the index ranges must throw and leave everything unchanged.
// Usage: c02_projdata <seed> <quick|thorough> <opsfile> <implfile>
#include "stir_fixtures.h"
#include "common.h"
#include "stir/ProjDataFromStream.h"
#include "stir/ProjDataInterfile.h"
#include "stir/ProjDataInMemory.h"
#include "stir/ProjData.h"
#include "stir/copy_fill.h"
#include "stir/ExamInfo.h"
#include "stir/Bin.h"
#include "stir/Viewgram.h"
#include "stir/Sinogram.h"
#include "stir/SegmentByView.h"
#include "stir/SegmentBySinogram.h"
#include "stir/RelatedViewgrams.h"
#include "stir/Succeeded.h"
#include "stir/ByteOrder.h"
#include "stir/NumericType.h"
#include "stir/TimeFrameDefinitions.h"
#include "stir/PatientPosition.h"
#include "stir/RadionuclideDB.h"
#include "stir/recon_buildblock/DataSymmetriesForBins_PET_CartesianGrid.h"
#include "stir/DiscretisedDensity.h"
#include <algorithm>
#include <array>
#include <cstring>
#include <map>
#include <set>
#include <sys/stat.h>
#include <unistd.h>

using namespace stir;

typedef std::array<int, 5> Key; // seg, view, ax, tang, tof
typedef std::vector<unsigned char> Bytes;

static const int GUARD = 32;

// ProjDataInterfile with access to its (protected) stream, only to flush it from the harness
struct InterfileProbe : public ProjDataInterfile
{
  using ProjDataInterfile::ProjDataInterfile;
  std::iostream& stream() { return *sino_stream; }
};

static FILE *g_ops, *g_out, *g_orc;
static long g_checks = 0, g_fails = 0;
static std::set<std::string> g_known_emitted;
static std::map<std::string, long> g_hist;

static void
oracle_fail(const std::string& ctx, const std::string& what)
{
  ++g_fails;
  if (g_fails <= 40)
    std::fprintf(g_orc, "ORACLE-FAIL %s | %s\n", what.c_str(), ctx.c_str());
}
// the text is constant per key (stable replay names); where it was first seen goes to an INFO line
static void
known(const std::string& key, const std::string& text, const std::string& first_seen = "")
{
  if (g_known_emitted.insert(key).second)
    {
      std::fprintf(g_orc, "KNOWN-CANDIDATE %s %s\n", key.c_str(), text.c_str());
      if (!first_seen.empty())
        std::fprintf(g_orc, "INFO %s first seen at: %s\n", key.c_str(), first_seen.c_str());
    }
}
#define KNOWN_RANGE(ctx)                                                                                                          \
  known("range:view-tang-unchecked",                                                                                              \
        "ProjDataFromStream::get_offset / ProjDataInMemory::get_index check segment, axial and TOF ranges but not view / "      \
        "tangential position: an out-of-range request is accepted and reads/overwrites ANOTHER bin. Repro: any ProjDataFromStream " \
        "or ProjDataInMemory with views 0..V-1 and >= 2 axial positions in segment 0 (AxialPos_View order): "                    \
        "set_bin_value(Bin(0, V, 0, t, 0, x)) does not throw and changes get_bin_value(Bin(0, 0, 1, t, 0)); likewise "           \
        "tangential position max+1 lands on the next view",                                                                       \
        ctx)

static std::string
num(double x)
{
  if (x == static_cast<long long>(x) && std::fabs(x) < 1e15)
    return std::to_string(static_cast<long long>(x));
  return vh::hex(x);
}

struct Case
{
  shared_ptr<ProjDataInfo> pdi;
  shared_ptr<ExamInfo> exam;
  int minSeg, maxSeg, minView, numViews, minTang, numTang, minTof, maxTof, numTof;
  std::map<int, int> minAx, numAx;
  std::string backing; // ss fs if mem
  int order;           // 0 = Segment_AxialPos_View_TangPos, 1 = Segment_View_AxialPos_TangPos
  NumericType type;
  ByteOrder bo;
  long offset;
  int esize;
  std::vector<int> seq, tofseq;
  long total; // number of element slots
  shared_ptr<ProjData> pd;
  ProjDataFromStream* pdfs = nullptr;
  ProjDataInMemory* pdm = nullptr;
  shared_ptr<std::stringstream> ss;
  shared_ptr<std::fstream> fs;
  InterfileProbe* ifp = nullptr;
  std::string datafile, headerfile;
  bool symmetric_ok = false;
  shared_ptr<DataSymmetriesForViewSegmentNumbers> sym;
  std::map<Key, float> ref;
  Bytes img; // current byte image (normalised)
  std::string cfgline;
  bool chkv = false, chkt = false;

  int maxView() const { return minView + numViews - 1; }
  int maxTang() const { return minTang + numTang - 1; }
  int maxAxOf(int s) const { return minAx.at(s) + numAx.at(s) - 1; }
  bool file_backed() const { return backing == "fs" || backing == "if"; }
  int tof0() const { return tofseq.empty() ? minTof : tofseq[0]; }

  Bytes raw_image() const
  {
    Bytes b;
    if (backing == "ss")
      {
        const std::string s = ss->str();
        b.assign(s.begin(), s.end());
      }
    else if (backing == "mem")
      {
        b.resize(static_cast<std::size_t>(total) * 4);
        std::size_t k = 0;
        const ProjDataInMemory& m = *pdm;
        for (auto it = m.begin_all(); it != m.end_all(); ++it, ++k)
          {
            const float f = *it;
            std::memcpy(&b[4 * k], &f, 4);
          }
      }
    else
      {
        // the second, independent reader of the file
        std::ifstream f(datafile.c_str(), std::ios::binary);
        b.assign((std::istreambuf_iterator<char>(f)), std::istreambuf_iterator<char>());
      }
    return b;
  }
  std::size_t norm_len() const { return static_cast<std::size_t>(offset + total * esize + GUARD); }
  // normalised: fixed length; bytes beyond the end of the store read as 0 (Interfile starts empty), longer stores are kept
  Bytes image() const
  {
    Bytes b = raw_image();
    if (b.size() < norm_len())
      b.resize(norm_len(), 0);
    return b;
  }
  void flush_writer()
  {
    if (backing == "ss")
      ss->flush();
    else if (backing == "fs")
      fs->flush();
    else if (backing == "if")
      ifp->stream().flush();
  }
  double decode(const Bytes& b, long slot) const
  {
    unsigned char t[8];
    const unsigned char* p = &b[static_cast<std::size_t>(offset + slot * esize)];
    const bool swap = (backing != "mem") && !bo.is_native_order();
    for (int i = 0; i < esize; ++i)
      t[i] = swap ? p[esize - 1 - i] : p[i];
    if (backing == "mem" || type.id == NumericType::FLOAT)
      {
        float f;
        std::memcpy(&f, t, 4);
        return f;
      }
    if (type.id == NumericType::SHORT)
      {
        int16_t v;
        std::memcpy(&v, t, 2);
        return v;
      }
    if (type.id == NumericType::USHORT)
      {
        uint16_t v;
        std::memcpy(&v, t, 2);
        return v;
      }
    int32_t v;
    std::memcpy(&v, t, 4);
    return v;
  }
};

static std::string
ranges(const std::vector<long>& v)
{
  if (v.empty())
    return "-";
  std::ostringstream s;
  std::size_t i = 0;
  bool first = true;
  while (i < v.size())
    {
      std::size_t j = i;
      while (j + 1 < v.size() && v[j + 1] == v[j] + 1)
        ++j;
      s << (first ? "" : ",") << v[i] << "-" << v[j];
      first = false;
      i = j + 1;
    }
  return s.str();
}

// diff two normalised images: changed slots, changed bytes outside the slots, checksum of the new slot values
static std::string
diff_answer(const Case& c, const Bytes& before, const Bytes& after)
{
  std::vector<long> slots, outside;
  long long cs = 0;
  const std::size_t n = std::max(before.size(), after.size());
  for (long k = 0; k < c.total; ++k)
    {
      const std::size_t a = static_cast<std::size_t>(c.offset + k * c.esize);
      if (std::memcmp(&before[a], &after[a], c.esize) != 0)
        {
          slots.push_back(k);
          const double v = c.decode(after, k);
          const long long iv = (v == static_cast<long long>(v)) ? static_cast<long long>(v) : 999983;
          cs = (cs + ((k + 1) % 1000003) * ((iv + 1000) % 1000003)) % 1000003;
        }
    }
  for (std::size_t a = 0; a < n; ++a)
    {
      if (a >= static_cast<std::size_t>(c.offset) && a < static_cast<std::size_t>(c.offset + c.total * c.esize))
        continue;
      const int x = a < before.size() ? before[a] : 0;
      const int y = a < after.size() ? after[a] : 0;
      if (x != y)
        outside.push_back(static_cast<long>(a));
    }
  std::ostringstream s;
  s << "d=" << ranges(slots) << " cs=" << cs;
  if (!outside.empty())
    s << " out=" << ranges(outside);
  return s.str();
}

// ---------------------------------------------------------------------------------------------------
// reading everything through one path family (used by the oracle sweeps and to resynchronise the reference)
static bool
read_all(Case& c, int family, std::map<Key, float>& got)
{
  got.clear();
  ProjData& pd = *c.pd;
  try
    {
      for (int k = c.minTof; k <= c.maxTof; ++k)
        for (int s = c.minSeg; s <= c.maxSeg; ++s)
          {
            const int a0 = c.minAx[s], a1 = c.maxAxOf(s);
            switch (family)
              {
              case 0: { // segment by sinogram
                const SegmentBySinogram<float> seg = pd.get_segment_by_sinogram(s, k);
                for (int a = a0; a <= a1; ++a)
                  for (int v = c.minView; v <= c.maxView(); ++v)
                    for (int t = c.minTang; t <= c.maxTang(); ++t)
                      got[Key{ s, v, a, t, k }] = seg[a][v][t];
                break;
              }
              case 1: { // segment by view
                const SegmentByView<float> seg = pd.get_segment_by_view(s, k);
                for (int a = a0; a <= a1; ++a)
                  for (int v = c.minView; v <= c.maxView(); ++v)
                    for (int t = c.minTang; t <= c.maxTang(); ++t)
                      got[Key{ s, v, a, t, k }] = seg[v][a][t];
                break;
              }
              case 2: { // viewgrams
                for (int v = c.minView; v <= c.maxView(); ++v)
                  {
                    const Viewgram<float> vg = pd.get_viewgram(v, s, false, k);
                    for (int a = a0; a <= a1; ++a)
                      for (int t = c.minTang; t <= c.maxTang(); ++t)
                        got[Key{ s, v, a, t, k }] = vg[a][t];
                  }
                break;
              }
              case 3: { // sinograms
                for (int a = a0; a <= a1; ++a)
                  {
                    const Sinogram<float> sg = pd.get_sinogram(a, s, false, k);
                    for (int v = c.minView; v <= c.maxView(); ++v)
                      for (int t = c.minTang; t <= c.maxTang(); ++t)
                        got[Key{ s, v, a, t, k }] = sg[v][t];
                  }
                break;
              }
              default: { // single bins
                for (int a = a0; a <= a1; ++a)
                  for (int v = c.minView; v <= c.maxView(); ++v)
                    for (int t = c.minTang; t <= c.maxTang(); ++t)
                      {
                        Bin b(s, v, a, t, k, 0.f);
                        got[Key{ s, v, a, t, k }] = c.pdm ? c.pdm->get_bin_value(b) : c.pdfs->get_bin_value(b);
                      }
              }
              }
          }
    }
  catch (...)
    {
      return false;
    }
  return true;
}

static std::string
keystr(const Key& k)
{
  std::ostringstream s;
  s << "(seg " << k[0] << ", view " << k[1] << ", ax " << k[2] << ", tang " << k[3] << ", tof " << k[4] << ")";
  return s.str();
}

static void
sweep(Case& c, vh::Rng& rng, const std::string& ctx)
{
  int family = rng.range(0, 4);
  if (family == 4 && c.total > 700)
    family = rng.range(0, 3);
  std::map<Key, float> got;
  ++g_checks;
  if (!read_all(c, family, got))
    {
      oracle_fail(ctx, "sweep family " + std::to_string(family) + " threw on in-range requests");
      return;
    }
  for (auto& kv : c.ref)
    {
      auto it = got.find(kv.first);
      if (it == got.end() || it->second != kv.second)
        {
          oracle_fail(ctx,
                      "after this write, bin " + keystr(kv.first) + " read through path family " + std::to_string(family) + " is "
                          + (it == got.end() ? std::string("missing") : num(it->second)) + ", reference map has " + num(kv.second));
          return;
        }
    }
}

// ---------------------------------------------------------------------------------------------------
static const char* type_name(const Case& c)
{
  if (c.backing == "mem")
    return "float";
  return c.type.id == NumericType::FLOAT ? "float" : c.type.id == NumericType::SHORT ? "short" : c.type.id == NumericType::USHORT ? "ushort" : "int";
}

static bool
in_range(const Case& c, const Key& k)
{
  return k[0] >= c.minSeg && k[0] <= c.maxSeg && k[2] >= c.minAx.at(k[0]) && k[2] <= c.maxAxOf(k[0]) && k[1] >= c.minView
         && k[1] <= c.maxView() && k[3] >= c.minTang && k[3] <= c.maxTang() && k[4] >= c.minTof && k[4] <= c.maxTof;
}

// emit one op line + answer line
static void
emit(const std::string& op, const std::string& ans)
{
  std::fprintf(g_ops, "%s\n", op.c_str());
  std::fprintf(g_out, "%s\n", ans.c_str());
  g_hist[op.substr(0, op.find(' '))]++;
}

// performs a write through `call` (returns: 0 ok, 1 Succeeded::no, 2 threw), then diffs the store.
// `expect` = bins/values the write MEANS (empty if the request is out of range: must be rejected)
template <class F>
static void
do_write(Case& c, vh::Rng& rng, const std::string& op, F call, const std::vector<std::pair<Key, float>>& expect, bool out_of_range,
         const std::string& oor_kind)
{
  int status = 0;
  try
    {
      status = call() ? 0 : 1;
    }
  catch (...)
    {
      status = 2;
    }
  const std::string ctx = c.cfgline + " ;; " + op.substr(0, 120);
  // observation by the second reader BEFORE the harness flushes the writer
  std::string vis;
  Bytes A = c.image();
  if (c.file_backed())
    {
      c.flush_writer();
      const Bytes B = c.image();
      vis = (A == B) ? " vis=1" : " vis=0";
      if (A != B && status == 0)
        {
          ++g_checks;
          if (op.compare(0, 5, "setb ") == 0)
            known("flush:set_bin_value-no-flush",
                  "ProjDataFromStream::set_bin_value returns without flushing the stream (class documentation: every set_* flushes): "
                  "an independent std::ifstream opened after the call returned does not see the written value until the writer "
                  "is flushed/closed. Repro: ProjDataFromStream over std::fstream on a zero-filled file, set_bin_value(Bin(0,1,1,0,0,7.f)), "
                  "read the file with a new std::ifstream: all bytes still 0 (set_viewgram/set_sinogram/set_segment are visible at once)",
                  ctx);
          else
            oracle_fail(ctx, "written values not visible to an independent reader of the file when the write call returned");
        }
      else
        ++g_checks;
      A = B;
    }
  else
    c.flush_writer();
  const std::string d = diff_answer(c, c.img, A);
  const bool changed = d.compare(0, 8, "d=- cs=0") != 0 || d.find("out=") != std::string::npos;
  std::string ans;
  if (status != 0) // thrown exception or Succeeded::no: both are "reported as an error"
    ans = changed ? "err " + d : "err";
  else
    ans = "ok " + d + vis;
  emit(op, ans);
  c.img = A;

  // ----- oracle
  ++g_checks;
  if (out_of_range)
    {
      if (status == 0 || changed)
        {
          if (oor_kind == "view" || oor_kind == "tang")
            KNOWN_RANGE(ctx);
          else
            oracle_fail(ctx, "out-of-range (" + oor_kind + ") write request was not rejected" + (changed ? " and changed the data" : ""));
          // the reference no longer describes the data: resynchronise from the implementation
          std::map<Key, float> got;
          if (read_all(c, 0, got))
            c.ref = got;
        }
      return;
    }
  if (status != 0)
    {
      oracle_fail(ctx, "in-range write request failed (status " + std::to_string(status) + ")");
      std::map<Key, float> got;
      if (read_all(c, 0, got))
        c.ref = got;
      return;
    }
  for (auto& kv : expect)
    c.ref[kv.first] = kv.second;
  sweep(c, rng, ctx);
}

template <class F>
static void
do_read(Case& c, const std::string& op, F call, const std::vector<Key>& bins, bool out_of_range, const std::string& oor_kind)
{
  std::vector<float> vals;
  bool threw = false;
  try
    {
      vals = call();
    }
  catch (...)
    {
      threw = true;
    }
  std::string ans;
  if (threw)
    ans = "err";
  else
    {
      std::ostringstream s;
      for (std::size_t i = 0; i < vals.size(); ++i)
        s << (i ? " " : "") << num(vals[i]);
      ans = s.str();
      if (vals.empty())
        ans = "empty";
    }
  emit(op, ans);
  const std::string ctx = c.cfgline + " ;; " + op.substr(0, 120);
  ++g_checks;
  if (out_of_range)
    {
      if (!threw)
        {
          if (oor_kind == "view" || oor_kind == "tang")
            KNOWN_RANGE(ctx);
          else
            oracle_fail(ctx, "out-of-range (" + oor_kind + ") read request was not rejected");
        }
      return;
    }
  if (threw)
    {
      oracle_fail(ctx, "in-range read request threw");
      return;
    }
  if (vals.size() != bins.size())
    {
      oracle_fail(ctx, "read returned " + std::to_string(vals.size()) + " values, expected " + std::to_string(bins.size()));
      return;
    }
  for (std::size_t i = 0; i < bins.size(); ++i)
    if (c.ref[bins[i]] != vals[i])
      {
        oracle_fail(ctx, "read of bin " + keystr(bins[i]) + " returned " + num(vals[i]) + ", reference map has " + num(c.ref[bins[i]]));
        return;
      }
}

static std::string
vals_str(const std::vector<float>& v)
{
  std::ostringstream s;
  for (float x : v)
    s << " " << num(x);
  return s.str();
}

// canonical bin orders of the STIR containers
static std::vector<Key>
bins_viewgram(const Case& c, int s, int v, int k)
{
  std::vector<Key> r;
  for (int a = c.minAx.at(s); a <= c.maxAxOf(s); ++a)
    for (int t = c.minTang; t <= c.maxTang(); ++t)
      r.push_back(Key{ s, v, a, t, k });
  return r;
}
static std::vector<Key>
bins_sinogram(const Case& c, int s, int a, int k)
{
  std::vector<Key> r;
  for (int v = c.minView; v <= c.maxView(); ++v)
    for (int t = c.minTang; t <= c.maxTang(); ++t)
      r.push_back(Key{ s, v, a, t, k });
  return r;
}
static std::vector<Key>
bins_seg_by_view(const Case& c, int s, int k)
{
  std::vector<Key> r;
  for (int v = c.minView; v <= c.maxView(); ++v)
    for (int a = c.minAx.at(s); a <= c.maxAxOf(s); ++a)
      for (int t = c.minTang; t <= c.maxTang(); ++t)
        r.push_back(Key{ s, v, a, t, k });
  return r;
}
static std::vector<Key>
bins_seg_by_sino(const Case& c, int s, int k)
{
  std::vector<Key> r;
  for (int a = c.minAx.at(s); a <= c.maxAxOf(s); ++a)
    for (int v = c.minView; v <= c.maxView(); ++v)
      for (int t = c.minTang; t <= c.maxTang(); ++t)
        r.push_back(Key{ s, v, a, t, k });
  return r;
}
// order of ProjData::fill_from / copy_to: TOF slowest, standard_segment_sequence, SegmentBySinogram
static std::vector<Key>
bins_all(const Case& c)
{
  std::vector<Key> r;
  for (int k = c.minTof; k <= c.maxTof; ++k)
    for (int s : ProjData::standard_segment_sequence(*c.pdi))
      {
        const std::vector<Key> b = bins_seg_by_sino(c, s, k);
        r.insert(r.end(), b.begin(), b.end());
      }
  return r;
}

// small integers (exact in every on-disk type, scale factor stays 1); negative ones unless the on-disk type is unsigned
static bool g_signed_values = true;
static std::vector<float>
random_values(vh::Rng& rng, std::size_t n)
{
  std::vector<float> v(n);
  for (auto& x : v)
    {
      x = static_cast<float>(rng.range(0, 9) == 0 ? 0 : rng.range(1, 200));
      if (g_signed_values && x != 0 && rng.range(0, 2) == 0)
        x = -x;
    }
  return v;
}

static std::vector<std::pair<Key, float>>
zip(const std::vector<Key>& b, const std::vector<float>& v)
{
  std::vector<std::pair<Key, float>> r;
  for (std::size_t i = 0; i < b.size(); ++i)
    r.push_back(std::make_pair(b[i], v[i]));
  return r;
}

static float
bin_get(Case& c, const Key& k)
{
  Bin b(k[0], k[1], k[2], k[3], k[4], 0.f);
  return c.pdm ? c.pdm->get_bin_value(b) : c.pdfs->get_bin_value(b);
}
static void
bin_set(Case& c, const Key& k, float v)
{
  Bin b(k[0], k[1], k[2], k[3], k[4], v);
  if (c.pdm)
    c.pdm->set_bin_value(b);
  else
    c.pdfs->set_bin_value(b);
}

// ---------------------------------------------------------------------------------------------------
static bool
build_case(Case& c, vh::Rng& rng, const std::string& outdir, int index, const std::string& backing)
{
  c.backing = backing;
  // ---- geometry
  static const int Ns[] = { 8, 10, 12, 16 };
  const int N = Ns[rng.range(0, 3)];
  const int R = rng.range(2, 5);
  int tofbins = -1, mash = 0;
  switch (rng.range(0, 5))
    {
    case 0: tofbins = 5; mash = 1; break;
    case 1: tofbins = 9; mash = 3; break;
    case 2: tofbins = 3; mash = 1; break;
    default: break;
    }
  const int span = (R >= 3 && rng.range(0, 2) == 0) ? 3 : 1;
  int max_delta = rng.range(0, R - 1);
  if (span == 3)
    max_delta = (R - 1 >= 4 && rng.coin()) ? 4 : 1; // whole segments only
  int num_views = N / 2;
  if (rng.range(0, 3) == 0 && (N / 2) % 2 == 0)
    num_views = N / 4;
  const int num_tang = rng.range(2, std::max(2, N / 2 - 1));
  shared_ptr<Scanner> scanner = vh::make_scanner(N, R, tofbins);
  try
    {
      c.pdi = vh::make_pdi(scanner, span, max_delta, num_views, num_tang, false, mash);
    }
  catch (...)
    {
      return false;
    }
  c.symmetric_ok = true;
  // trimmed / shifted index ranges (not for Interfile: the header cannot describe them)
  if (backing != "if" && rng.range(0, 2) == 0)
    {
      shared_ptr<ProjDataInfo> p = c.pdi->create_shared_clone();
      if (rng.coin() && p->get_max_segment_num() >= 1)
        {
          p->reduce_segment_range(rng.range(p->get_min_segment_num(), 0), rng.range(0, p->get_max_segment_num()));
        }
      for (int s = p->get_min_segment_num(); s <= p->get_max_segment_num(); ++s)
        if (p->get_num_axial_poss(s) >= 3 && rng.range(0, 2) == 0)
          {
            if (rng.coin())
              p->set_min_axial_pos_num(p->get_min_axial_pos_num(s) + 1, s);
            else
              p->set_max_axial_pos_num(p->get_max_axial_pos_num(s) - 1, s);
          }
      if (rng.coin())
        {
          const int shift = rng.range(-1, 2);
          p->set_min_tangential_pos_num(p->get_min_tangential_pos_num() + shift);
          p->set_max_tangential_pos_num(p->get_max_tangential_pos_num() + shift + rng.range(0, 1));
        }
      c.pdi = p;
      c.symmetric_ok = false;
    }
  const ProjDataInfo& p = *c.pdi;
  c.minSeg = p.get_min_segment_num();
  c.maxSeg = p.get_max_segment_num();
  c.minView = p.get_min_view_num();
  c.numViews = p.get_num_views();
  c.minTang = p.get_min_tangential_pos_num();
  c.numTang = p.get_num_tangential_poss();
  c.minTof = p.get_min_tof_pos_num();
  c.maxTof = p.get_max_tof_pos_num();
  c.numTof = p.get_num_tof_poss();
  c.total = 0;
  for (int s = c.minSeg; s <= c.maxSeg; ++s)
    {
      c.minAx[s] = p.get_min_axial_pos_num(s);
      c.numAx[s] = p.get_num_axial_poss(s);
      c.total += static_cast<long>(c.numAx[s]) * c.numViews * c.numTang;
    }
  c.total *= (c.maxTof - c.minTof + 1);
  if (c.numViews < 2 || c.numTang < 2 || c.numAx[0] < 2 || c.total > 12000)
    return false;

  // ---- exam info (only fields the Interfile projection-data header stores)
  c.exam.reset(new ExamInfo(ImagingModality::PT));
  {
    static const PatientPosition::PositionValue pos[] = { PatientPosition::HFS, PatientPosition::HFP, PatientPosition::FFS, PatientPosition::FFP };
    c.exam->patient_position = PatientPosition(pos[rng.range(0, 3)]);
    TimeFrameDefinitions tf;
    tf.set_num_time_frames(1);
    const double start = rng.range(0, 50);
    tf.set_time_frame(1, start, start + rng.range(1, 900));
    c.exam->set_time_frame_definitions(tf);
    c.exam->set_low_energy_thres(static_cast<float>(rng.range(300, 450)));
    c.exam->set_high_energy_thres(static_cast<float>(rng.range(550, 700)));
    // an unspecified radionuclide is read back as the PET default (F-18): name it explicitly
    RadionuclideDB db;
    c.exam->set_radionuclide(db.get_radionuclide(ImagingModality(ImagingModality::PT), "^18^Fluorine"));
  }

  // ---- layout
  c.order = rng.range(0, 1);
  static const NumericType::Type types[] = { NumericType::FLOAT, NumericType::SHORT, NumericType::USHORT, NumericType::INT };
  c.type = NumericType(types[rng.range(0, 3)]);
  c.bo = rng.coin() ? ByteOrder::little_endian : ByteOrder::big_endian;
  static const long offs[] = { 0, 0, 12, 37, 256 };
  c.offset = offs[rng.range(0, 4)];
  for (int s = c.minSeg; s <= c.maxSeg; ++s)
    c.seq.push_back(s);
  for (std::size_t i = c.seq.size(); i > 1; --i) // Fisher-Yates
    std::swap(c.seq[i - 1], c.seq[rng.range(0, static_cast<int>(i) - 1)]);
  if (rng.range(0, 4) == 0)
    c.seq = ProjData::standard_segment_sequence(p);
  const ProjDataFromStream::StorageOrder so
      = c.order == 0 ? ProjDataFromStream::Segment_AxialPos_View_TangPos : ProjDataFromStream::Segment_View_AxialPos_TangPos;

  if (backing == "mem")
    {
      c.order = 0;
      c.type = NumericType(NumericType::FLOAT);
      c.bo = ByteOrder::native;
      c.offset = 0;
      c.esize = 4;
      c.seq = ProjData::standard_segment_sequence(p);
      c.pdm = new ProjDataInMemory(c.exam, c.pdi);
      c.pd.reset(c.pdm);
    }
  else
    {
      c.esize = static_cast<int>(c.type.size_in_bytes());
      Bytes init(static_cast<std::size_t>(c.offset + c.total * c.esize + GUARD), 0);
      for (long i = 0; i < c.offset; ++i)
        init[i] = 0xAB;
      for (int i = 0; i < GUARD; ++i)
        init[init.size() - 1 - i] = 0xCD;
      if (backing == "ss")
        {
          c.ss.reset(new std::stringstream(std::string(init.begin(), init.end()), std::ios::in | std::ios::out | std::ios::binary));
          c.pdfs = new ProjDataFromStream(c.exam, c.pdi, c.ss, c.offset, c.seq, so, c.type, c.bo, 1.f);
          c.pd.reset(c.pdfs);
        }
      else if (backing == "fs")
        {
          c.datafile = outdir + "/c02_" + std::to_string(static_cast<long>(getpid())) + "_case" + std::to_string(index) + ".dat";
          {
            std::ofstream f(c.datafile.c_str(), std::ios::binary | std::ios::trunc);
            f.write(reinterpret_cast<const char*>(init.data()), init.size());
          }
          c.fs.reset(new std::fstream(c.datafile.c_str(), std::ios::in | std::ios::out | std::ios::binary));
          c.pdfs = new ProjDataFromStream(c.exam, c.pdi, c.fs, c.offset, c.seq, so, c.type, c.bo, 1.f);
          c.pd.reset(c.pdfs);
        }
      else
        { // "if": ProjDataInterfile creates header + data file itself (offset 0)
          c.offset = 0;
          c.headerfile = outdir + "/c02_" + std::to_string(static_cast<long>(getpid())) + "_case" + std::to_string(index) + ".hs";
          c.datafile = outdir + "/c02_" + std::to_string(static_cast<long>(getpid())) + "_case" + std::to_string(index) + ".s";
          std::remove(c.datafile.c_str());
          try
            {
              c.ifp = new InterfileProbe(c.exam, c.pdi, c.headerfile, std::ios::in | std::ios::out | std::ios::trunc, c.seq, so, c.type, c.bo, 1.f);
            }
          catch (...)
            {
              // TOF data in Segment_AxialPos_View_TangPos order: write_basic_interfile_PDFS_header reports
              // "unsupported storage order" (an error, not silent corruption) -> use the other order
              std::fprintf(g_orc, "INFO interfile header writer rejects TOF data in Segment_AxialPos_View_TangPos order (reported error)\n");
              if (!(c.numTof > 1 && c.order == 0))
                {
                  oracle_fail("case " + std::to_string(index), "ProjDataInterfile constructor threw for a supported layout");
                  return false;
                }
              c.order = 1;
              c.ifp = new InterfileProbe(c.exam, c.pdi, c.headerfile, std::ios::in | std::ios::out | std::ios::trunc, c.seq,
                                         ProjDataFromStream::Segment_View_AxialPos_TangPos, c.type, c.bo, 1.f);
            }
          c.pdfs = c.ifp;
          c.pd.reset(c.ifp);
          // the data file starts empty: give it its full size (zeros) through the stream the object owns, so that
          // reads before the first write do not hit end-of-file (same initial state as the other stream backings)
          {
            const std::vector<char> z(static_cast<std::size_t>(c.total * c.esize), 0);
            c.ifp->stream().seekp(0, std::ios::beg);
            c.ifp->stream().write(z.data(), z.size());
            c.ifp->stream().flush();
          }
        }
    }
  if (c.pdfs)
    {
      c.seq = c.pdfs->get_segment_sequence_in_stream();
      c.tofseq = c.pdfs->get_timing_poss_sequence_in_stream();
      const ProjDataFromStream::StorageOrder o = c.pdfs->get_storage_order();
      c.order = (o == ProjDataFromStream::Segment_AxialPos_View_TangPos || o == ProjDataFromStream::Timing_Segment_AxialPos_View_TangPos) ? 0 : 1;
    }
  else
    {
      for (int k = c.minTof; k <= c.maxTof; ++k)
        c.tofseq.push_back(k);
    }
  if (c.symmetric_ok && c.minSeg == -c.maxSeg)
    {
      shared_ptr<DiscretisedDensity<3, float>> image = vh::make_image(p, 1.F, 5, 2 * R - 1);
      const int flags = rng.range(0, 7);
      try
        {
          c.sym.reset(new DataSymmetriesForBins_PET_CartesianGrid(c.pdi, image, flags & 1, flags & 2, flags & 4, true, true));
        }
      catch (...)
        {
          c.sym.reset();
        }
    }
  for (int k = c.minTof; k <= c.maxTof; ++k)
    for (int s = c.minSeg; s <= c.maxSeg; ++s)
      for (const Key& b : bins_seg_by_sino(c, s, k))
        c.ref[b] = 0.f;
  c.img = c.image();
  return true;
}

// view = max+1 for (first segment, first axial position, first TOF bin of the stream): does the unchecked alias stay inside the store?
static bool
view_hi_alias_inside(const Case& c)
{
  // AxialPos_View order: lands in the next sinogram (segment 0 has >= 2 axial positions, so there are >= 2 sinograms);
  // View_AxialPos order: lands just behind this segment's block: needs another segment or TOF block behind it
  return c.order == 0 || c.seq.size() > 1 || c.maxTof > c.minTof;
}

// does the implementation reject out-of-range view / tangential requests?  (read-only probes that alias inside the store)
static void
probe_range_checks(Case& c)
{
  const int s0 = c.seq[0];
  try
    {
      bin_get(c, Key{ s0, c.minView, c.minAx[s0], c.maxTang() + 1, c.tof0() });
      c.chkt = false;
    }
  catch (...)
    {
      c.chkt = true;
    }
  c.chkv = c.chkt;
  if (view_hi_alias_inside(c))
    {
      try
        {
          bin_get(c, Key{ s0, c.maxView() + 1, c.minAx[s0], c.minTang, c.tof0() });
          c.chkv = false;
        }
      catch (...)
        {
          c.chkv = true;
        }
    }
}

static bool g_fb = false; // does set_bin_value make its value visible (flush)?

static void
probe_flush(const std::string& outdir)
{
  shared_ptr<Scanner> scanner = vh::make_scanner(8, 2);
  shared_ptr<ProjDataInfo> pdi = vh::make_pdi(scanner, 1, 0, 4, 3, false, 0);
  shared_ptr<ExamInfo> exam(new ExamInfo(ImagingModality::PT));
  const std::string fn = outdir + "/c02_" + std::to_string(static_cast<long>(getpid())) + "_flushprobe.dat";
  {
    std::ofstream f(fn.c_str(), std::ios::binary | std::ios::trunc);
    const std::vector<char> z(4096, 0);
    f.write(z.data(), z.size());
  }
  shared_ptr<std::fstream> fs(new std::fstream(fn.c_str(), std::ios::in | std::ios::out | std::ios::binary));
  ProjDataFromStream pd(exam, pdi, fs, 0, ProjDataFromStream::Segment_View_AxialPos_TangPos, NumericType::FLOAT, ByteOrder::native);
  Bin b(0, 1, 1, 0, 0, 7.f);
  pd.set_bin_value(b);
  std::ifstream f(fn.c_str(), std::ios::binary);
  Bytes bytes((std::istreambuf_iterator<char>(f)), std::istreambuf_iterator<char>());
  g_fb = false;
  for (unsigned char x : bytes)
    if (x)
      g_fb = true;
}

static void
write_cfg(Case& c)
{
  std::ostringstream s;
  s << "cfg " << c.backing << " " << c.order << " " << (c.backing == "mem" ? 1 : c.esize) << " " << c.offset << " " << c.minSeg << " "
    << c.maxSeg << " " << c.minView << " " << c.numViews << " " << c.minTang << " " << c.numTang << " " << c.minTof << " " << c.maxTof
    << " " << c.numTof << " " << (c.chkv ? 1 : 0) << " " << (c.chkt ? 1 : 0) << " " << (g_fb ? 1 : 0) << " " << type_name(c) << " "
    << (c.backing == "mem" ? "native" : (c.bo == ByteOrder::little_endian ? "little" : "big"));
  s << " seq";
  for (int x : c.seq)
    s << " " << x;
  s << " ax";
  for (int x = c.minSeg; x <= c.maxSeg; ++x)
    s << " " << c.minAx[x] << ":" << c.numAx[x];
  s << " tofseq";
  for (int x : c.tofseq)
    s << " " << x;
  c.cfgline = s.str();
  // implementation's own total: ProjData::size_all() (number of bins) -- model recomputes it from the layout
  emit(c.cfgline, "slots " + std::to_string(static_cast<long>(c.pd->size_all())));
}

// ---------------------------------------------------------------------------------------------------
static void
run_history(Case& c, vh::Rng& rng, int len)
{
  ProjData& pd = *c.pd;
  auto rseg = [&]() { return rng.range(c.minSeg, c.maxSeg); };
  auto rview = [&]() { return rng.range(c.minView, c.maxView()); };
  auto rtang = [&]() { return rng.range(c.minTang, c.maxTang()); };
  auto rtof = [&]() { return rng.range(c.minTof, c.maxTof); };
  auto rax = [&](int s) { return rng.range(c.minAx[s], c.maxAxOf(s)); };

  // Interfile starts with an empty data file: the first operation is a fill
  bool force_fill = false;
  for (int step = 0; step < len; ++step)
    {
      int kind = rng.range(0, 27);
      if (force_fill)
        {
          kind = 20;
          force_fill = false;
        }
      std::ostringstream op;
      switch (kind)
        {
        case 0:
        case 1:
        case 2: { // set_bin_value
          const int s = rseg();
          const Key k{ s, rview(), rax(s), rtang(), rtof() };
          const float v = random_values(rng, 1)[0];
          op << "setb " << k[0] << " " << k[1] << " " << k[2] << " " << k[3] << " " << k[4] << " " << num(v);
          do_write(c, rng, op.str(), [&]() { bin_set(c, k, v); return true; }, { std::make_pair(k, v) }, false, "");
          break;
        }
        case 3:
        case 4: { // get_bin_value
          const int s = rseg();
          const Key k{ s, rview(), rax(s), rtang(), rtof() };
          op << "getb " << k[0] << " " << k[1] << " " << k[2] << " " << k[3] << " " << k[4];
          do_read(c, op.str(), [&]() { return std::vector<float>{ bin_get(c, k) }; }, { k }, false, "");
          break;
        }
        case 5:
        case 6: { // set_viewgram
          const int s = rseg(), v = rview(), k = rtof();
          const std::vector<Key> bins = bins_viewgram(c, s, v, k);
          const std::vector<float> vals = random_values(rng, bins.size());
          op << "setv " << s << " " << v << " " << k << vals_str(vals);
          do_write(
              c, rng, op.str(),
              [&]() {
                Viewgram<float> vg = pd.get_empty_viewgram(v, s, false, k);
                std::size_t i = 0;
                for (int a = c.minAx[s]; a <= c.maxAxOf(s); ++a)
                  for (int t = c.minTang; t <= c.maxTang(); ++t)
                    vg[a][t] = vals[i++];
                return pd.set_viewgram(vg) == Succeeded::yes;
              },
              zip(bins, vals), false, "");
          break;
        }
        case 7:
        case 8: { // get_viewgram
          const int s = rseg(), v = rview(), k = rtof();
          op << "getv " << s << " " << v << " " << k;
          do_read(
              c, op.str(),
              [&]() {
                const Viewgram<float> vg = pd.get_viewgram(v, s, false, k);
                std::vector<float> r;
                for (int a = vg.get_min_axial_pos_num(); a <= vg.get_max_axial_pos_num(); ++a)
                  for (int t = vg.get_min_tangential_pos_num(); t <= vg.get_max_tangential_pos_num(); ++t)
                    r.push_back(vg[a][t]);
                return r;
              },
              bins_viewgram(c, s, v, k), false, "");
          break;
        }
        case 9:
        case 10: { // set_sinogram
          const int s = rseg(), a = rax(s), k = rtof();
          const std::vector<Key> bins = bins_sinogram(c, s, a, k);
          const std::vector<float> vals = random_values(rng, bins.size());
          op << "sets " << s << " " << a << " " << k << vals_str(vals);
          do_write(
              c, rng, op.str(),
              [&]() {
                Sinogram<float> sg = pd.get_empty_sinogram(a, s, false, k);
                std::size_t i = 0;
                for (int v = c.minView; v <= c.maxView(); ++v)
                  for (int t = c.minTang; t <= c.maxTang(); ++t)
                    sg[v][t] = vals[i++];
                return pd.set_sinogram(sg) == Succeeded::yes;
              },
              zip(bins, vals), false, "");
          break;
        }
        case 11:
        case 12: { // get_sinogram
          const int s = rseg(), a = rax(s), k = rtof();
          op << "gets " << s << " " << a << " " << k;
          do_read(
              c, op.str(),
              [&]() {
                const Sinogram<float> sg = pd.get_sinogram(a, s, false, k);
                std::vector<float> r;
                for (int v = sg.get_min_view_num(); v <= sg.get_max_view_num(); ++v)
                  for (int t = sg.get_min_tangential_pos_num(); t <= sg.get_max_tangential_pos_num(); ++t)
                    r.push_back(sg[v][t]);
                return r;
              },
              bins_sinogram(c, s, a, k), false, "");
          break;
        }
        case 13: { // set_segment (by view)
          const int s = rseg(), k = rtof();
          const std::vector<Key> bins = bins_seg_by_view(c, s, k);
          const std::vector<float> vals = random_values(rng, bins.size());
          op << "setsv " << s << " " << k << vals_str(vals);
          do_write(
              c, rng, op.str(),
              [&]() {
                SegmentByView<float> seg = pd.get_empty_segment_by_view(s, false, k);
                std::size_t i = 0;
                for (int v = c.minView; v <= c.maxView(); ++v)
                  for (int a = c.minAx[s]; a <= c.maxAxOf(s); ++a)
                    for (int t = c.minTang; t <= c.maxTang(); ++t)
                      seg[v][a][t] = vals[i++];
                return pd.set_segment(seg) == Succeeded::yes;
              },
              zip(bins, vals), false, "");
          break;
        }
        case 14: { // get_segment_by_view
          const int s = rseg(), k = rtof();
          op << "getsv " << s << " " << k;
          do_read(
              c, op.str(),
              [&]() {
                const SegmentByView<float> seg = pd.get_segment_by_view(s, k);
                std::vector<float> r;
                for (int v = seg.get_min_view_num(); v <= seg.get_max_view_num(); ++v)
                  for (int a = seg.get_min_axial_pos_num(); a <= seg.get_max_axial_pos_num(); ++a)
                    for (int t = seg.get_min_tangential_pos_num(); t <= seg.get_max_tangential_pos_num(); ++t)
                      r.push_back(seg[v][a][t]);
                return r;
              },
              bins_seg_by_view(c, s, k), false, "");
          break;
        }
        case 15: { // set_segment (by sinogram)
          const int s = rseg(), k = rtof();
          const std::vector<Key> bins = bins_seg_by_sino(c, s, k);
          const std::vector<float> vals = random_values(rng, bins.size());
          op << "setss " << s << " " << k << vals_str(vals);
          do_write(
              c, rng, op.str(),
              [&]() {
                SegmentBySinogram<float> seg = pd.get_empty_segment_by_sinogram(s, false, k);
                std::size_t i = 0;
                for (int a = c.minAx[s]; a <= c.maxAxOf(s); ++a)
                  for (int v = c.minView; v <= c.maxView(); ++v)
                    for (int t = c.minTang; t <= c.maxTang(); ++t)
                      seg[a][v][t] = vals[i++];
                return pd.set_segment(seg) == Succeeded::yes;
              },
              zip(bins, vals), false, "");
          break;
        }
        case 16: { // get_segment_by_sinogram
          const int s = rseg(), k = rtof();
          op << "getss " << s << " " << k;
          do_read(
              c, op.str(),
              [&]() {
                const SegmentBySinogram<float> seg = pd.get_segment_by_sinogram(s, k);
                std::vector<float> r;
                for (int a = seg.get_min_axial_pos_num(); a <= seg.get_max_axial_pos_num(); ++a)
                  for (int v = seg.get_min_view_num(); v <= seg.get_max_view_num(); ++v)
                    for (int t = seg.get_min_tangential_pos_num(); t <= seg.get_max_tangential_pos_num(); ++t)
                      r.push_back(seg[a][v][t]);
                return r;
              },
              bins_seg_by_sino(c, s, k), false, "");
          break;
        }
        case 17:
        case 18:
        case 19: { // related viewgrams (set or get)
          if (!c.sym)
            {
              --step;
              break;
            }
          ViewSegmentNumbers vs(rview(), rseg());
          c.sym->find_basic_view_segment_numbers(vs);
          std::vector<ViewSegmentNumbers> pairs;
          c.sym->get_related_view_segment_numbers(pairs, vs);
          const int k = rtof();
          bool ok = !pairs.empty();
          for (auto& pr : pairs)
            if (pr.segment_num() < c.minSeg || pr.segment_num() > c.maxSeg || pr.view_num() < c.minView || pr.view_num() > c.maxView())
              ok = false;
          if (!ok)
            {
              --step;
              break;
            }
          std::vector<Key> bins;
          std::ostringstream ps;
          for (auto& pr : pairs)
            {
              const std::vector<Key> b = bins_viewgram(c, pr.segment_num(), pr.view_num(), k);
              bins.insert(bins.end(), b.begin(), b.end());
              ps << " " << pr.view_num() << " " << pr.segment_num();
            }
          if (kind == 19)
            {
              op << "getrel " << k << " " << pairs.size() << ps.str();
              do_read(
                  c, op.str(),
                  [&]() {
                    const RelatedViewgrams<float> rv = pd.get_related_viewgrams(ViewgramIndices(vs.view_num(), vs.segment_num(), k), c.sym, false, k);
                    std::vector<float> r;
                    for (auto it = rv.begin(); it != rv.end(); ++it)
                      for (int a = it->get_min_axial_pos_num(); a <= it->get_max_axial_pos_num(); ++a)
                        for (int t = it->get_min_tangential_pos_num(); t <= it->get_max_tangential_pos_num(); ++t)
                          r.push_back((*it)[a][t]);
                    return r;
                  },
                  bins, false, "");
            }
          else
            {
              const std::vector<float> vals = random_values(rng, bins.size());
              op << "setrel " << k << " " << pairs.size() << ps.str() << vals_str(vals);
              do_write(
                  c, rng, op.str(),
                  [&]() {
                    RelatedViewgrams<float> rv = pd.get_empty_related_viewgrams(ViewgramIndices(vs.view_num(), vs.segment_num(), k), c.sym, false, k);
                    std::size_t i = 0;
                    for (auto it = rv.begin(); it != rv.end(); ++it)
                      for (int a = it->get_min_axial_pos_num(); a <= it->get_max_axial_pos_num(); ++a)
                        for (int t = it->get_min_tangential_pos_num(); t <= it->get_max_tangential_pos_num(); ++t)
                          (*it)[a][t] = vals[i++];
                    return pd.set_related_viewgrams(rv) == Succeeded::yes;
                  },
                  zip(bins, vals), false, "");
            }
          break;
        }
        case 20: { // fill(value)
          const float v = random_values(rng, 1)[0];
          op << "fill " << num(v);
          std::vector<std::pair<Key, float>> exp;
          for (auto& kv : c.ref)
            exp.push_back(std::make_pair(kv.first, v));
          do_write(c, rng, op.str(), [&]() { pd.fill(v); return true; }, exp, false, "");
          break;
        }
        case 21: { // fill_from(iterator) / fill(ProjData) : bulk paths
          if (c.total > 4000 && rng.range(0, 2) != 0)
            {
              --step;
              break;
            }
          const std::vector<Key> bins = bins_all(c);
          const std::vector<float> vals = random_values(rng, bins.size());
          const bool via_pd = rng.coin();
          op << (via_pd ? "fillpd" : "fillfrom") << vals_str(vals);
          do_write(
              c, rng, op.str(),
              [&]() {
                if (via_pd)
                  {
                    ProjDataInMemory src(c.exam, c.pdi);
                    src.ProjData::fill_from(vals.begin());
                    pd.fill(src);
                  }
                else if (c.pdm && rng.coin())
                  stir::fill_from(pd, vals.begin(), vals.end()); // copy_fill.h: uses the buffer directly for ProjDataInMemory
                else
                  pd.fill_from(vals.begin());
                return true;
              },
              zip(bins, vals), false, "");
          break;
        }
        case 22: { // copy_to (iteration over everything)
          if (c.total > 4000 && rng.range(0, 2) != 0)
            {
              --step;
              break;
            }
          op << "copyto";
          const int how = rng.range(0, 2);
          do_read(
              c, op.str(),
              [&]() {
                std::vector<float> r(static_cast<std::size_t>(c.total));
                if (how == 0 || !c.pdm)
                  pd.copy_to(r.begin());
                else if (how == 1)
                  stir::copy_to(pd, r.begin());
                else
                  std::copy(const_cast<const ProjDataInMemory*>(c.pdm)->begin_all(), const_cast<const ProjDataInMemory*>(c.pdm)->end_all(), r.begin());
                return r;
              },
              bins_all(c), false, "");
          break;
        }
        default: { // requests outside the index ranges
          const int which = rng.range(0, 9);
          const int s = rseg();
          Key k{ s, rview(), rax(s), rtang(), rtof() };
          std::string what;
          const bool hi = rng.coin();
          const int s0 = c.seq[0];
          switch (which)
            {
            case 0: k[0] = hi ? c.maxSeg + 1 : c.minSeg - 1; what = "segment"; break;
            case 1: k[2] = hi ? c.maxAxOf(s) + 1 : c.minAx[s] - 1; what = "axial"; break;
            case 2: k[4] = hi ? c.maxTof + 1 : c.minTof - 1; what = "tof"; break;
            case 3:
            case 4: // view: choose a bin whose (unchecked) alias stays inside the store
              // (first segment + first TOF bin of the stream, view = max+1: lands one sinogram / one segment further on;
              //  view = min-1 in the AxialPos_View order from the second axial position of segment 0: lands in the sinogram before)
              what = "view";
              if (view_hi_alias_inside(c) && (hi || c.order != 0))
                k = Key{ s0, c.maxView() + 1, c.minAx[s0], rtang(), c.tof0() };
              else if (c.order == 0)
                k = Key{ 0, c.minView - 1, c.minAx[0] + 1, rtang(), rtof() };
              else
                {
                  k = Key{ s0, c.minView, c.minAx[s0], c.maxTang() + 1, c.tof0() };
                  what = "tang";
                }
              break;
            case 5:
            case 6:
              // tang = max+1 on the first row of the stream aliases the next row; tang = min-1 from view min+1 aliases the row before
              if (hi)
                k = Key{ s0, c.minView, c.minAx[s0], c.maxTang() + 1, c.tof0() };
              else
                k = Key{ s, c.minView + 1, rax(s), c.minTang - 1, rtof() };
              what = "tang";
              break;
            default: break;
            }
          if (which <= 6)
            {
              const bool rd = rng.coin();
              if (rd)
                {
                  op << "getb " << k[0] << " " << k[1] << " " << k[2] << " " << k[3] << " " << k[4];
                  do_read(c, op.str(), [&]() { return std::vector<float>{ bin_get(c, k) }; }, {}, true, what);
                }
              else
                {
                  const float v = static_cast<float>(rng.range(201, 250));
                  op << "setb " << k[0] << " " << k[1] << " " << k[2] << " " << k[3] << " " << k[4] << " " << num(v);
                  do_write(c, rng, op.str(), [&]() { bin_set(c, k, v); return true; }, {}, true, what);
                }
            }
          else if (which == 7)
            { // sinogram with out-of-range axial position / viewgram, sinogram, segment with out-of-range TOF index
              const int kk = hi ? c.maxTof + 1 : c.minTof - 1;
              switch (rng.range(0, 4))
                {
                case 0:
                  op << "gets " << s << " " << c.maxAxOf(s) + 1 << " " << k[4];
                  do_read(c, op.str(), [&]() { pd.get_sinogram(c.maxAxOf(s) + 1, s, false, k[4]); return std::vector<float>(); }, {}, true, "axial");
                  break;
                case 1:
                  op << "getv " << s << " " << k[1] << " " << kk;
                  do_read(c, op.str(), [&]() { pd.get_viewgram(k[1], s, false, kk); return std::vector<float>(); }, {}, true, "tof");
                  break;
                case 2:
                  op << "gets " << s << " " << k[2] << " " << kk;
                  do_read(c, op.str(), [&]() { pd.get_sinogram(k[2], s, false, kk); return std::vector<float>(); }, {}, true, "tof");
                  break;
                case 3:
                  op << "getss " << s << " " << kk;
                  do_read(c, op.str(), [&]() { pd.get_segment_by_sinogram(s, kk); return std::vector<float>(); }, {}, true, "tof");
                  break;
                default:
                  op << "getsv " << s << " " << kk;
                  do_read(c, op.str(), [&]() { pd.get_segment_by_view(s, kk); return std::vector<float>(); }, {}, true, "tof");
                }
            }
          else if (which == 8)
            { // write of a viewgram / sinogram labelled with an out-of-range TOF index
              const int kk = hi ? c.maxTof + 1 : c.minTof - 1;
              if (rng.coin())
                {
                  const std::vector<float> vals = random_values(rng, bins_viewgram(c, s, k[1], c.minTof).size());
                  op << "setv " << s << " " << k[1] << " " << kk << vals_str(vals);
                  do_write(
                      c, rng, op.str(),
                      [&]() {
                        Viewgram<float> vg = pd.get_empty_viewgram(k[1], s, false, kk);
                        vg.fill(211.f);
                        return pd.set_viewgram(vg) == Succeeded::yes;
                      },
                      {}, true, "tof");
                }
              else
                {
                  const std::vector<float> vals = random_values(rng, bins_sinogram(c, s, k[2], c.minTof).size());
                  op << "sets " << s << " " << k[2] << " " << kk << vals_str(vals);
                  do_write(
                      c, rng, op.str(),
                      [&]() {
                        Sinogram<float> sg = pd.get_empty_sinogram(k[2], s, false, kk);
                        sg.fill(212.f);
                        return pd.set_sinogram(sg) == Succeeded::yes;
                      },
                      {}, true, "tof");
                }
            }
          else
            { // get_viewgram with view = max+1 for the first segment in the stream (alias stays inside the store)
              if (c.seq.size() < 2)
                {
                  --step;
                  break;
                }
              op << "getv " << s0 << " " << c.maxView() + 1 << " " << c.tof0();
              do_read(
                  c, op.str(),
                  [&]() {
                    const Viewgram<float> vg = pd.get_viewgram(c.maxView() + 1, s0, false, c.tof0());
                    std::vector<float> r;
                    for (int a = vg.get_min_axial_pos_num(); a <= vg.get_max_axial_pos_num(); ++a)
                      for (int t = vg.get_min_tangential_pos_num(); t <= vg.get_max_tangential_pos_num(); ++t)
                        r.push_back(vg[a][t]);
                    return r;
                  },
                  {}, true, "view");
            }
        }
        }
    }
}

// header round trip for an Interfile-backed case: the writer is still open
static void
header_roundtrip(Case& c)
{
  std::string verdict = "ok";
  ++g_checks;
  const std::string ctx = c.cfgline;
  try
    {
      shared_ptr<ProjData> rb = ProjData::read_from_file(c.headerfile);
      const ProjDataFromStream* pf = dynamic_cast<const ProjDataFromStream*>(rb.get());
      if (!(*rb->get_proj_data_info_sptr() == *c.pdi))
        verdict = "bad:geometry";
      else if (!(rb->get_exam_info() == *c.exam))
        verdict = "bad:exam-info";
      else if (!(rb->get_exam_info().patient_position == c.exam->patient_position)
               || rb->get_exam_info().get_low_energy_thres() != c.exam->get_low_energy_thres()
               || rb->get_exam_info().get_high_energy_thres() != c.exam->get_high_energy_thres()
               || rb->get_exam_info().time_frame_definitions.get_start_time(1) != c.exam->time_frame_definitions.get_start_time(1)
               || rb->get_exam_info().time_frame_definitions.get_end_time(1) != c.exam->time_frame_definitions.get_end_time(1)
               || rb->get_exam_info().imaging_modality.get_modality() != ImagingModality::PT)
        verdict = "bad:exam-info-fields";
      else if (!pf)
        verdict = "bad:type";
      else if (pf->get_segment_sequence_in_stream() != c.seq)
        verdict = "bad:segment-sequence";
      else if (pf->get_storage_order() != c.pdfs->get_storage_order())
        verdict = "bad:storage-order";
      else if (pf->get_data_type_in_stream().id != c.type.id || !(pf->get_byte_order_in_stream() == c.pdfs->get_byte_order_in_stream())
               || pf->get_offset_in_stream() != 0 || pf->get_scale_factor() != 1.f)
        verdict = "bad:number-format";
      else
        {
          for (int k = c.minTof; k <= c.maxTof && verdict == "ok"; ++k)
            for (int s = c.minSeg; s <= c.maxSeg && verdict == "ok"; ++s)
              {
                const SegmentByView<float> seg = rb->get_segment_by_view(s, k);
                for (const Key& b : bins_seg_by_view(c, s, k))
                  if (seg[b[1]][b[2]][b[3]] != c.ref[b])
                    {
                      verdict = "bad:values";
                      break;
                    }
              }
        }
    }
  catch (...)
    {
      verdict = "bad:threw";
    }
  emit("hdr", verdict);
  if (verdict != "ok")
    oracle_fail(ctx, "header round trip (ProjDataInterfile -> ProjData::read_from_file, writer still open): " + verdict);
}

// ProjData::write_to_file (any backing) -> ProjData::read_from_file
static void
write_to_file_roundtrip(Case& c, const std::string& outdir)
{
  std::string verdict = "ok";
  ++g_checks;
  const std::string base = outdir + "/c02_" + std::to_string(static_cast<long>(getpid())) + "_wtf";
  try
    {
      if (c.pd->write_to_file(base + ".hs") != Succeeded::yes)
        verdict = "bad:write";
      else
        {
          shared_ptr<ProjData> rb = ProjData::read_from_file(base + ".hs");
          if (!(*rb->get_proj_data_info_sptr() == *c.pdi))
            verdict = "bad:geometry";
          else if (!(rb->get_exam_info() == *c.exam))
            verdict = "bad:exam-info";
          else
            for (int k = c.minTof; k <= c.maxTof && verdict == "ok"; ++k)
              for (int s = c.minSeg; s <= c.maxSeg && verdict == "ok"; ++s)
                {
                  const SegmentBySinogram<float> seg = rb->get_segment_by_sinogram(s, k);
                  for (const Key& b : bins_seg_by_sino(c, s, k))
                    if (seg[b[2]][b[1]][b[3]] != c.ref[b])
                      {
                        verdict = "bad:values";
                        break;
                      }
                }
        }
    }
  catch (...)
    {
      verdict = "bad:threw";
    }
  std::remove((base + ".hs").c_str());
  std::remove((base + ".s").c_str());
  emit("wtf", verdict);
  if (verdict != "ok")
    oracle_fail(c.cfgline, "ProjData::write_to_file -> ProjData::read_from_file: " + verdict);
}

// exam-information fields the projection-data header does not carry
static void
header_exam_info_extras(const std::string& outdir)
{
  shared_ptr<Scanner> scanner = vh::make_scanner(8, 2);
  shared_ptr<ProjDataInfo> pdi = vh::make_pdi(scanner, 1, 1, 4, 3, false, 0);
  const std::string pid = std::to_string(static_cast<long>(getpid()));
  for (int which = 0; which < 2; ++which)
    {
      shared_ptr<ExamInfo> exam(new ExamInfo(ImagingModality::PT));
      {
        RadionuclideDB db;
        exam->set_radionuclide(db.get_radionuclide(ImagingModality(ImagingModality::PT), "^18^Fluorine"));
        // (a frame definition is needed too: TimeFrameDefinitions::operator== throws std::out_of_range when the
        //  right-hand side has fewer frames, and the header reader always creates one frame)
        TimeFrameDefinitions tf;
        tf.set_num_time_frames(1);
        tf.set_time_frame(1, 0., 60.);
        exam->set_time_frame_definitions(tf);
      }
      if (which == 0)
        exam->start_time_in_secs_since_1970 = 1.0e9;
      else
        exam->set_calibration_factor(2.5f);
      const std::string base = outdir + "/c02_" + pid + "_examinfo" + std::to_string(which);
      bool equal = false, threw = false, field_ok = false;
      try
        {
          {
            ProjDataInterfile pd(exam, pdi, base + ".hs", std::ios::in | std::ios::out | std::ios::trunc);
            pd.fill(1.f);
          }
          shared_ptr<ProjData> rb = ProjData::read_from_file(base + ".hs");
          equal = rb->get_exam_info() == *exam;
          field_ok = which == 0 ? std::fabs(rb->get_exam_info().start_time_in_secs_since_1970 - 1.0e9) <= .5
                                : std::fabs(rb->get_exam_info().get_calibration_factor() - 2.5f) <= 2.5e-3f;
        }
      catch (std::exception& e)
        {
          std::fprintf(g_orc, "INFO hdrx exception: %s\n", e.what());
          threw = true;
        }
      catch (...)
        {
          threw = true;
        }
      std::remove((base + ".hs").c_str());
      std::remove((base + ".s").c_str());
      ++g_checks;
      emit(std::string("hdrx ") + (which == 0 ? "start-time" : "calibration-factor"), "done");
      if (threw)
        oracle_fail("hdrx", "header round trip threw");
      else if (!field_ok)
        {
          if (which == 0)
            known("header:start-time-not-written",
                  "write_basic_interfile_PDFS_header does not write 'study date/time': ExamInfo::start_time_in_secs_since_1970 (1e9) is 0 "
                  "after ProjDataInterfile -> ProjData::read_from_file, so ExamInfo::operator== is false (the image header writer does "
                  "write it)");
          else
            known("header:calibration-factor-not-written",
                  "write_basic_interfile_PDFS_header does not write 'calibration factor': ExamInfo calibration factor 2.5 is -1 after "
                  "ProjDataInterfile -> ProjData::read_from_file, so ExamInfo::operator== is false (the image header writer does write it)");
        }
      else if (!equal)
        oracle_fail("hdrx", std::string("exam information differs after the header round trip although ")
                                + (which == 0 ? "the start time" : "the calibration factor") + " was read back");
    }
}

int
main(int argc, char** argv)
{
  if (argc < 5)
    return 2;
  vh::quiet();
  vh::Rng rng(std::strtoull(argv[1], nullptr, 10) * 2654435761ULL + 2);
  const bool thorough = std::string(argv[2]) == "thorough";
  g_ops = std::fopen(argv[3], "w");
  g_out = std::fopen(argv[4], "w");
  g_orc = std::fopen((std::string(argv[4]) + ".oracle").c_str(), "w");
  std::string outdir = argv[3];
  outdir = outdir.substr(0, outdir.find_last_of('/'));
  if (outdir.empty() || outdir == argv[3])
    outdir = ".";

  probe_flush(outdir);

  const int ncases = thorough ? 3000 : 160;
  const int len = thorough ? 80 : 30;
  static const char* backs[] = { "ss", "fs", "if", "mem", "ss", "fs", "if", "ss" };
  int done = 0, tries = 0;
  while (done < ncases && tries < 20 * ncases)
    {
      ++tries;
      Case c;
      const std::string backing = backs[done % 8];
      bool ok = false;
      try
        {
          ok = build_case(c, rng, outdir, done, backing);
        }
      catch (...)
        {
          ok = false;
        }
      if (!ok)
        continue;
      g_signed_values = c.backing == "mem" || c.type.id != NumericType::USHORT;
      probe_range_checks(c);
      write_cfg(c);
      run_history(c, rng, len);
      if (c.backing == "if")
        header_roundtrip(c);
      else if (c.symmetric_ok && done % 2 == 0)
        write_to_file_roundtrip(c, outdir);
      ++done;
      // keep build/out small
      if (!c.datafile.empty())
        {
          c.pd.reset();
          c.fs.reset();
          std::remove(c.datafile.c_str());
          if (!c.headerfile.empty())
            std::remove(c.headerfile.c_str());
        }
    }
  header_exam_info_extras(outdir);
  std::remove((outdir + "/c02_" + std::to_string(static_cast<long>(getpid())) + "_flushprobe.dat").c_str());

  std::fprintf(g_orc, "INFO cases=%d", done);
  for (auto& kv : g_hist)
    std::fprintf(g_orc, " %s=%ld", kv.first.c_str(), kv.second);
  std::fprintf(g_orc, "\n");
  std::fprintf(g_orc, "ORACLE-DONE checks=%ld fails=%ld\n", g_checks, g_fails);
  std::fclose(g_ops);
  std::fclose(g_out);
  std::fclose(g_orc);
  return 0;
}
