// C06 — implementation side.  Generates configurations (views, symmetry switches, segment range,
// subsets, TOF) and records what the real STIR code does:
//   DataSymmetriesForBins_PET_CartesianGrid::{find_basic_view_segment_numbers, get_related_view_segment_numbers,
//     num_related_view_segment_numbers, is_basic}, detail::find_basic_vs_nums_in_subset,
//   PoissonLogLikelihoodWithLinearModelForMeanAndProjData::subsets_are_approximately_balanced,
//   IterativeReconstruction::get_subset_num (with rand() scripted by this harness).
// Usage: c06_subsets <seed> <quick|thorough> <opsfile> <implfile>
// Also evaluates the property's own statement on the implementation (ORACLE lines in implfile's .oracle).
#include "stir_fixtures.h"
#include "common.h"
#include "stir/recon_buildblock/DataSymmetriesForBins_PET_CartesianGrid.h"
#include "stir/recon_buildblock/find_basic_vs_nums_in_subsets.h"
#include "stir/recon_buildblock/PoissonLogLikelihoodWithLinearModelForMeanAndProjData.h"
#include "stir/recon_buildblock/ProjMatrixByBinUsingRayTracing.h"
#include "stir/recon_buildblock/ProjectorByBinPairUsingProjMatrixByBin.h"
#include "stir/OSMAPOSL/OSMAPOSLReconstruction.h"
#include "stir/ProjDataInMemory.h"
#include "stir/ViewSegmentNumbers.h"
#include "stir/DiscretisedDensity.h"
#include <algorithm>
#include <map>
#include <set>

using namespace stir;

// ---- scripted rand() -----------------------------------------------------------------
static std::vector<int> g_rand_script;
static std::size_t g_rand_pos = 0;
static bool g_rand_scripted = false;
extern "C" int
rand(void)
{
  if (g_rand_scripted && g_rand_pos < g_rand_script.size())
    return g_rand_script[g_rand_pos++];
  return 12345;
}

typedef DiscretisedDensity<3, float> TargetT;

struct Probe : public OSMAPOSLReconstruction<TargetT>
{
  void configure(int n, int start_subset, bool randomise)
  {
    this->num_subsets = n;
    this->start_subset_num = start_subset;
    this->randomise_subset_order = randomise;
  }
  int at(int subiter)
  {
    this->subiteration_num = subiter;
    return this->get_subset_num();
  }
};

static std::string
vs_list(std::vector<ViewSegmentNumbers> v, bool sort)
{
  std::vector<std::pair<int, int>> p;
  for (auto& x : v)
    p.push_back(std::make_pair(x.view_num(), x.segment_num()));
  if (sort)
    std::sort(p.begin(), p.end());
  std::ostringstream s;
  for (std::size_t i = 0; i < p.size(); ++i)
    s << (i ? " " : "") << p[i].first << ":" << p[i].second;
  return s.str();
}

int
main(int argc, char** argv)
{
  if (argc < 5)
    return 2;
  vh::quiet();
  vh::Rng rng(std::strtoull(argv[1], nullptr, 10) * 1315423911ULL + 6);
  const bool thorough = std::string(argv[2]) == "thorough";
  FILE* ops = std::fopen(argv[3], "w");
  FILE* out = std::fopen(argv[4], "w");
  FILE* orc = std::fopen((std::string(argv[4]) + ".oracle").c_str(), "w");
  long oracle_checks = 0, oracle_fails = 0;

  const int maxV = thorough ? 96 : 40;
  std::vector<int> views;
  for (int V = 1; V <= maxV; ++V)
    views.push_back(V);
  if (!thorough)
    { // keep the quick tier quick: all V up to 24, then a seeded sample
      views.clear();
      for (int V = 1; V <= 24; ++V)
        views.push_back(V);
      for (int k = 0; k < 6; ++k)
        views.push_back(rng.range(25, 96));
    }

  for (int V : views)
    {
      // a scanner with 2V detectors per ring gives V views without mashing; 3 rings -> segments -2..2
      const int R = 3;
      for (int tof = 0; tof < 2; ++tof)
        {
          if (tof && (V % 3 != 0))
            continue; // TOF geometries only for a third of the view counts
          shared_ptr<Scanner> scanner = vh::make_scanner(2 * V, R, tof ? 5 : -1);
          shared_ptr<ProjDataInfo> pdi;
          try
            {
              pdi = vh::make_pdi(scanner, 1, R - 1, V, std::max(1, V / 2), false, tof ? 1 : 0);
            }
          catch (...)
            {
              continue;
            }
          const int min_tof = pdi->get_min_tof_pos_num(), max_tof = pdi->get_max_tof_pos_num();
          shared_ptr<DiscretisedDensity<3, float>> image = vh::make_image(*pdi, 1.F, 5, 2 * R - 1);
          for (int flags = 0; flags < 8; ++flags)
            {
              const bool d90v = flags & 1, d180v = flags & 2, swap = flags & 4;
              // TOF data: the ray tracing matrix switches view symmetries off itself; here we talk to the symmetries object directly
              DataSymmetriesForBins_PET_CartesianGrid sym(pdi, image, d90v, d180v, swap, /*swap_s*/ true, /*shift_z*/ true);
              const DataSymmetriesForViewSegmentNumbers& symvs = sym;
              std::fprintf(ops, "cfg %d %d %d %d 1 %d\n", V, d90v, d180v, swap, tof);
              std::fprintf(out, "eff %d %d %d\n", sym.using_symmetry_90degrees_min_phi() ? 1 : 0, sym.using_symmetry_180degrees_min_phi() ? 1 : 0, sym.using_symmetry_swap_segment() ? 1 : 0);
              // every (view, segment)
              std::map<std::pair<int, int>, int> seen;
              for (int seg = -(R - 1); seg <= R - 1; ++seg)
                for (int v = 0; v < V; ++v)
                  {
                    ViewSegmentNumbers vs(v, seg);
                    const bool change = sym.find_basic_view_segment_numbers(vs);
                    std::fprintf(ops, "basic %d %d\n", v, seg);
                    std::fprintf(out, "%d %d %d\n", vs.view_num(), vs.segment_num(), change ? 1 : 0);
                    if (symvs.is_basic(ViewSegmentNumbers(v, seg)))
                      {
                        std::vector<ViewSegmentNumbers> rel;
                        sym.get_related_view_segment_numbers(rel, ViewSegmentNumbers(v, seg));
                        std::fprintf(ops, "rel %d %d\n", v, seg);
                        std::fprintf(out, "%s\n", vs_list(rel, true).c_str());
                        std::fprintf(ops, "nrel %d %d\n", v, seg);
                        std::fprintf(out, "%d\n", sym.num_related_view_segment_numbers(ViewSegmentNumbers(v, seg)));
                      }
                  }
              // subsets
              std::vector<int> ns;
              for (int n = 1; n <= V; ++n)
                if (thorough || n <= 6 || V % n == 0 || rng.range(0, 5) == 0)
                  ns.push_back(n);
              for (int n : ns)
                {
                  const int maxseg = rng.range(0, R - 1);
                  std::map<std::pair<int, int>, int> count;
                  std::vector<std::size_t> sizes;
                  for (int i = 0; i < n; ++i)
                    {
                      std::vector<ViewSegmentNumbers> basics
                          = detail::find_basic_vs_nums_in_subset(*pdi, sym, -maxseg, maxseg, i, n);
                      std::vector<ViewSegmentNumbers> all;
                      for (auto& b : basics)
                        {
                          std::vector<ViewSegmentNumbers> rel;
                          sym.get_related_view_segment_numbers(rel, b);
                          all.insert(all.end(), rel.begin(), rel.end());
                        }
                      sizes.push_back(all.size());
                      for (auto& x : all)
                        count[std::make_pair(x.view_num(), x.segment_num())]++;
                      std::fprintf(ops, "subset %d %d %d %d %d %d\n", i, n, -maxseg, maxseg, min_tof, max_tof);
                      std::fprintf(out, "%s\n", vs_list(all, true).c_str());
                    }
                  // ORACLE (property statement on the implementation): every (view,segment) exactly once
                  ++oracle_checks;
                  bool ok = true;
                  for (int seg = -maxseg; seg <= maxseg && ok; ++seg)
                    for (int v = 0; v < V && ok; ++v)
                      ok = count[std::make_pair(v, seg)] == 1;
                  for (auto& kv : count)
                    if (kv.second != 1 || kv.first.first < 0 || kv.first.first >= V || std::abs(kv.first.second) > maxseg)
                      ok = false;
                  if (!ok)
                    {
                      ++oracle_fails;
                      std::fprintf(orc, "ORACLE-FAIL partition V=%d flags=%d n=%d maxseg=%d tof=%d\n", V, flags, n, maxseg, tof);
                    }
                }
            }
        }
    }

  // ---- balanced flag through the real objective function (non-TOF; uses the projector's symmetries)
  {
    std::vector<int> bviews = { 2, 3, 4, 5, 7, 8, 10, 12, 13, 16 };
    if (thorough)
      for (int V = 17; V <= 40; ++V)
        bviews.push_back(V);
    else
      bviews.push_back(4 * rng.range(5, 12) + rng.range(0, 3));
    const int flag_sets[] = { 0, 2, 3, 4, 7 };
    for (int V : bviews)
      for (int flags : flag_sets)
        {
          const int R = 3;
          shared_ptr<Scanner> scanner = vh::make_scanner(2 * V, R);
          shared_ptr<ProjDataInfo> pdi = vh::make_pdi(scanner, 1, R - 1, V, std::max(1, std::min(5, V - 1)), false, 0);
          shared_ptr<ExamInfo> exam(new ExamInfo);
          exam->imaging_modality = ImagingModality::PT;
          shared_ptr<ProjData> data(new ProjDataInMemory(exam, pdi));
          shared_ptr<DiscretisedDensity<3, float>> image = vh::make_image(*pdi, 1.F, 5, 2 * R - 1);
          shared_ptr<ProjMatrixByBinUsingRayTracing> pm(new ProjMatrixByBinUsingRayTracing);
          pm->set_do_symmetry_90degrees_min_phi(flags & 1);
          pm->set_do_symmetry_180degrees_min_phi(flags & 2);
          pm->set_do_symmetry_swap_segment(flags & 4);
          shared_ptr<ProjectorByBinPair> pair(new ProjectorByBinPairUsingProjMatrixByBin(pm));
          pair->set_up(pdi, image);
          const DataSymmetriesForBins_PET_CartesianGrid* ps
              = dynamic_cast<const DataSymmetriesForBins_PET_CartesianGrid*>(pm->get_symmetries_ptr());
          std::fprintf(ops, "cfg %d %d %d %d 1 0\n", V, flags & 1 ? 1 : 0, flags & 2 ? 1 : 0, flags & 4 ? 1 : 0);
          std::fprintf(out, "eff %d %d %d\n", ps->using_symmetry_90degrees_min_phi() ? 1 : 0,
                       ps->using_symmetry_180degrees_min_phi() ? 1 : 0, ps->using_symmetry_swap_segment() ? 1 : 0);
          for (int n = 1; n <= V; ++n)
            {
              if (!thorough && V > 16 && n > 8 && V % n > 1)
                continue;
              for (int maxseg = 0; maxseg <= R - 1; maxseg += R - 1)
                {
                  PoissonLogLikelihoodWithLinearModelForMeanAndProjData<TargetT> obj;
                  obj.set_proj_data_sptr(data);
                  obj.set_projector_pair_sptr(pair);
                  obj.set_max_segment_num_to_process(maxseg);
                  obj.set_num_subsets(n);
                  const bool b = obj.subsets_are_approximately_balanced();
                  std::fprintf(ops, "balanced %d %d\n", n, maxseg);
                  std::fprintf(out, "%d\n", b ? 1 : 0);
                  // ORACLE (property statement on the implementation): balanced iff all subsets process the same number of viewgrams
                  ++oracle_checks;
                  std::vector<std::size_t> counts;
                  for (int i = 0; i < n; ++i)
                    {
                      std::size_t c = 0;
                      for (auto& bvs : detail::find_basic_vs_nums_in_subset(*pdi, *ps, -maxseg, maxseg, i, n))
                        {
                          std::vector<ViewSegmentNumbers> rel;
                          ps->get_related_view_segment_numbers(rel, bvs);
                          c += rel.size();
                        }
                      counts.push_back(c);
                    }
                  const bool equal = std::all_of(counts.begin(), counts.end(), [&](std::size_t c) { return c == counts[0]; });
                  if (equal != b)
                    {
                      ++oracle_fails;
                      std::fprintf(orc, "ORACLE-FAIL balanced flag %d but per-subset viewgram counts are %s: V=%d flags=%d n=%d maxseg=%d\n", b ? 1 : 0,
                                   equal ? "equal" : "unequal", V, flags, n, maxseg);
                    }
                }
            }
        }
  }

  // ---- schedules
  {
    Probe probe;
    const int ns = thorough ? 400 : 80;
    for (int k = 0; k < ns; ++k)
      {
        const int n = rng.range(1, 12);
        const int start_subset = rng.range(0, n - 1);
        const bool randomise = rng.coin();
        const int iters = rng.range(1, 3);
        probe.configure(n, start_subset, randomise);
        g_rand_script.clear();
        g_rand_pos = 0;
        std::ostringstream draws;
        if (randomise)
          {
            for (int it = 0; it < iters; ++it)
              for (int i = 0; i < n; ++i)
                {
                  // include RAND_MAX itself (the index == n-i corner) now and then
                  const int r = rng.range(0, 9) == 0 ? RAND_MAX : static_cast<int>(rng.next() % (static_cast<uint64_t>(RAND_MAX) + 1));
                  g_rand_script.push_back(r);
                  const int d = (int)(((float)r / (float)RAND_MAX) * (n - i));
                  draws << " " << d;
                }
          }
        g_rand_scripted = true;
        std::ostringstream seq;
        std::vector<int> used;
        for (int s = 1; s <= iters * n; ++s)
          {
            const int sub = probe.at(s);
            used.push_back(sub);
            seq << (s > 1 ? " " : "") << sub;
          }
        g_rand_scripted = false;
        std::fprintf(ops, "sched %d %d %d %d%s\n", n, start_subset, randomise ? 1 : 0, iters, draws.str().c_str());
        std::fprintf(out, "%s\n", seq.str().c_str());
        // ORACLE: each full iteration uses every subset exactly once
        ++oracle_checks;
        bool ok = true;
        for (int it = 0; it < iters && ok; ++it)
          {
            std::set<int> s(used.begin() + it * n, used.begin() + (it + 1) * n);
            ok = static_cast<int>(s.size()) == n && *s.begin() == 0 && *s.rbegin() == n - 1;
          }
        if (!ok)
          {
            ++oracle_fails;
            std::fprintf(orc, "ORACLE-FAIL schedule n=%d start=%d randomise=%d: %s\n", n, start_subset, randomise, seq.str().c_str());
          }
      }
  }
  std::fprintf(orc, "ORACLE-DONE checks=%ld fails=%ld\n", oracle_checks, oracle_fails);
  std::fclose(ops);
  std::fclose(out);
  std::fclose(orc);
  return 0;
}
