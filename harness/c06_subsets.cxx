// C06 — implementation side.  Generates configurations (views, symmetry switches, segment range,
// subsets, TOF) and records what the real STIR code does:
//   DataSymmetriesForBins_PET_CartesianGrid::{find_basic_view_segment_numbers, get_related_view_segment_numbers,
//     num_related_view_segment_numbers, is_basic}, detail::find_basic_vs_nums_in_subset,
//   PoissonLogLikelihoodWithLinearModelForMeanAndProjData::subsets_are_approximately_balanced,
//   IterativeReconstruction::get_subset_num (with rand() scripted by this harness),
//   IterativeReconstruction/OSMAPOSLReconstruction::set_up + reconstruct (the subset number of every sub-iteration recorded by a
//     wrapping objective function; random start_subiteration_num / start_subset_num / randomise flag),
//   BackProjectorByBin::back_project(ProjData, subset, n) / ForwardProjectorByBin::forward_project(ProjData, image, subset, n)
//     of the matrix projectors (every viewgram read / written recorded by a wrapping ProjData, TOF and non-TOF),
//   subsets_are_approximately_balanced after set_up (default max_segment_num_to_process = -1, TOF data), TrivialDataSymmetriesForBins.
// Usage: c06_subsets <seed> <quick|thorough> <opsfile> <implfile>
// Also evaluates the property's own statement on the implementation (ORACLE lines in implfile's .oracle).
#include "stir_fixtures.h"
#include "common.h"
#include "stir/recon_buildblock/DataSymmetriesForBins_PET_CartesianGrid.h"
#include "stir/recon_buildblock/find_basic_vs_nums_in_subsets.h"
#include "stir/recon_buildblock/PoissonLogLikelihoodWithLinearModelForMeanAndProjData.h"
#include "stir/recon_buildblock/ProjMatrixByBinUsingRayTracing.h"
#include "stir/recon_buildblock/ProjectorByBinPairUsingProjMatrixByBin.h"
#include "stir/OSMAPOSL/OSMAPOSLReconstruction.h"
#include "stir/recon_buildblock/TrivialDataSymmetriesForBins.h"
#include "stir/recon_buildblock/ForwardProjectorByBin.h"
#include "stir/recon_buildblock/BackProjectorByBin.h"
#include "stir/RelatedViewgrams.h"
#include "stir/Viewgram.h"
#include "stir/ExamInfo.h"
#include <array>
#include <cmath>
#include "stir/ProjDataInMemory.h"
#include "stir/ViewSegmentNumbers.h"
#include "stir/DiscretisedDensity.h"
#include <algorithm>
#include <map>
#include <set>

using namespace stir;

// ---- scripted rand() -----------------------------------------------------------------
static std::vector<int> g_rand_script;
static std::size_t g_rand_pos = 0;
static bool g_rand_scripted = false;
extern "C" int
rand(void)
{
  if (g_rand_scripted)
    {
      const std::size_t k = g_rand_pos++; // counts every call, also beyond the script
      return k < g_rand_script.size() ? g_rand_script[k] : 12345;
    }
  return 12345;
}

typedef DiscretisedDensity<3, float> TargetT;

struct Probe : public OSMAPOSLReconstruction<TargetT>
{
  void configure(int n, int start_subset, bool randomise)
  {
    this->num_subsets = n;
    this->start_subset_num = start_subset;
    this->randomise_subset_order = randomise;
  }
  int at(int subiter)
  {
    this->subiteration_num = subiter;
    return this->get_subset_num();
  }
};

static std::string
vs_list(std::vector<ViewSegmentNumbers> v, bool sort)
{
  std::vector<std::pair<int, int>> p;
  for (auto& x : v)
    p.push_back(std::make_pair(x.view_num(), x.segment_num()));
  if (sort)
    std::sort(p.begin(), p.end());
  std::ostringstream s;
  for (std::size_t i = 0; i < p.size(); ++i)
    s << (i ? " " : "") << p[i].first << ":" << p[i].second;
  return s.str();
}

// ======================================================================================================================
// Extension: the real reconstruct loop, the real projector loops over (basic view/segment, TOF bin), the balanced flag
// after set_up, the trivial symmetries class.
// ======================================================================================================================
typedef PoissonLogLikelihoodWithLinearModelForMeanAndProjData<TargetT> ObjT;

struct Sink
{
  FILE *ops, *out, *orc;
  long checks = 0, fails = 0;
};

struct Geo
{
  int V = 0, R = 0, tofbins = 0, flags = 0;
  shared_ptr<ProjDataInfo> pdi;
  shared_ptr<ExamInfo> exam;
  shared_ptr<DiscretisedDensity<3, float>> image;
  shared_ptr<ProjMatrixByBinUsingRayTracing> pm;
  shared_ptr<ProjectorByBinPair> pair;
  const DataSymmetriesForBins_PET_CartesianGrid* sym = nullptr;
  bool tof() const { return tofbins > 0; }
};

// V views (2V detectors per ring), R rings, span 1 (segments -(R-1)..R-1), optional TOF (tofbins bins, mashing 1), matrix projectors
static bool
make_geo(Geo& g, int V, int R, int tofbins, int flags)
{
  g.V = V, g.R = R, g.tofbins = tofbins, g.flags = flags;
  try
    {
      shared_ptr<Scanner> scanner = vh::make_scanner(2 * V, R, tofbins > 0 ? tofbins : -1);
      g.pdi = vh::make_pdi(scanner, 1, R - 1, V, std::max(1, std::min(5, V - 1)), false, tofbins > 0 ? 1 : 0);
      g.exam.reset(new ExamInfo);
      g.exam->imaging_modality = ImagingModality::PT;
      g.image = vh::make_image(*g.pdi, 1.F, 5, 2 * R - 1);
      g.image->set_exam_info(*g.exam);
      g.pm.reset(new ProjMatrixByBinUsingRayTracing);
      g.pm->set_do_symmetry_90degrees_min_phi(flags & 1);
      g.pm->set_do_symmetry_180degrees_min_phi(flags & 2);
      g.pm->set_do_symmetry_swap_segment(flags & 4);
      g.pair.reset(new ProjectorByBinPairUsingProjMatrixByBin(g.pm));
      g.pair->set_up(g.pdi, g.image);
      g.sym = dynamic_cast<const DataSymmetriesForBins_PET_CartesianGrid*>(g.pm->get_symmetries_ptr());
      return g.sym != nullptr;
    }
  catch (...)
    {
      return false;
    }
}

static void
put_cfg(Sink& k, const Geo& g)
{
  std::fprintf(k.ops, "cfg %d %d %d %d 1 %d\n", g.V, g.flags & 1 ? 1 : 0, g.flags & 2 ? 1 : 0, g.flags & 4 ? 1 : 0, g.tof() ? 1 : 0);
  std::fprintf(k.out, "eff %d %d %d\n", g.sym->using_symmetry_90degrees_min_phi() ? 1 : 0,
               g.sym->using_symmetry_180degrees_min_phi() ? 1 : 0, g.sym->using_symmetry_swap_segment() ? 1 : 0);
}

// ---- objective function that records the subset number of every call and otherwise is the real one
struct RecObj : public ObjT
{
  bool force_balanced = false;
  std::vector<int> calls;              // subset_num of every sub-gradient computation, in order
  std::vector<std::size_t> rpos;       // number of rand() calls made before that computation
  mutable std::vector<int> sens_calls; // subset_num of every subset-sensitivity computation
  void actual_compute_subset_gradient_without_penalty(TargetT& gradient, const TargetT& estimate, const int subset_num,
                                                      const bool add_sensitivity) override
  {
    calls.push_back(subset_num);
    rpos.push_back(g_rand_pos);
    if (subset_num >= 0 && subset_num < this->num_subsets)
      ObjT::actual_compute_subset_gradient_without_penalty(gradient, estimate, subset_num, add_sensitivity);
    else
      std::fill(gradient.begin_all(), gradient.end_all(), 0.F);
  }
  void add_subset_sensitivity(TargetT& sensitivity, const int subset_num) const override
  {
    sens_calls.push_back(subset_num);
    ObjT::add_subset_sensitivity(sensitivity, subset_num);
  }
  bool actual_subsets_are_approximately_balanced(std::string& w) const override
  {
    return force_balanced ? true : ObjT::actual_subsets_are_approximately_balanced(w);
  }
};

static int
draw_of(int r, int n, int i)
{
  return (int)(((float)r / (float)RAND_MAX) * (n - i)); // the expression of randomly_permute_subset_order
}

static bool
is_perm_block(const std::vector<int>& v, std::size_t from, int n)
{
  if (from + n > v.size())
    return false;
  std::vector<int> c(n, 0);
  for (int j = 0; j < n; ++j)
    {
      const int x = v[from + j];
      if (x < 0 || x >= n || c[x]++)
        return false;
    }
  return true;
}

static std::string
int_list(const std::vector<int>& v, std::size_t from = 0, std::size_t to = std::string::npos)
{
  std::ostringstream s;
  bool first = true;
  for (std::size_t j = from; j < v.size() && j < to; ++j, first = false)
    s << (first ? "" : " ") << v[j];
  return first ? std::string("-") : s.str();
}

// ---- (1) IterativeReconstruction::set_up / reconstruct: the schedule observed on the real loop
static void
run_recon_cases(vh::Rng& rng, bool thorough, Sink& k)
{
  static const int Vs[] = { 2, 3, 4, 5, 6, 7, 8, 9, 10, 12, 15, 16 };
  const int ncases = thorough ? 15000 : 600;
  for (int c = 0; c < ncases; ++c)
    {
      const int V = (thorough && c % 4 == 3) ? rng.range(2, 24) : Vs[rng.range(0, 11)];
      const int R = rng.range(1, 2);
      const int tofbins = (c % 5 == 3) ? (rng.coin() ? 3 : 5) : 0;
      const int flags = rng.range(0, 7);
      Geo g;
      if (!make_geo(g, V, R, tofbins, flags))
        continue;
      put_cfg(k, g);
      const bool force = rng.range(0, 2) != 0;
      int n;
      if (force || rng.range(0, 3) == 0)
        n = rng.range(1, std::min(V, 12));
      else
        {
          std::vector<int> divs;
          for (int d = 1; d <= V; ++d)
            if (V % d == 0)
              divs.push_back(d);
          n = divs[rng.range(0, static_cast<int>(divs.size()) - 1)];
        }
      const bool use_ss = rng.coin();
      const bool rnd = rng.coin();
      int ss = rng.range(0, n - 1);
      int N = n * rng.range(1, 3) + rng.range(0, n - 1);
      int s0;
      switch (rng.range(0, 3))
        {
        case 0:
          s0 = 1;
          break;
        case 1:
          s0 = n * rng.range(0, (N - 1) / n) + 1;
          break;
        default:
          s0 = rng.range(1, N);
        }
      switch (rng.range(0, 29)) // malformed parameters now and then
        {
        case 0: ss = n; break;
        case 1: ss = -1; break;
        case 2: s0 = 0; break;
        case 3: N = 0; break;
        case 4: n = 0, ss = 0; break;
        case 5: s0 = N + 1; break;
        case 6: s0 = N + 3; break;
        default: break;
        }
      // rand() script
      g_rand_script.clear();
      std::ostringstream draws;
      const int K = n > 0 ? n * (std::max(N, 0) / n + 2) : 0;
      for (int j = 0; j < K; ++j)
        {
          const int r = rng.range(0, 9) == 0 ? RAND_MAX : static_cast<int>(rng.next() % (static_cast<uint64_t>(RAND_MAX) + 1));
          g_rand_script.push_back(r);
          draws << " " << draw_of(r, n, j % n);
        }
      const int maxseg = g.pdi->get_max_segment_num();
      std::fprintf(k.ops, "recon %d %d %d %d %d %d %d %d%s\n", n, ss, s0, rnd ? 1 : 0, N, force ? 0 : 1, use_ss ? 1 : 0, maxseg,
                   draws.str().c_str());

      RecObj* obj = new RecObj;
      shared_ptr<GeneralisedObjectiveFunction<TargetT>> obj_sptr(obj);
      shared_ptr<ProjData> data(new ProjDataInMemory(g.exam, g.pdi));
      data->fill(1.F);
      obj->set_proj_data_sptr(data);
      obj->set_projector_pair_sptr(g.pair);
      obj->set_use_subset_sensitivities(use_ss);
      obj->force_balanced = force;
      OSMAPOSLReconstruction<TargetT> recon;
      shared_ptr<TargetT> image(g.image->clone());
      std::fill(image->begin_all(), image->end_all(), 1.F);
      bool ok = true;
      try
        {
          recon.set_objective_function_sptr(obj_sptr);
          recon.set_num_subsets(n);
          recon.set_start_subset_num(ss);
          recon.set_num_subiterations(N);
          recon.set_start_subiteration_num(s0);
          recon.set_randomise_subset_order(rnd);
          recon.set_save_interval(std::max(N, 1));
          recon.set_disable_output(true);
          if (recon.set_up(image) != Succeeded::yes)
            ok = false;
        }
      catch (...)
        {
          ok = false;
        }
      if (!ok)
        {
          std::fprintf(k.out, "err\n");
          continue;
        }
      // ORACLE: set_up computes the sensitivity of every subset exactly once
      {
        ++k.checks;
        std::vector<int> sc = obj->sens_calls;
        if (!is_perm_block(sc, 0, n) || static_cast<int>(sc.size()) != n)
          {
            ++k.fails;
            std::fprintf(k.orc, "ORACLE-FAIL set_up did not compute the sensitivity of every subset exactly once: V=%d n=%d: %s\n", V, n,
                         int_list(sc).c_str());
          }
      }
      // (runs with randomised order that start inside a full iteration indexed an empty array before the repair bfafc063a:
      //  they are ordinary runs now; a crash there aborts this harness and is reported as such)
      g_rand_pos = 0;
      g_rand_scripted = true;
      try
        {
          if (recon.reconstruct(image) != Succeeded::yes)
            ok = false;
        }
      catch (...)
        {
          ok = false;
        }
      g_rand_scripted = false;
      const std::vector<int>& calls = obj->calls;
      if (!ok)
        std::fprintf(k.out, "err\n");
      else
        std::fprintf(k.out, "%s\n", int_list(calls).c_str());

      // ORACLE (the property's schedule clause on the real loop): one objective-function call per sub-iteration s0..N, all subset
      // numbers valid, and every full iteration (sub-iterations m*n+1..(m+1)*n inside s0..N) uses each subset exactly once
      ++k.checks;
      std::string why;
      if (!ok)
        why = "reconstruct failed";
      else
        {
          const int expect = std::max(0, N - s0 + 1);
          if (static_cast<int>(calls.size()) != expect)
            why = "number of sub-gradient computations differs from the number of sub-iterations";
          for (int x : calls)
            if (x < 0 || x >= n)
              why = "subset number out of range";
          if (why.empty())
            {
              for (int m = 0; (m + 1) * n <= N && why.empty(); ++m)
                if (m * n + 1 >= s0 && !is_perm_block(calls, m * n + 1 - s0, n))
                  why = "a full iteration does not use every subset exactly once";
              // the sub-iterations of an incomplete first iteration must at least be distinct subsets
              if (why.empty() && (s0 - 1) % n != 0)
                {
                  const int len = std::min<int>(n - (s0 - 1) % n, calls.size());
                  std::set<int> d(calls.begin(), calls.begin() + len);
                  if (static_cast<int>(d.size()) != len)
                    why = "the remaining sub-iterations of the iteration in which the run starts repeat a subset";
                }
            }
        }
      if (!why.empty())
        {
          ++k.fails;
          std::ostringstream txt;
          txt << why << ": views=" << V << " num_subsets=" << n << " start_subset=" << ss << " start_subiteration=" << s0
              << " num_subiterations=" << N << " randomise=" << (rnd ? 1 : 0) << " subsets used: " << int_list(calls);
          std::fprintf(k.orc, "ORACLE-FAIL schedule of reconstruct(): %s\n", txt.str().c_str());
        }
    }
}

// ---- projection data that records every viewgram read and written, otherwise ProjDataInMemory
typedef std::array<int, 3> VST; // view, segment, TOF bin
struct RecPD : public ProjDataInMemory
{
  mutable std::vector<VST> reads;
  std::vector<VST> writes;
  RecPD(const shared_ptr<const ExamInfo>& e, const shared_ptr<const ProjDataInfo>& p)
      : ProjDataInMemory(e, p)
  {}
  using ProjDataInMemory::get_viewgram;
  Viewgram<float> get_viewgram(const int view_num, const int segment_num, const bool make_num_tangential_poss_odd = false,
                               const int timing_pos = 0) const override
  {
    reads.push_back(VST{ view_num, segment_num, timing_pos });
    return ProjDataInMemory::get_viewgram(view_num, segment_num, make_num_tangential_poss_odd, timing_pos);
  }
  Succeeded set_viewgram(const Viewgram<float>& v) override
  {
    writes.push_back(VST{ v.get_view_num(), v.get_segment_num(), v.get_timing_pos_num() });
    return ProjDataInMemory::set_viewgram(v);
  }
};

static std::string
vst_list(std::vector<VST> v)
{
  std::sort(v.begin(), v.end());
  std::ostringstream s;
  for (std::size_t i = 0; i < v.size(); ++i)
    s << (i ? " " : "") << v[i][0] << ":" << v[i][1] << ":" << v[i][2];
  return v.empty() ? std::string("-") : s.str();
}

// every (segment, view, TOF bin) of the data exactly once, nothing else
static bool
exactly_once(const std::map<VST, int>& count, const ProjDataInfo& pdi)
{
  std::size_t expected = 0;
  for (int seg = pdi.get_min_segment_num(); seg <= pdi.get_max_segment_num(); ++seg)
    for (int v = pdi.get_min_view_num(); v <= pdi.get_max_view_num(); ++v)
      for (int t = pdi.get_min_tof_pos_num(); t <= pdi.get_max_tof_pos_num(); ++t)
        {
          ++expected;
          std::map<VST, int>::const_iterator it = count.find(VST{ v, seg, t });
          if (it == count.end() || it->second != 1)
            return false;
        }
  return count.size() == expected;
}

static float
code_value(int seg, int view, int tof)
{
  return 1.F + 0.125F * static_cast<float>(((7 * seg + 3 * view + 5 * tof) % 11 + 11) % 11);
}

// ---- (2) BackProjectorByBin::back_project(ProjData, subset, n) / ForwardProjectorByBin::forward_project(ProjData, image, subset, n)
static void
run_projector_loops(vh::Rng& rng, bool thorough, Sink& k)
{
  static const int Vs[] = { 2, 3, 4, 5, 6, 8, 9, 12, 16, 20 };
  const int ncases = thorough ? 5000 : 200;
  for (int c = 0; c < ncases; ++c)
    {
      const int V = (thorough && c % 4 == 3) ? rng.range(2, 32) : Vs[rng.range(0, 9)];
      const int R = rng.range(1, 3);
      const int tofbins = (c % 3 == 1) ? (rng.coin() ? 3 : 5) : 0;
      const int flags = rng.range(0, 7);
      Geo g;
      if (!make_geo(g, V, R, tofbins, flags))
        continue;
      put_cfg(k, g);
      int n = rng.range(0, 2) == 0 ? rng.range(1, V) : rng.range(1, std::min(V, 6));
      const ProjDataInfo& pdi = *g.pdi;
      const int minseg = pdi.get_min_segment_num(), maxseg = pdi.get_max_segment_num();
      const int mintof = pdi.get_min_tof_pos_num(), maxtof = pdi.get_max_tof_pos_num();
      shared_ptr<BackProjectorByBin> bp = g.pair->get_back_projector_sptr();
      shared_ptr<ForwardProjectorByBin> fp = g.pair->get_forward_projector_sptr();
      shared_ptr<DataSymmetriesForViewSegmentNumbers> symvs(bp->get_symmetries_used()->clone());
      std::size_t nbins = 0;
      // ---------------- back projection
      for (int pass = 0; pass < 2; ++pass) // pass 0: all-ones data, pass 1: a different constant in every viewgram
        {
          RecPD data(g.exam, g.pdi);
          for (int seg = minseg; seg <= maxseg; ++seg)
            for (int t = mintof; t <= maxtof; ++t)
              for (int v = pdi.get_min_view_num(); v <= pdi.get_max_view_num(); ++v)
                {
                  Viewgram<float> vg = data.get_empty_viewgram(v, seg, false, t);
                  vg.fill(pass == 0 ? 1.F : code_value(seg, v, t));
                  nbins += pass == 0 ? vg.size_all() : 0;
                  data.set_viewgram(vg);
                }
          // reference: this harness' own enumeration of (basic view/segment, TOF bin), one RelatedViewgrams at a time
          shared_ptr<DiscretisedDensity<3, float>> ref(g.image->get_empty_copy());
          bp->start_accumulating_in_new_target();
          for (int seg = minseg; seg <= maxseg; ++seg)
            for (int v = pdi.get_min_view_num(); v <= pdi.get_max_view_num(); ++v)
              if (symvs->is_basic(ViewSegmentNumbers(v, seg)))
                for (int t = mintof; t <= maxtof; ++t)
                  bp->back_project(data.get_related_viewgrams(ViewSegmentNumbers(v, seg), symvs, false, t));
          bp->get_output(*ref);
          shared_ptr<DiscretisedDensity<3, float>> sum(g.image->get_empty_copy());
          std::map<VST, int> count;
          for (int i = 0; i < n; ++i)
            {
              shared_ptr<DiscretisedDensity<3, float>> part(g.image->get_empty_copy());
              data.reads.clear();
              bp->back_project(*part, data, i, n);
              if (pass == 0)
                {
                  std::fprintf(k.ops, "bp %d %d %d %d %d %d\n", i, n, minseg, maxseg, mintof, maxtof);
                  std::fprintf(k.out, "%s\n", vst_list(data.reads).c_str());
                  for (const VST& x : data.reads)
                    count[x]++;
                }
              DiscretisedDensity<3, float>::full_iterator s = sum->begin_all();
              for (DiscretisedDensity<3, float>::const_full_iterator p = part->begin_all_const(); p != part->end_all_const(); ++p, ++s)
                *s += *p;
            }
          shared_ptr<DiscretisedDensity<3, float>> full(g.image->get_empty_copy());
          bp->back_project(*full, data);
          if (pass == 0)
            {
              // ORACLE: over all subsets every (segment, view, TOF bin) is back projected exactly once
              ++k.checks;
              if (!exactly_once(count, pdi))
                {
                  ++k.fails;
                  std::fprintf(k.orc, "ORACLE-FAIL back_project(ProjData, subset, n): the viewgrams read over all subsets are not every (segment, view, TOF bin) exactly once: V=%d R=%d tofbins=%d flags=%d n=%d\n",
                               V, R, tofbins, flags, n);
                }
            }
          // ORACLE: the subset back projections add up to the back projection of all data (all terms are >= 0, so the forward
          // error of either float sum is at most (#bins) * 2^-24 * value; bound used: 4 * #bins * 2^-24 * value)
          ++k.checks;
          const double rel = 4. * static_cast<double>(nbins) * std::ldexp(1., -24);
          double worst = 0., worst_full = 0.;
          bool bad = false;
          {
            DiscretisedDensity<3, float>::const_full_iterator r = ref->begin_all_const(), s = sum->begin_all_const(),
                                                              f = full->begin_all_const();
            for (; r != ref->end_all_const(); ++r, ++s, ++f)
              {
                const double tol = rel * std::fabs(*r) + 1e-30;
                if (!(std::fabs(static_cast<double>(*s) - *r) <= tol) || !(std::fabs(static_cast<double>(*f) - *r) <= tol))
                  bad = true;
                worst = std::max(worst, std::fabs(static_cast<double>(*s) - *r));
                worst_full = std::max(worst_full, std::fabs(static_cast<double>(*f) - *r));
              }
          }
          if (bad)
            {
              ++k.fails;
              std::fprintf(k.orc, "ORACLE-FAIL back projections of the %d subsets do not add up to the back projection of every (segment, view, TOF bin): V=%d R=%d tofbins=%d flags=%d data=%s max|sum-ref|=%g max|full-ref|=%g\n",
                           n, V, R, tofbins, flags, pass == 0 ? "ones" : "coded", worst, worst_full);
            }
        }
      // ---------------- forward projection
      {
        shared_ptr<DiscretisedDensity<3, float>> image(g.image->clone());
        for (DiscretisedDensity<3, float>::full_iterator p = image->begin_all(); p != image->end_all(); ++p)
          *p = static_cast<float>(0.5 + rng.unit());
        ProjDataInMemory ref(g.exam, g.pdi);
        ref.fill(-1.F);
        fp->set_input(*image);
        for (int seg = minseg; seg <= maxseg; ++seg)
          for (int v = pdi.get_min_view_num(); v <= pdi.get_max_view_num(); ++v)
            if (symvs->is_basic(ViewSegmentNumbers(v, seg)))
              for (int t = mintof; t <= maxtof; ++t)
                {
                  RelatedViewgrams<float> vgs = ref.get_empty_related_viewgrams(ViewSegmentNumbers(v, seg), symvs, false, t);
                  fp->forward_project(vgs);
                  ref.set_related_viewgrams(vgs);
                }
        RecPD acc(g.exam, g.pdi);
        acc.fill(-1.F); // a forward projection of a positive image is >= 0: -1 marks what was never written
        std::map<VST, int> count;
        for (int i = 0; i < n; ++i)
          {
            acc.writes.clear();
            fp->forward_project(acc, *image, i, n, /*zero=*/false);
            std::fprintf(k.ops, "fp %d %d %d %d %d %d\n", i, n, minseg, maxseg, mintof, maxtof);
            std::fprintf(k.out, "%s\n", vst_list(acc.writes).c_str());
            for (const VST& x : acc.writes)
              count[x]++;
          }
        RecPD full(g.exam, g.pdi);
        full.fill(-1.F);
        fp->forward_project(full, *image);
        // ORACLE: over all subsets every (segment, view, TOF bin) viewgram is written exactly once ...
        ++k.checks;
        if (!exactly_once(count, pdi))
          {
            ++k.fails;
            std::fprintf(k.orc, "ORACLE-FAIL forward_project(ProjData, image, subset, n): the viewgrams written over all subsets are not every (segment, view, TOF bin) exactly once: V=%d R=%d tofbins=%d flags=%d n=%d\n",
                         V, R, tofbins, flags, n);
          }
        // ... and with the values of a viewgram-by-viewgram forward projection (bitwise: same arithmetic per viewgram)
        ++k.checks;
        int differ = 0, differ_full = 0;
        for (int seg = minseg; seg <= maxseg; ++seg)
          for (int t = mintof; t <= maxtof; ++t)
            for (int v = pdi.get_min_view_num(); v <= pdi.get_max_view_num(); ++v)
              {
                const Viewgram<float> a = static_cast<const ProjDataInMemory&>(acc).ProjDataInMemory::get_viewgram(v, seg, false, t);
                const Viewgram<float> f = static_cast<const ProjDataInMemory&>(full).ProjDataInMemory::get_viewgram(v, seg, false, t);
                const Viewgram<float> r = ref.get_viewgram(v, seg, false, t);
                if (!std::equal(a.begin_all(), a.end_all(), r.begin_all()))
                  ++differ;
                if (!std::equal(f.begin_all(), f.end_all(), r.begin_all()))
                  ++differ_full;
              }
        if (differ || differ_full)
          {
            ++k.fails;
            std::fprintf(k.orc, "ORACLE-FAIL forward projection by subsets differs from the viewgram-by-viewgram forward projection in %d viewgrams (all data at once: %d): V=%d R=%d tofbins=%d flags=%d n=%d\n",
                         differ, differ_full, V, R, tofbins, flags, n);
          }
      }
    }
}

// ---- (3) balanced flag after the objective function's set_up (default max_segment_num_to_process = -1, TOF data),
//          and the trivial symmetries class
static void
run_balanced_after_set_up(vh::Rng& rng, bool thorough, Sink& k)
{
  static const int Vs[] = { 2, 3, 4, 6, 8, 9, 12, 16 };
  const int ncases = thorough ? 2000 : 100;
  for (int c = 0; c < ncases; ++c)
    {
      const int V = Vs[rng.range(0, 7)];
      const int R = rng.range(1, 3);
      const int tofbins = (c % 2 == 1) ? (rng.coin() ? 3 : 5) : 0;
      const int flags = rng.range(0, 7);
      Geo g;
      if (!make_geo(g, V, R, tofbins, flags))
        continue;
      put_cfg(k, g);
      const int datamax = g.pdi->get_max_segment_num();
      shared_ptr<ProjData> data(new ProjDataInMemory(g.exam, g.pdi));
      data->fill(1.F);
      std::vector<int> ns;
      for (int n = 1; n <= V; ++n)
        if (n <= 4 || V % n == 0 || rng.range(0, 3) == 0)
          ns.push_back(n);
      for (int n : ns)
        {
          // requested max segment: the default -1 (most of the time), a valid number, or one that is too large
          const int pick = rng.range(0, 9);
          const int req = pick <= 5 ? -1 : pick <= 8 ? rng.range(0, datamax) : datamax + 1;
          const bool use_ss = rng.range(0, 3) != 0;
          ObjT obj;
          obj.set_proj_data_sptr(data);
          obj.set_projector_pair_sptr(g.pair);
          obj.set_max_segment_num_to_process(req);
          obj.set_use_subset_sensitivities(use_ss);
          obj.set_num_subsets(n);
          bool ok = true;
          try
            {
              shared_ptr<TargetT> image(g.image->clone());
              if (obj.set_up(image) != Succeeded::yes)
                ok = false;
            }
          catch (...)
            {
              ok = false;
            }
          std::fprintf(k.ops, "balancedsu %d %d %d %d\n", n, req, datamax, use_ss ? 1 : 0);
          if (!ok)
            {
              std::fprintf(k.out, "err\n");
              continue;
            }
          const bool b = obj.subsets_are_approximately_balanced();
          const int used = obj.get_max_segment_num_to_process();
          std::fprintf(k.out, "%d %d\n", b ? 1 : 0, used);
          // ORACLE: balanced iff all subsets process the same number of viewgrams (of the segments that are used; every viewgram
          // stands for the same number of TOF bins)
          ++k.checks;
          std::vector<std::size_t> counts;
          for (int i = 0; i < n; ++i)
            {
              std::size_t cnt = 0;
              for (auto& bvs : detail::find_basic_vs_nums_in_subset(*g.pdi, *g.sym, -used, used, i, n))
                {
                  std::vector<ViewSegmentNumbers> rel;
                  g.sym->get_related_view_segment_numbers(rel, bvs);
                  cnt += rel.size();
                }
              counts.push_back(cnt);
            }
          const bool equal = std::all_of(counts.begin(), counts.end(), [&](std::size_t x) { return x == counts[0]; });
          if (equal != b || (req == -1 && used != datamax) || (req >= 0 && used != req))
            {
              ++k.fails;
              std::fprintf(k.orc, "ORACLE-FAIL after set_up: balanced flag %d, per-subset viewgram counts %s, max segment used %d (requested %d, data %d): V=%d flags=%d tofbins=%d n=%d\n",
                           b ? 1 : 0, equal ? "equal" : "unequal", used, req, datamax, V, flags, tofbins, n);
            }
          // ---- the SAME object used again with data that have another number of segments: a range that was filled in from the
          //      data follows the new data; a range that was asked for (also when it is asked for with exactly the value in force) stays
          if (rng.range(0, 1) == 0)
            {
              int R2 = rng.range(1, 3);
              if (R2 == R)
                R2 = R % 3 + 1;
              Geo g2;
              if (make_geo(g2, V, R2, tofbins, flags))
                {
                  const int datamax2 = g2.pdi->get_max_segment_num();
                  shared_ptr<ProjData> data2(new ProjDataInMemory(g2.exam, g2.pdi));
                  data2->fill(1.F);
                  const int how = rng.range(0, 2);
                  int req2 = req;
                  if (how == 1)
                    {
                      req2 = used;
                      obj.set_max_segment_num_to_process(req2);
                    }
                  else if (how == 2)
                    {
                      req2 = rng.range(0, std::max(datamax, datamax2));
                      obj.set_max_segment_num_to_process(req2);
                    }
                  obj.set_proj_data_sptr(data2);
                  obj.set_projector_pair_sptr(g2.pair);
                  bool ok2 = true;
                  try
                    {
                      shared_ptr<TargetT> image2(g2.image->clone());
                      if (obj.set_up(image2) != Succeeded::yes)
                        ok2 = false;
                    }
                  catch (...)
                    {
                      ok2 = false;
                    }
                  put_cfg(k, g2);
                  std::fprintf(k.ops, "balancedsu %d %d %d %d\n", n, req2, datamax2, use_ss ? 1 : 0);
                  if (!ok2)
                    std::fprintf(k.out, "err\n");
                  else
                    {
                      const int used2 = obj.get_max_segment_num_to_process();
                      std::fprintf(k.out, "%d %d\n", obj.subsets_are_approximately_balanced() ? 1 : 0, used2);
                      ++k.checks;
                      if ((req2 == -1 && used2 != datamax2) || (req2 >= 0 && used2 != req2))
                        {
                          ++k.fails;
                          std::fprintf(k.orc, "ORACLE-FAIL object used again with other data (setter history %d): max segment used %d (asked for %d, new data %d, first data %d): V=%d flags=%d tofbins=%d n=%d\n",
                                       how, used2, req2, datamax2, datamax, V, flags, tofbins, n);
                        }
                    }
                  put_cfg(k, g);
                }
            }
        }
    }
  // ---- TrivialDataSymmetriesForBins: no symmetries at all
  const int nt = thorough ? 40 : 8;
  for (int c = 0; c < nt; ++c)
    {
      const int V = c < 4 ? c + 1 : rng.range(5, 48);
      const int R = rng.range(1, 3);
      const int tofbins = c % 2 ? 5 : 0;
      shared_ptr<ProjDataInfo> pdi;
      try
        {
          shared_ptr<Scanner> scanner = vh::make_scanner(2 * V, R, tofbins > 0 ? tofbins : -1);
          pdi = vh::make_pdi(scanner, 1, R - 1, V, std::max(1, std::min(5, V - 1)), false, tofbins > 0 ? 1 : 0);
        }
      catch (...)
        {
          continue;
        }
      TrivialDataSymmetriesForBins sym(pdi);
      const DataSymmetriesForViewSegmentNumbers& symvs = sym;
      std::fprintf(k.ops, "cfgtrivial %d\n", V);
      std::fprintf(k.out, "eff 0 0 0\n");
      const int min_tof = pdi->get_min_tof_pos_num(), max_tof = pdi->get_max_tof_pos_num();
      for (int seg = -(R - 1); seg <= R - 1; ++seg)
        for (int v = 0; v < V; ++v)
          {
            ViewSegmentNumbers vs(v, seg);
            const bool change = sym.find_basic_view_segment_numbers(vs);
            std::fprintf(k.ops, "basic %d %d\n", v, seg);
            std::fprintf(k.out, "%d %d %d\n", vs.view_num(), vs.segment_num(), change ? 1 : 0);
            std::vector<ViewSegmentNumbers> rel;
            sym.get_related_view_segment_numbers(rel, ViewSegmentNumbers(v, seg));
            std::fprintf(k.ops, "rel %d %d\n", v, seg);
            std::fprintf(k.out, "%s\n", vs_list(rel, true).c_str());
            std::fprintf(k.ops, "nrel %d %d\n", v, seg);
            std::fprintf(k.out, "%d\n", sym.num_related_view_segment_numbers(ViewSegmentNumbers(v, seg)));
            ++k.checks;
            if (!symvs.is_basic(ViewSegmentNumbers(v, seg)))
              {
                ++k.fails;
                std::fprintf(k.orc, "ORACLE-FAIL TrivialDataSymmetriesForBins: view %d segment %d is not basic\n", v, seg);
              }
          }
      for (int n = 1; n <= V; ++n)
        {
          if (!(n <= 4 || V % n == 0 || rng.range(0, 3) == 0))
            continue;
          const int maxseg = rng.range(0, R - 1);
          std::map<std::pair<int, int>, int> count;
          for (int i = 0; i < n; ++i)
            {
              std::vector<ViewSegmentNumbers> all;
              for (auto& b : detail::find_basic_vs_nums_in_subset(*pdi, sym, -maxseg, maxseg, i, n))
                {
                  std::vector<ViewSegmentNumbers> rel;
                  sym.get_related_view_segment_numbers(rel, b);
                  all.insert(all.end(), rel.begin(), rel.end());
                }
              for (auto& x : all)
                count[std::make_pair(x.view_num(), x.segment_num())]++;
              std::fprintf(k.ops, "subset %d %d %d %d %d %d\n", i, n, -maxseg, maxseg, min_tof, max_tof);
              std::fprintf(k.out, "%s\n", vs_list(all, true).c_str());
            }
          ++k.checks;
          bool ok = count.size() == static_cast<std::size_t>(V) * (2 * maxseg + 1);
          for (auto& kv : count)
            if (kv.second != 1 || kv.first.first < 0 || kv.first.first >= V || std::abs(kv.first.second) > maxseg)
              ok = false;
          if (!ok)
            {
              ++k.fails;
              std::fprintf(k.orc, "ORACLE-FAIL partition with TrivialDataSymmetriesForBins V=%d n=%d maxseg=%d tofbins=%d\n", V, n, maxseg, tofbins);
            }
        }
    }
}

int
main(int argc, char** argv)
{
  if (argc < 5)
    return 2;
  vh::quiet();
  vh::Rng rng(std::strtoull(argv[1], nullptr, 10) * 1315423911ULL + 6);
  const bool thorough = std::string(argv[2]) == "thorough";
  FILE* ops = std::fopen(argv[3], "w");
  FILE* out = std::fopen(argv[4], "w");
  FILE* orc = std::fopen((std::string(argv[4]) + ".oracle").c_str(), "w");
  long oracle_checks = 0, oracle_fails = 0;

  const int maxV = thorough ? 96 : 40;
  std::vector<int> views;
  for (int V = 1; V <= maxV; ++V)
    views.push_back(V);
  if (!thorough)
    { // keep the quick tier quick: all V up to 24, then a seeded sample
      views.clear();
      for (int V = 1; V <= 24; ++V)
        views.push_back(V);
      for (int k = 0; k < 6; ++k)
        views.push_back(rng.range(25, 96));
    }

  for (int V : views)
    {
      // a scanner with 2V detectors per ring gives V views without mashing; 3 rings -> segments -2..2
      const int R = 3;
      for (int tof = 0; tof < 2; ++tof)
        {
          if (tof && (V % 3 != 0))
            continue; // TOF geometries only for a third of the view counts
          shared_ptr<Scanner> scanner = vh::make_scanner(2 * V, R, tof ? 5 : -1);
          shared_ptr<ProjDataInfo> pdi;
          try
            {
              pdi = vh::make_pdi(scanner, 1, R - 1, V, std::max(1, V / 2), false, tof ? 1 : 0);
            }
          catch (...)
            {
              continue;
            }
          const int min_tof = pdi->get_min_tof_pos_num(), max_tof = pdi->get_max_tof_pos_num();
          shared_ptr<DiscretisedDensity<3, float>> image = vh::make_image(*pdi, 1.F, 5, 2 * R - 1);
          for (int flags = 0; flags < 8; ++flags)
            {
              const bool d90v = flags & 1, d180v = flags & 2, swap = flags & 4;
              // TOF data: the ray tracing matrix switches view symmetries off itself; here we talk to the symmetries object directly
              DataSymmetriesForBins_PET_CartesianGrid sym(pdi, image, d90v, d180v, swap, /*swap_s*/ true, /*shift_z*/ true);
              const DataSymmetriesForViewSegmentNumbers& symvs = sym;
              std::fprintf(ops, "cfg %d %d %d %d 1 %d\n", V, d90v, d180v, swap, tof);
              std::fprintf(out, "eff %d %d %d\n", sym.using_symmetry_90degrees_min_phi() ? 1 : 0, sym.using_symmetry_180degrees_min_phi() ? 1 : 0, sym.using_symmetry_swap_segment() ? 1 : 0);
              // every (view, segment)
              std::map<std::pair<int, int>, int> seen;
              for (int seg = -(R - 1); seg <= R - 1; ++seg)
                for (int v = 0; v < V; ++v)
                  {
                    ViewSegmentNumbers vs(v, seg);
                    const bool change = sym.find_basic_view_segment_numbers(vs);
                    std::fprintf(ops, "basic %d %d\n", v, seg);
                    std::fprintf(out, "%d %d %d\n", vs.view_num(), vs.segment_num(), change ? 1 : 0);
                    if (symvs.is_basic(ViewSegmentNumbers(v, seg)))
                      {
                        std::vector<ViewSegmentNumbers> rel;
                        sym.get_related_view_segment_numbers(rel, ViewSegmentNumbers(v, seg));
                        std::fprintf(ops, "rel %d %d\n", v, seg);
                        std::fprintf(out, "%s\n", vs_list(rel, true).c_str());
                        std::fprintf(ops, "nrel %d %d\n", v, seg);
                        std::fprintf(out, "%d\n", sym.num_related_view_segment_numbers(ViewSegmentNumbers(v, seg)));
                      }
                  }
              // subsets
              std::vector<int> ns;
              for (int n = 1; n <= V; ++n)
                if (thorough || n <= 6 || V % n == 0 || rng.range(0, 5) == 0)
                  ns.push_back(n);
              for (int n : ns)
                {
                  const int maxseg = rng.range(0, R - 1);
                  std::map<std::pair<int, int>, int> count;
                  std::vector<std::size_t> sizes;
                  for (int i = 0; i < n; ++i)
                    {
                      std::vector<ViewSegmentNumbers> basics
                          = detail::find_basic_vs_nums_in_subset(*pdi, sym, -maxseg, maxseg, i, n);
                      std::vector<ViewSegmentNumbers> all;
                      for (auto& b : basics)
                        {
                          std::vector<ViewSegmentNumbers> rel;
                          sym.get_related_view_segment_numbers(rel, b);
                          all.insert(all.end(), rel.begin(), rel.end());
                        }
                      sizes.push_back(all.size());
                      for (auto& x : all)
                        count[std::make_pair(x.view_num(), x.segment_num())]++;
                      std::fprintf(ops, "subset %d %d %d %d %d %d\n", i, n, -maxseg, maxseg, min_tof, max_tof);
                      std::fprintf(out, "%s\n", vs_list(all, true).c_str());
                    }
                  // ORACLE (property statement on the implementation): every (view,segment) exactly once
                  ++oracle_checks;
                  bool ok = true;
                  for (int seg = -maxseg; seg <= maxseg && ok; ++seg)
                    for (int v = 0; v < V && ok; ++v)
                      ok = count[std::make_pair(v, seg)] == 1;
                  for (auto& kv : count)
                    if (kv.second != 1 || kv.first.first < 0 || kv.first.first >= V || std::abs(kv.first.second) > maxseg)
                      ok = false;
                  if (!ok)
                    {
                      ++oracle_fails;
                      std::fprintf(orc, "ORACLE-FAIL partition V=%d flags=%d n=%d maxseg=%d tof=%d\n", V, flags, n, maxseg, tof);
                    }
                }
            }
        }
    }

  // ---- balanced flag through the real objective function (non-TOF; uses the projector's symmetries)
  {
    std::vector<int> bviews = { 2, 3, 4, 5, 7, 8, 10, 12, 13, 16 };
    if (thorough)
      for (int V = 17; V <= 40; ++V)
        bviews.push_back(V);
    else
      bviews.push_back(4 * rng.range(5, 12) + rng.range(0, 3));
    const int flag_sets[] = { 0, 2, 3, 4, 7 };
    for (int V : bviews)
      for (int flags : flag_sets)
        {
          const int R = 3;
          shared_ptr<Scanner> scanner = vh::make_scanner(2 * V, R);
          shared_ptr<ProjDataInfo> pdi = vh::make_pdi(scanner, 1, R - 1, V, std::max(1, std::min(5, V - 1)), false, 0);
          shared_ptr<ExamInfo> exam(new ExamInfo);
          exam->imaging_modality = ImagingModality::PT;
          shared_ptr<ProjData> data(new ProjDataInMemory(exam, pdi));
          shared_ptr<DiscretisedDensity<3, float>> image = vh::make_image(*pdi, 1.F, 5, 2 * R - 1);
          shared_ptr<ProjMatrixByBinUsingRayTracing> pm(new ProjMatrixByBinUsingRayTracing);
          pm->set_do_symmetry_90degrees_min_phi(flags & 1);
          pm->set_do_symmetry_180degrees_min_phi(flags & 2);
          pm->set_do_symmetry_swap_segment(flags & 4);
          shared_ptr<ProjectorByBinPair> pair(new ProjectorByBinPairUsingProjMatrixByBin(pm));
          pair->set_up(pdi, image);
          const DataSymmetriesForBins_PET_CartesianGrid* ps
              = dynamic_cast<const DataSymmetriesForBins_PET_CartesianGrid*>(pm->get_symmetries_ptr());
          std::fprintf(ops, "cfg %d %d %d %d 1 0\n", V, flags & 1 ? 1 : 0, flags & 2 ? 1 : 0, flags & 4 ? 1 : 0);
          std::fprintf(out, "eff %d %d %d\n", ps->using_symmetry_90degrees_min_phi() ? 1 : 0,
                       ps->using_symmetry_180degrees_min_phi() ? 1 : 0, ps->using_symmetry_swap_segment() ? 1 : 0);
          for (int n = 1; n <= V; ++n)
            {
              if (!thorough && V > 16 && n > 8 && V % n > 1)
                continue;
              for (int maxseg = 0; maxseg <= R - 1; maxseg += R - 1)
                {
                  PoissonLogLikelihoodWithLinearModelForMeanAndProjData<TargetT> obj;
                  obj.set_proj_data_sptr(data);
                  obj.set_projector_pair_sptr(pair);
                  obj.set_max_segment_num_to_process(maxseg);
                  obj.set_num_subsets(n);
                  const bool b = obj.subsets_are_approximately_balanced();
                  std::fprintf(ops, "balanced %d %d\n", n, maxseg);
                  std::fprintf(out, "%d\n", b ? 1 : 0);
                  // ORACLE (property statement on the implementation): balanced iff all subsets process the same number of viewgrams
                  ++oracle_checks;
                  std::vector<std::size_t> counts;
                  for (int i = 0; i < n; ++i)
                    {
                      std::size_t c = 0;
                      for (auto& bvs : detail::find_basic_vs_nums_in_subset(*pdi, *ps, -maxseg, maxseg, i, n))
                        {
                          std::vector<ViewSegmentNumbers> rel;
                          ps->get_related_view_segment_numbers(rel, bvs);
                          c += rel.size();
                        }
                      counts.push_back(c);
                    }
                  const bool equal = std::all_of(counts.begin(), counts.end(), [&](std::size_t c) { return c == counts[0]; });
                  if (equal != b)
                    {
                      ++oracle_fails;
                      std::fprintf(orc, "ORACLE-FAIL balanced flag %d but per-subset viewgram counts are %s: V=%d flags=%d n=%d maxseg=%d\n", b ? 1 : 0,
                                   equal ? "equal" : "unequal", V, flags, n, maxseg);
                    }
                }
            }
        }
  }

  // ---- schedules
  {
    Probe probe;
    const int ns = thorough ? 400 : 80;
    for (int k = 0; k < ns; ++k)
      {
        const int n = rng.range(1, 12);
        const int start_subset = rng.range(0, n - 1);
        const bool randomise = rng.coin();
        const int iters = rng.range(1, 3);
        probe.configure(n, start_subset, randomise);
        g_rand_script.clear();
        g_rand_pos = 0;
        std::ostringstream draws;
        if (randomise)
          {
            for (int it = 0; it < iters; ++it)
              for (int i = 0; i < n; ++i)
                {
                  // include RAND_MAX itself (the index == n-i corner) now and then
                  const int r = rng.range(0, 9) == 0 ? RAND_MAX : static_cast<int>(rng.next() % (static_cast<uint64_t>(RAND_MAX) + 1));
                  g_rand_script.push_back(r);
                  const int d = (int)(((float)r / (float)RAND_MAX) * (n - i));
                  draws << " " << d;
                }
          }
        g_rand_scripted = true;
        std::ostringstream seq;
        std::vector<int> used;
        for (int s = 1; s <= iters * n; ++s)
          {
            const int sub = probe.at(s);
            used.push_back(sub);
            seq << (s > 1 ? " " : "") << sub;
          }
        g_rand_scripted = false;
        std::fprintf(ops, "sched %d %d %d %d%s\n", n, start_subset, randomise ? 1 : 0, iters, draws.str().c_str());
        std::fprintf(out, "%s\n", seq.str().c_str());
        // ORACLE: each full iteration uses every subset exactly once
        ++oracle_checks;
        bool ok = true;
        for (int it = 0; it < iters && ok; ++it)
          {
            std::set<int> s(used.begin() + it * n, used.begin() + (it + 1) * n);
            ok = static_cast<int>(s.size()) == n && *s.begin() == 0 && *s.rbegin() == n - 1;
          }
        if (!ok)
          {
            ++oracle_fails;
            std::fprintf(orc, "ORACLE-FAIL schedule n=%d start=%d randomise=%d: %s\n", n, start_subset, randomise, seq.str().c_str());
          }
      }
  }
  // ---- extension: real reconstruct loop, projector loops, balanced flag after set_up, trivial symmetries
  {
    Sink k;
    k.ops = ops, k.out = out, k.orc = orc;
    run_recon_cases(rng, thorough, k);
    run_projector_loops(rng, thorough, k);
    run_balanced_after_set_up(rng, thorough, k);
    oracle_checks += k.checks;
    oracle_fails += k.fails;
  }
  std::fprintf(orc, "ORACLE-DONE checks=%ld fails=%ld\n", oracle_checks, oracle_fails);
  std::fclose(ops);
  std::fclose(out);
  std::fclose(orc);
  return 0;
}
