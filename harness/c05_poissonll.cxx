// C05 — implementation side.  Poisson log-likelihood for projection data
// (PoissonLogLikelihoodWithLinearModelForMeanAndProjData): value, (subset) gradient, gradient plus
// sensitivity, (subset) sensitivity, Hessian-times-vector, approximate Hessian, penalised versions and
// the order of first requests after set_up — all through the public API of the real class — against
//   (a) the Lean model (ops/impl files, one line per operation; floats as C99 hex), and
//   (b) the property's own statement evaluated here in double precision on the explicit system matrix
//       P (rows from a separate ProjMatrixByBinUsingRayTracing without symmetries and without cache).
// Also covered (each goes to the model as operation lines and has an oracle of its own):
//   * normalisation with one factor per TOF bin (BinNormalisationFromProjData on TOF data, a TOF efficiency table, chains): the
//     is_TOF_only_norm -> use_tofsens switch of set_up (`tofsens` lines) and the TOF sensitivity with per-TOF-bin efficiencies;
//   * set_max_timing_pos_num_to_process below the maximum of the data (all quantities over the requested TOF range, `tofrange` lines);
//   * with a prior: the full-data compute_objective_function / compute_gradient / accumulate_Hessian_times_input /
//     add_multiplication_with_approximate_Hessian and all public *_without_penalty functions of the object that holds the prior;
//   * (subset) sensitivities read from files written by an identical object, and supplied by set_subset_sensitivity_sptr;
//   * set_up's refusal of unbalanced subsets against an independent count of viewgrams per subset (`balance` lines), the
//     segment range after set_up (`segrange` lines);
//   * OBJECT RE-USE HISTORIES (run_reuse): one object set_up 2-5 times with a change in between, after every set_up compared with the
//     model (all quantity lines, and the model object of `hnew`/`hsetup`/`hsub`/`htot`), the textbook oracle and, bit for bit, with a
//     fresh object configured identically; sensitivity files written by a later set_up, read back by the same and by a second object.
//   * SETTERS AFTER set_up WITHOUT A NEW set_up (run_setters): every public setter (and parse()) called on a set-up object with a new or
//     with the same value, then every kind of request without set_up: flag already_set_up, members and accepted / refused against the
//     model object (`sset` / `ssetup` / `sreq`), every answered request against a fresh object configured with the new values.
// Usage: c05_poissonll <seed> <quick|thorough> <opsfile> <implfile>   (scratch files <implfile>.sens_* are removed again)
#include "stir_fixtures.h"
#include "common.h"
#include "stir/recon_buildblock/PoissonLogLikelihoodWithLinearModelForMeanAndProjData.h"
#include "stir/recon_buildblock/ProjMatrixByBinUsingRayTracing.h"
#include "stir/recon_buildblock/ProjMatrixElemsForOneBin.h"
#include "stir/recon_buildblock/ProjectorByBinPairUsingProjMatrixByBin.h"
#include "stir/recon_buildblock/DataSymmetriesForBins_PET_CartesianGrid.h"
#include "stir/recon_buildblock/find_basic_vs_nums_in_subsets.h"
#include "stir/recon_buildblock/BinNormalisation.h"
#include "stir/recon_buildblock/TrivialBinNormalisation.h"
#include "stir/recon_buildblock/BinNormalisationFromProjData.h"
#include "stir/recon_buildblock/ChainedBinNormalisation.h"
#include "stir/recon_buildblock/QuadraticPrior.h"
#include "stir/ProjDataInMemory.h"
#include "stir/ViewSegmentNumbers.h"
#include "stir/DiscretisedDensity.h"
#include "stir/Viewgram.h"
#include "stir/Bin.h"
#include "stir/ExamInfo.h"
#include "stir/Succeeded.h"
#include "stir/IO/read_from_file.h"
#include "stir/TimeFrameDefinitions.h"
#include <sstream>
#include <functional>
#include <memory>
#include <algorithm>
#include <array>
#include <cmath>
#include <cstring>
#include <map>
#include <new>
#include <set>

using namespace stir;

typedef DiscretisedDensity<3, float> TargetT;
typedef PoissonLogLikelihoodWithLinearModelForMeanAndProjData<TargetT> ObjBase;

// access to the one configuration switch that has no public setter (only a parsing key)
struct Obj : public ObjBase
{
  Obj() {}
  void set_use_tofsens(bool b) { this->use_tofsens = b; }
  bool get_use_tofsens() const { return this->use_tofsens; }
  bool flag() const { return this->already_set_up; } // GeneralisedObjectiveFunction::already_set_up (protected)
};

// An objective function object constructed in storage pre-filled with a chosen byte, so that members
// without initialiser (latest_setup_distributable_computation_was_with_orig_projectors,
// latest_setup_norm_was_with_orig_data) have a *chosen* indeterminate value: 0 (false) or 1 (true).
struct Holder
{
  void* mem;
  Obj* p;
  explicit Holder(int fill)
  {
    mem = ::operator new(sizeof(Obj));
    std::memset(mem, fill, sizeof(Obj));
    p = new (mem) Obj;
  }
  ~Holder()
  {
    p->~Obj();
    ::operator delete(mem);
  }
  Obj* operator->() { return p; }
  Obj& operator*() { return *p; }
};

// A normalisation object that goes through the *base class* code paths BinNormalisation::apply/undo
// (division by max(1e-20,efficiency) / multiplication by the efficiency); efficiency independent of the TOF bin, or
// (tofdep) one efficiency per TOF bin, in which case the object says so through is_TOF_only_norm().
struct EffNorm : public BinNormalisation
{
  std::map<std::array<int, 5>, float> eff;
  bool tofdep = false;
  std::string get_registered_name() const override { return "verif efficiency table"; }
  bool is_TOF_only_norm() const override { return tofdep; }
  float get_bin_efficiency(const Bin& b) const override
  {
    auto it = eff.find({ b.segment_num(), b.view_num(), b.axial_pos_num(), b.tangential_pos_num(), tofdep ? b.timing_pos_num() : 0 });
    return it == eff.end() ? 1.F : it->second;
  }
};

struct BinRec
{
  int seg, view, ax, tang, tof;
  int vg;        // viewgram id: (segment, view, tof)
  bool endplane; // segment 0 and first or last axial position
  float y = 0, a = 0;
  std::vector<std::pair<char, float>> fac; // 'N' normalisation factor (efficiency 1/N), 'E' efficiency
  std::vector<std::pair<int, float>> row;  // (flat voxel index, P_bv)
};

struct Geo
{
  shared_ptr<ProjDataInfo> pdi;
  std::vector<BinRec> bins;
  std::vector<std::vector<int>> vgs;                 // viewgram id -> bin indices
  std::map<std::array<int, 3>, int> vgid;            // (seg, view, tof) -> viewgram id
  std::map<std::array<int, 5>, int> index;           // (seg, view, ax, tang, tof) -> bin index
};

static void
enumerate_bins(Geo& g)
{
  const ProjDataInfo& p = *g.pdi;
  for (int seg = p.get_min_segment_num(); seg <= p.get_max_segment_num(); ++seg)
    for (int tof = p.get_min_tof_pos_num(); tof <= p.get_max_tof_pos_num(); ++tof)
      for (int view = p.get_min_view_num(); view <= p.get_max_view_num(); ++view)
        {
          const int id = static_cast<int>(g.vgs.size());
          g.vgid[{ seg, view, tof }] = id;
          g.vgs.push_back(std::vector<int>());
          for (int ax = p.get_min_axial_pos_num(seg); ax <= p.get_max_axial_pos_num(seg); ++ax)
            for (int tang = p.get_min_tangential_pos_num(); tang <= p.get_max_tangential_pos_num(); ++tang)
              {
                BinRec b;
                b.seg = seg, b.view = view, b.ax = ax, b.tang = tang, b.tof = tof, b.vg = id;
                b.endplane = seg == 0 && (ax == p.get_min_axial_pos_num(seg) || ax == p.get_max_axial_pos_num(seg));
                g.index[{ seg, view, ax, tang, tof }] = static_cast<int>(g.bins.size());
                g.vgs[id].push_back(static_cast<int>(g.bins.size()));
                g.bins.push_back(b);
              }
        }
}

struct ImgIdx
{
  int z0, y0, x0, nz, ny, nx;
  explicit ImgIdx(const TargetT& im)
  {
    const IndexRange<3> r = im.get_index_range();
    BasicCoordinate<3, int> lo, hi;
    r.get_regular_range(lo, hi);
    z0 = lo[1], y0 = lo[2], x0 = lo[3];
    nz = hi[1] - lo[1] + 1, ny = hi[2] - lo[2] + 1, nx = hi[3] - lo[3] + 1;
  }
  int size() const { return nz * ny * nx; }
  int flat(int z, int y, int x) const { return ((z - z0) * ny + (y - y0)) * nx + (x - x0); }
};

// explicit rows from a matrix object of its own: no symmetries, no cache
static void
fill_rows(Geo& g, const shared_ptr<TargetT>& image, const ImgIdx& ix)
{
  ProjMatrixByBinUsingRayTracing pm;
  pm.set_do_symmetry_90degrees_min_phi(false);
  pm.set_do_symmetry_180degrees_min_phi(false);
  pm.set_do_symmetry_swap_segment(false);
  pm.set_do_symmetry_swap_s(false);
  pm.set_do_symmetry_shift_z(false);
  pm.enable_cache(false);
  pm.set_up(g.pdi, image);
  ProjMatrixElemsForOneBin row;
  for (auto& b : g.bins)
    {
      pm.get_proj_matrix_elems_for_one_bin(row, Bin(b.seg, b.view, b.ax, b.tang, b.tof));
      std::map<int, float> acc;
      for (auto it = row.begin(); it != row.end(); ++it)
        {
          // elements outside the axial range of the image are skipped by ProjMatrixElemsForOneBin::forward/back_project
          if (it->coord1() < ix.z0 || it->coord1() >= ix.z0 + ix.nz)
            continue;
          if (it->coord2() < ix.y0 || it->coord2() >= ix.y0 + ix.ny || it->coord3() < ix.x0 || it->coord3() >= ix.x0 + ix.nx)
            throw std::runtime_error("matrix element outside the image in x/y");
          acc[ix.flat(it->coord1(), it->coord2(), it->coord3())] += it->get_value();
        }
      b.row.assign(acc.begin(), acc.end());
    }
}

// largest absolute difference between the explicit rows and the rows of a matrix with the symmetry switches of the projector pair
static double
row_discrepancy(const Geo& g, const shared_ptr<TargetT>& image, const ImgIdx& ix, int symflags, double* pmax)
{
  ProjMatrixByBinUsingRayTracing pm;
  pm.set_do_symmetry_90degrees_min_phi(symflags & 1);
  pm.set_do_symmetry_180degrees_min_phi(symflags & 2);
  pm.set_do_symmetry_swap_segment(symflags & 4);
  pm.set_do_symmetry_swap_s(symflags & 8);
  pm.set_do_symmetry_shift_z(symflags & 16);
  pm.set_up(g.pdi, image);
  ProjMatrixElemsForOneBin row;
  double worst = 0;
  for (auto& b : g.bins)
    {
      pm.get_proj_matrix_elems_for_one_bin(row, Bin(b.seg, b.view, b.ax, b.tang, b.tof));
      std::map<int, float> acc;
      for (auto it = row.begin(); it != row.end(); ++it)
        if (!(it->coord1() < ix.z0 || it->coord1() >= ix.z0 + ix.nz))
          acc[ix.flat(it->coord1(), it->coord2(), it->coord3())] += it->get_value();
      for (auto& e : b.row)
        {
          *pmax = std::max(*pmax, double(std::fabs(e.second)));
          worst = std::max(worst, double(std::fabs(e.second - (acc.count(e.first) ? acc[e.first] : 0.F))));
          acc.erase(e.first);
        }
      for (auto& e : acc)
        worst = std::max(worst, double(std::fabs(e.second)));
    }
  return worst;
}

static std::vector<float>
to_vec(const TargetT& im)
{
  return std::vector<float>(im.begin_all_const(), im.end_all_const());
}

static void
from_vec(TargetT& im, const std::vector<float>& v)
{
  std::copy(v.begin(), v.end(), im.begin_all());
}

static std::string
hexvec(const std::vector<float>& v)
{
  std::string s;
  for (std::size_t i = 0; i < v.size(); ++i)
    {
      if (i)
        s += ' ';
      s += vh::hex(v[i]);
    }
  return s;
}

static int
poisson(vh::Rng& rng, double mean)
{
  if (mean <= 0)
    return 0;
  const double L = std::exp(-mean);
  int k = 0;
  double p = 1;
  do
    {
      ++k;
      p *= rng.unit();
    }
  while (p > L && k < 200);
  return k - 1;
}

static shared_ptr<ProjDataInMemory>
make_projdata(const shared_ptr<const ExamInfo>& exam, const Geo& g, const std::vector<float>& values)
{
  shared_ptr<ProjDataInMemory> pd(new ProjDataInMemory(exam, g.pdi));
  for (auto& kv : g.vgid)
    {
      Viewgram<float> v = pd->get_empty_viewgram(kv.first[1], kv.first[0], false, kv.first[2]);
      for (int bi : g.vgs[kv.second])
        v[g.bins[bi].ax][g.bins[bi].tang] = values[bi];
      pd->set_viewgram(v);
    }
  return pd;
}

// ------------------------------------------------------------------------------------------------
// the textbook expressions, in double precision, on explicit rows (ORACLE)
struct Textbook
{
  // per-voxel values and magnitudes (sum of absolute values of the terms)
  std::vector<double> v, m;
  double s = 0, sm = 0;
  bool regular = true;
};

static double
dot(const BinRec& b, const std::vector<float>& x)
{
  double s = 0;
  for (auto& e : b.row)
    s += double(e.second) * double(x[e.first]);
  return s;
}

static double
efficiency(const BinRec& b)
{
  double n = 1;
  for (auto& f : b.fac)
    n = f.first == 'N' ? n / double(f.second) : n * double(f.second);
  return n;
}

enum Quantity
{
  Q_VALUE,
  Q_GRAD,
  Q_GPS,
  Q_SENS,
  Q_HESS
};

// bins: the bins that belong to the data set in the sense of the property (end planes already removed if requested)
static Textbook
textbook(Quantity q, const Geo& g, const std::vector<int>& bins, bool additive, const std::vector<float>& lam,
         const std::vector<float>& x, int nvox)
{
  Textbook t;
  t.v.assign(nvox, 0.), t.m.assign(nvox, 0.);
  // largest numerator of each viewgram: counts in (0, 1e-6*max] are treated as 0 by the library ("we think num was really 0"):
  // such bins are outside the regular region
  std::map<int, double> vgmax;
  // The magnitudes allow for an absolute uncertainty of the matrix elements proportional to the largest element: the projector works
  // with rows obtained through symmetries, the explicit rows are computed directly (build_case accepts differences up to 5e-7*pmax).
  double pmax = 0;
  for (auto& b : g.bins)
    for (auto& e : b.row)
      pmax = std::max(pmax, double(std::fabs(e.second)));
  const double dp = pmax / 4;
  for (int bi : bins)
    {
      const BinRec& b = g.bins[bi];
      const double num = q == Q_HESS ? double(b.y) * dot(b, x) : double(b.y);
      auto it = vgmax.find(b.vg);
      if (it == vgmax.end() || it->second < num)
        vgmax[b.vg] = num;
    }
  for (int bi : bins)
    {
      const BinRec& b = g.bins[bi];
      const double n = efficiency(b);
      const double ybar = dot(b, lam) + (additive ? double(b.a) : 0.);
      const double y = b.y;
      if (q == Q_SENS)
        {
          for (auto& e : b.row)
            t.v[e.first] += e.second * n, t.m[e.first] += (std::fabs(e.second) + dp) * std::fabs(n);
          continue;
        }
      // "wherever ybar_b > 0": bins with y>0 and (numerically) vanishing mean are outside the regular region
      if (y > 0 && !(ybar * std::min(n, 1.) > y / 1.e4 * 1.001))
        {
          t.regular = false;
          continue;
        }
      {
        const double num = q == Q_HESS ? y * dot(b, x) : y;
        if (num > 0 && num <= 1.01e-6 * vgmax[b.vg])
          {
            t.regular = false;
            continue;
          }
      }
      if (q == Q_VALUE)
        {
          const double term = (y > 0 ? y * std::log(n * ybar) : 0.) - n * ybar;
          t.s += term;
          t.sm += (y > 0 ? std::fabs(y * std::log(n * ybar)) : 0.) + std::fabs(n * ybar);
        }
      else if (q == Q_GRAD || q == Q_GPS)
        {
          const double r = y > 0 ? y / ybar : 0.;
          const double w = q == Q_GRAD ? r - n : r;
          for (auto& e : b.row)
            t.v[e.first] += e.second * w, t.m[e.first] += (std::fabs(e.second) + dp) * (std::fabs(r) + (q == Q_GRAD ? n : 0.));
        }
      else if (q == Q_HESS)
        {
          const double w = y > 0 ? -y * dot(b, x) / (ybar * ybar) : 0.;
          for (auto& e : b.row)
            t.v[e.first] += e.second * w, t.m[e.first] += (std::fabs(e.second) + dp) * std::fabs(w);
        }
    }
  return t;
}

static const double ORACLE_REL = 3.e-5; // float pipeline (<= ~100 float operations per result) against double

struct Out
{
  FILE *ops, *impl, *orc;
  long checks = 0, fails = 0;
  std::set<std::string> candidates;
  // mute: nothing is written and nothing is counted (used for the twin objects of the re-use histories, whose answers are only
  // recorded); rec: every (operation, answer) is also appended here
  bool mute = false;
  std::vector<std::pair<std::string, std::string>>* rec = nullptr;
  std::string where; // appended to every ORACLE-FAIL text (the re-use history in which a check of check_object fails)
  void line(const std::string& op, const std::string& ans)
  {
    if (rec)
      rec->push_back(std::make_pair(op, ans));
    if (mute)
      return;
    std::fprintf(ops, "%s\n", op.c_str());
    std::fprintf(impl, "%s\n", ans.c_str());
  }
  // an answer that is recorded for the comparison between objects only (no model line)
  void note(const std::string& op, const std::string& ans)
  {
    if (rec)
      rec->push_back(std::make_pair("note " + op, ans));
  }
  void fail(const std::string& text)
  {
    if (mute)
      return;
    ++fails;
    if (fails <= 60)
      std::fprintf(orc, "ORACLE-FAIL %s%s\n", text.c_str(), where.c_str());
  }
  void candidate(const std::string& key, const std::string& text)
  {
    if (mute)
      return;
    ++fails;
    if (candidates.insert(key).second)
      std::fprintf(orc, "KNOWN-CANDIDATE %s %s\n", key.c_str(), text.c_str());
  }
};

// |impl - expected| <= rel*magnitude (+ tiny), per voxel; returns index of first failing voxel or -1
static int
cmp_vec(const std::vector<float>& impl, const std::vector<double>& expect, const std::vector<double>& mag, double rel,
        double* worst = nullptr)
{
  int bad = -1;
  for (std::size_t i = 0; i < impl.size(); ++i)
    {
      const double d = std::fabs(double(impl[i]) - expect[i]);
      const double tol = rel * mag[i] + 1e-30;
      if (worst && mag[i] > 0)
        *worst = std::max(*worst, d / mag[i]);
      if (!(d <= tol) && bad < 0)
        bad = static_cast<int>(i);
    }
  return bad;
}

// ------------------------------------------------------------------------------------------------
struct CaseCfg
{
  int N, R, span, tofbins, tofmash, nxy, ntang, symflags, normkind, maxseg;
  int maxtof = -1; // argument of set_max_timing_pos_num_to_process (-1: the setter is not called)
  bool additive, zero, use_subset_sens, use_tofsens;
  float voxel_factor;
  int datamode; // 0 Poisson from the mean, 1 all counts >= 1, 2 with an all-zero view and singular bins, 3 tiny fractional counts
  std::string str() const
  {
    char buf[320];
    std::snprintf(buf, sizeof buf, "N=%d R=%d span=%d tof=%d/%d nxy=%d ntang=%d sym=%d norm=%d maxseg=%d maxtof=%d add=%d zero=%d subsens=%d tofsens=%d data=%d",
                  N, R, span, tofbins, tofmash, nxy, ntang, symflags, normkind, maxseg, maxtof, additive, zero, use_subset_sens, use_tofsens, datamode);
    return buf;
  }
};

struct Case
{
  CaseCfg c;
  shared_ptr<ExamInfo> exam;
  Geo g;          // geometry of the measured data, with explicit rows
  Geo gs;         // non-TOF clone of the geometry (TOF data only), with explicit rows: used for the sensitivity when !use_tofsens
  bool tof = false;
  bool norm_tof = false;   // some link of the normalisation chain has one factor per TOF bin
  std::string norm_links;  // the links of the chain for the `tofsens` operation: T trivial, P0/P1 FromProjData (non-TOF/TOF data), E0/E1 table
  bool same_proj; // expected: sensitivity computed by set_up uses the same projector (non-TOF data, use_tofsens, or TOF normalisation)
  int tofmax_data = 0;
  shared_ptr<TargetT> image;
  ImgIdx* ix = nullptr;
  std::vector<float> lam, x;
  shared_ptr<ProjData> ydata, adata;
  shared_ptr<BinNormalisation> norm;
  shared_ptr<ProjectorByBinPair> pair;
  int maxseg_eff;
};

static shared_ptr<ProjectorByBinPair>
make_pair_with_symmetries(int symflags)
{
  shared_ptr<ProjMatrixByBinUsingRayTracing> pm(new ProjMatrixByBinUsingRayTracing);
  pm->set_do_symmetry_90degrees_min_phi(symflags & 1);
  pm->set_do_symmetry_180degrees_min_phi(symflags & 2);
  pm->set_do_symmetry_swap_segment(symflags & 4);
  pm->set_do_symmetry_swap_s(symflags & 8);
  pm->set_do_symmetry_shift_z(symflags & 16);
  shared_ptr<ProjectorByBinPair> pair(new ProjectorByBinPairUsingProjMatrixByBin(pm));
  return pair;
}

static shared_ptr<BinNormalisation>
make_norm(Case& k, vh::Rng& rng)
{
  const int kind = k.c.normkind;
  // One factor per (segment, view, ax, tang) — the same for every TOF bin, so that the object also serves the non-TOF sensitivity — or
  // (tofdep, TOF data only) one factor per (segment, view, ax, tang, TOF bin): the bin of the normalisation data with the indices of the
  // data bin is the factor of that data bin.
  auto fill_factor = [&](char tag, double lo, double hi, bool tofdep) -> std::map<std::array<int, 5>, float> {
    std::map<std::array<int, 5>, float> t;
    for (auto& b : k.g.bins)
      {
        std::array<int, 5> key = { b.seg, b.view, b.ax, b.tang, tofdep ? b.tof : 0 };
        if (!t.count(key))
          t[key] = static_cast<float>(lo + (hi - lo) * rng.unit());
      }
    for (auto& b : k.g.bins)
      b.fac.push_back(std::make_pair(tag, t[{ b.seg, b.view, b.ax, b.tang, tofdep ? b.tof : 0 }]));
    // (with a TOF-dependent link the non-TOF geometry is not a legal one for the normalisation object: the library must not use it)
    for (auto& b : k.gs.bins)
      b.fac.push_back(std::make_pair(tag, t[{ b.seg, b.view, b.ax, b.tang, 0 }]));
    return t;
  };
  auto from_projdata = [&](bool tofdep) -> shared_ptr<BinNormalisation> {
    auto t = fill_factor('N', 0.6, 2.5, tofdep);
    // non-TOF normalisation data are also valid for TOF emission data (BinNormalisationFromProjData.cxx:130: timing position 0 for all)
    Geo gn;
    gn.pdi = tofdep ? k.g.pdi : k.g.pdi->create_non_tof_clone();
    enumerate_bins(gn);
    std::vector<float> vals(gn.bins.size());
    for (std::size_t i = 0; i < gn.bins.size(); ++i)
      vals[i] = t[{ gn.bins[i].seg, gn.bins[i].view, gn.bins[i].ax, gn.bins[i].tang, tofdep ? gn.bins[i].tof : 0 }];
    shared_ptr<ProjData> pd = make_projdata(k.exam, gn, vals);
    k.norm_links += tofdep ? " P1" : " P0";
    k.norm_tof = k.norm_tof || tofdep;
    return shared_ptr<BinNormalisation>(new BinNormalisationFromProjData(pd));
  };
  auto from_eff = [&](bool tofdep) -> shared_ptr<BinNormalisation> {
    auto t = fill_factor('E', 0.3, 1.5, tofdep);
    shared_ptr<EffNorm> e(new EffNorm);
    e->eff = t;
    e->tofdep = tofdep;
    k.norm_links += tofdep ? " E1" : " E0";
    k.norm_tof = k.norm_tof || tofdep;
    return e;
  };
  switch (kind)
    {
    case 0:
      k.norm_links = " T";
      return shared_ptr<BinNormalisation>(new TrivialBinNormalisation);
    case 1:
      return from_projdata(false);
    case 2: {
      auto a = from_projdata(false);
      auto b = from_projdata(false);
      return shared_ptr<BinNormalisation>(new ChainedBinNormalisation(a, b));
    }
    case 3:
      return from_eff(false);
    case 4: {
      auto a = from_eff(false);
      auto b = from_projdata(false);
      return shared_ptr<BinNormalisation>(new ChainedBinNormalisation(a, b));
    }
    // TOF data only: normalisation with one factor per TOF bin
    case 5:
      return from_projdata(true);
    case 6: {
      auto a = from_eff(false);
      auto b = from_projdata(true);
      return shared_ptr<BinNormalisation>(new ChainedBinNormalisation(a, b));
    }
    default: {
      auto a = from_projdata(true);
      auto b = from_eff(true);
      return shared_ptr<BinNormalisation>(new ChainedBinNormalisation(a, b));
    }
    }
}

static bool
build_case(Case& k, vh::Rng& rng)
{
  const CaseCfg& c = k.c;
  k.exam.reset(new ExamInfo);
  k.exam->imaging_modality = ImagingModality::PT;
  shared_ptr<Scanner> scanner = vh::make_scanner(c.N, c.R, c.tofbins > 0 ? c.tofbins : -1);
  k.g.pdi = vh::make_pdi(scanner, c.span, c.R - 1, c.N / 2, c.ntang, false, c.tofbins > 0 ? c.tofmash : 0);
  // voxel size such that the image covers about the tangential extent of the data (the generated rings have few, wide bins)
  const float bin_size = k.g.pdi->get_sampling_in_s(Bin(0, 0, 0, 0));
  const float voxel = bin_size * c.ntang / c.nxy * c.voxel_factor;
  k.image = vh::make_image(*k.g.pdi, scanner->get_default_bin_size() / voxel, c.nxy, 2 * c.R - 1);
  k.image->set_exam_info(*k.exam);
  k.ix = new ImgIdx(*k.image);
  enumerate_bins(k.g);
  fill_rows(k.g, k.image, *k.ix);
  {
    // The explicit rows (no symmetries) must be the rows the projector uses (symmetries, cache) up to rounding; where the ray tracer
    // itself gives different rows with and without symmetries (rays through voxel edges at the rim of the field of view: C03's subject)
    // the configuration is not used.
    double pmax = 0;
    const double d = row_discrepancy(k.g, k.image, *k.ix, c.symflags, &pmax);
    if (d > 5.e-7 * pmax)
      return false;
  }
  k.tof = k.g.pdi->is_tof_data();
  k.tofmax_data = k.g.pdi->get_max_tof_pos_num();
  if (k.tof)
    {
      k.gs.pdi = k.g.pdi->create_non_tof_clone();
      enumerate_bins(k.gs);
      fill_rows(k.gs, k.image, *k.ix);
    }
  const int nvox = k.ix->size();
  // images: positive; in mode 2 one half of every plane (y index >= 1) is exactly zero, so that whole rows have a vanishing mean
  k.lam.resize(nvox), k.x.resize(nvox);
  for (int i = 0; i < nvox; ++i)
    {
      k.lam[i] = static_cast<float>(0.25 + 2.5 * rng.unit());
      k.x[i] = static_cast<float>(0.1 + 1.5 * rng.unit());
      const int yidx = (i / k.ix->nx) % k.ix->ny + k.ix->y0;
      if (c.datamode == 2 && yidx >= 1)
        k.lam[i] = 0.F;
    }
  k.norm = make_norm(k, rng);
  // PoissonLogLikelihoodWithLinearModelForMeanAndProjData.cxx:539 and :646: TOF normalisation data switch the TOF sensitivity on
  k.same_proj = !k.tof || c.use_tofsens || k.norm_tof;
  // additive term and data
  std::vector<float> yv(k.g.bins.size()), av(k.g.bins.size());
  std::vector<float> truth(nvox);
  for (int i = 0; i < nvox; ++i)
    truth[i] = static_cast<float>(k.lam[i] * (0.5 + rng.unit()) * (k.g.pdi->is_tof_data() ? 3. : 1.));
  // mode 2: the view with most bins whose mean vanishes although their row is not empty gets segment-0 data that are zero everywhere
  int zero_view = 0;
  {
    std::map<int, int> cnt;
    for (auto& b : k.g.bins)
      if (b.seg == 0 && !b.row.empty() && dot(b, k.lam) == 0)
        cnt[b.view]++;
    for (auto& kv : cnt)
      if (kv.second > cnt[zero_view])
        zero_view = kv.first;
  }
  for (std::size_t i = 0; i < k.g.bins.size(); ++i)
    {
      BinRec& b = k.g.bins[i];
      b.a = c.additive ? static_cast<float>(0.05 + 0.8 * rng.unit()) : 0.F;
      const double mean = efficiency(b) * (dot(b, truth) + b.a);
      int cnt = poisson(rng, mean);
      if (c.datamode == 1)
        cnt += 1;
      b.y = static_cast<float>(cnt);
      if (c.datamode == 2)
        {
          if (b.view == zero_view && b.seg == 0)
            b.y = 0.F; // a viewgram that is zero everywhere (small_value = 0), some of its bins with a vanishing mean (0/0)
          else if (dot(b, k.lam) + b.a == 0 && rng.coin())
            b.y = static_cast<float>(1 + rng.range(0, 3)); // counts where the mean vanishes: singular bins, quotient capped at 10^4
        }
      if (c.datamode == 3 && rng.range(0, 5) == 0)
        b.y = static_cast<float>(b.y * (rng.coin() ? 4.e-7 : 3.e-6) + (rng.coin() ? 2.e-7 : 5.e-6)); // around max*SMALL_NUM
      yv[i] = b.y, av[i] = b.a;
    }
  k.ydata = make_projdata(k.exam, k.g, yv);
  if (c.additive)
    k.adata = make_projdata(k.exam, k.g, av);
  k.pair = make_pair_with_symmetries(c.symflags);
  k.maxseg_eff = c.maxseg < 0 ? k.g.pdi->get_max_segment_num() : c.maxseg;
  return true;
}

static void
configure(Obj& obj, const Case& k, int num_subsets)
{
  obj.set_proj_data_sptr(k.ydata);
  obj.set_projector_pair_sptr(k.pair);
  if (k.c.additive)
    obj.set_additive_proj_data_sptr(k.adata);
  obj.set_normalisation_sptr(k.norm);
  obj.set_zero_seg0_end_planes(k.c.zero);
  obj.set_max_segment_num_to_process(k.c.maxseg);
  if (k.c.maxtof >= 0)
    obj.set_max_timing_pos_num_to_process(k.c.maxtof);
  obj.set_use_subset_sensitivities(k.c.use_subset_sens);
  obj.set_use_tofsens(k.c.use_tofsens);
  obj.set_num_subsets(num_subsets);
}

// viewgrams (ids in geometry g) processed for one subset, by the library's own subset scheme (its partition property is C06's)
static std::vector<int>
subset_viewgrams(const Geo& g, const DataSymmetriesForViewSegmentNumbers& sym, int maxseg, int maxtof, int subset, int n)
{
  std::vector<int> ids;
  const std::vector<ViewSegmentNumbers> basics = detail::find_basic_vs_nums_in_subset(*g.pdi, sym, -maxseg, maxseg, subset, n);
  for (int tof = std::max(-maxtof, g.pdi->get_min_tof_pos_num()); tof <= std::min(maxtof, g.pdi->get_max_tof_pos_num()); ++tof)
    for (auto& bvs : basics)
      {
        std::vector<ViewSegmentNumbers> rel;
        sym.get_related_view_segment_numbers(rel, bvs);
        for (auto& r : rel)
          ids.push_back(g.vgid.at({ r.segment_num(), r.view_num(), tof }));
      }
  return ids;
}

static std::vector<int>
bins_of(const Geo& g, const std::vector<int>& vgids, bool drop_endplanes)
{
  std::vector<int> bins;
  for (int id : vgids)
    for (int bi : g.vgs[id])
      if (!(drop_endplanes && g.bins[bi].endplane))
        bins.push_back(bi);
  return bins;
}

static std::string
ids_str(const std::vector<int>& ids)
{
  std::string s;
  for (int i : ids)
    s += " " + std::to_string(i);
  return s;
}

static std::string ids_str(const std::vector<int>& ids);

static void
emit_geometry(Out& o, const Case& k, const char* tag, const Geo& g, bool with_data)
{
  for (auto& b : g.bins)
    {
      std::string s = std::string(tag) + " " + std::to_string(b.vg) + " " + (b.endplane ? "1" : "0");
      if (with_data)
        s += " " + vh::hex(b.y) + " " + (k.c.additive ? vh::hex(b.a) : std::string("-"));
      else
        s += " 0x1p+0 -";
      s += " " + std::to_string(b.fac.size());
      for (auto& f : b.fac)
        s += std::string(" ") + f.first + vh::hex(f.second);
      s += " " + std::to_string(b.row.size());
      for (auto& e : b.row)
        s += " " + std::to_string(e.first) + " " + vh::hex(e.second);
      o.line(s, "ok");
    }
}

template <class F>
static bool
guarded(F f)
{
  try
    {
      f();
      return true;
    }
  catch (...)
    {
      return false;
    }
}

// ------------------------------------------------------------------------------------------------
// Everything one set-up object is asked and compared with (model lines + textbook oracle): every subset of its n subsets, all
// quantities, the full-data functions, the sums over the subsets, the total sensitivity.  `obj` has been set up for the configuration
// of `k` with n subsets (by its first or by a later set_up); `recompute`: that set_up computed the sensitivities (else it read them).
static void
check_object(Out& o, Case& k, Obj* obj, const int n, const float c0, const bool recompute, std::map<std::string, long>& hist)
{
  const CaseCfg& c = k.c;
  const int nvox = k.ix->size();
  shared_ptr<TargetT> lam_im(k.image->get_empty_copy()), x_im(k.image->get_empty_copy());
  from_vec(*lam_im, k.lam);
  from_vec(*x_im, k.x);
  const int tofmax_req = c.maxtof >= 0 ? c.maxtof : k.tofmax_data;
  {
    // ---- what set_up made of the segment range, the TOF range and the TOF sensitivity switch
    const int tofmax_obs = obj->get_max_timing_pos_num_to_process();
    const bool tofsens_obs = obj->get_use_tofsens();
    const bool same_proj = !k.tof || tofsens_obs;
    const bool restricted = tofmax_req < k.tofmax_data;
    o.line("segrange " + std::to_string(c.maxseg) + " " + std::to_string(k.g.pdi->get_max_segment_num()),
           std::to_string(obj->get_max_segment_num_to_process()));
    o.line("tofrange " + std::to_string(c.maxtof) + " " + std::to_string(k.tofmax_data), std::to_string(tofmax_obs));
    // (PoissonLogLikelihoodWithLinearModelForMeanAndProjData.cxx:653-671) TOF normalisation data and a restricted TOF range switch TOF sensitivities on
    o.line(std::string(recompute ? "tofsens 1 " : "tofsens 0 ") + (c.use_tofsens ? "1" : "0") + " " + (k.tof ? "1" : "0") + " " + (restricted ? "1" : "0") + k.norm_links,
           tofsens_obs ? "1" : "0");
    o.checks += 3;
    if (same_proj != (k.same_proj || restricted))
      o.fail(std::string("sensitivity computed with the ") + (same_proj ? "TOF" : "non-TOF") + " projector, expected the other one: " + c.str());
    if (tofmax_obs != tofmax_req)
      o.fail("set_max_timing_pos_num_to_process(" + std::to_string(c.maxtof) + ") before set_up: after set_up get_max_timing_pos_num_to_process() = "
             + std::to_string(tofmax_obs) + ", expected " + std::to_string(tofmax_req) + "; " + c.str() + " n=" + std::to_string(n));
    else if (c.maxtof >= 0)
      ++hist["tofrange-restricted"];
    if (!same_proj && restricted)
      o.fail("TOF range restricted to " + std::to_string(tofmax_req) + " but the sensitivity is computed with the non-TOF projector (all TOF bins): " + c.str());
    // All comparisons (model lines and oracle) are for the requested TOF range.
    const int tofmax_eff = tofmax_req;
    // all bins of the data set within the segment and TOF range (for the "sum over subsets = full" clause), independent of the subset scheme
    const Geo& gs = same_proj ? k.g : k.gs;
    const int stofmax = same_proj ? tofmax_eff : 0;
    const char* sens_op = same_proj ? "sens" : "ssens";
    const char* sensdiv_op = same_proj ? "sensdiv" : "ssensdiv";
    std::vector<int> all_bins, all_sens_bins;
    for (std::size_t i = 0; i < k.g.bins.size(); ++i)
      if (std::abs(k.g.bins[i].seg) <= k.maxseg_eff && std::abs(k.g.bins[i].tof) <= tofmax_eff && !(c.zero && k.g.bins[i].endplane))
        all_bins.push_back(static_cast<int>(i));
    for (std::size_t i = 0; i < gs.bins.size(); ++i)
      if (std::abs(gs.bins[i].seg) <= k.maxseg_eff && std::abs(gs.bins[i].tof) <= stofmax && !(c.zero && gs.bins[i].endplane))
        all_sens_bins.push_back(static_cast<int>(i));

    const DataSymmetriesForViewSegmentNumbers& sym = *k.pair->get_symmetries_used();
    shared_ptr<DataSymmetriesForViewSegmentNumbers> sens_sym_holder;
    if (!same_proj)
      {
        // symmetries of a projector with the same switches on the non-TOF geometry (what the clone of the back projector uses)
        shared_ptr<ProjectorByBinPair> p2 = make_pair_with_symmetries(c.symflags);
        p2->set_up(k.gs.pdi, k.image);
        sens_sym_holder.reset(p2->get_symmetries_used()->clone());
      }
    const DataSymmetriesForViewSegmentNumbers& ssym = same_proj ? sym : *sens_sym_holder;

    std::vector<double> sum_grad(nvox, 0.), sum_gps(nvox, 0.), sum_sens(nvox, 0.), sum_hess(nvox, 0.), sum_mag_grad(nvox, 0.),
        sum_mag_hess(nvox, 0.);
    double sum_value = 0;
    std::map<int, int> vg_count;
    bool all_regular = true;

    for (int s = 0; s < n; ++s)
      {
        const std::vector<int> vg = subset_viewgrams(k.g, sym, k.maxseg_eff, tofmax_eff, s, n);
        const std::vector<int> svg = subset_viewgrams(gs, ssym, k.maxseg_eff, stofmax, s, n);
        for (int id : vg)
          vg_count[id]++;
        const std::string tail = ids_str(vg);
        const std::vector<int> tb_bins = bins_of(k.g, vg, c.zero);
        const std::vector<int> tb_sbins = bins_of(gs, svg, c.zero);
        std::string ctx = c.str() + " n=" + std::to_string(n) + " subset=" + std::to_string(s);

        // ---- value
        double value = 0;
        const bool value_ok = guarded([&] { value = obj->compute_objective_function(*lam_im, s); });
        o.line("val" + tail, value_ok ? vh::hex(value) : "err");
        {
          Textbook t = textbook(Q_VALUE, k.g, tb_bins, c.additive, k.lam, k.x, nvox);
          ++o.checks;
          all_regular = all_regular && t.regular;
          if (!value_ok)
            o.fail("value: exception " + ctx);
          else if (t.regular)
            {
              ++hist["oracle-value-regular"];
              if (!(std::fabs(value - t.s) <= ORACLE_REL * t.sm + 1e-30))
                o.fail("value differs from sum_b y log(n(P lambda + a)) - n(P lambda + a): impl=" + vh::hex(value) + " textbook=" + vh::hex(t.s) + " "
                       + ctx);
            }
          else
            ++hist["oracle-value-irregular"];
          sum_value += value;
        }
        // ---- gradient
        shared_ptr<TargetT> grad(k.image->get_empty_copy());
        grad->fill(7.F); // must be overwritten
        const bool grad_ok = guarded([&] { obj->compute_sub_gradient(*grad, *lam_im, s); });
        const std::vector<float> gradv = to_vec(*grad);
        o.line("grad" + tail, grad_ok ? hexvec(gradv) : "err");
        shared_ptr<TargetT> gps(k.image->get_empty_copy());
        gps->fill(-3.F);
        const bool gps_ok = guarded([&] { obj->compute_sub_gradient_without_penalty_plus_sensitivity(*gps, *lam_im, s); });
        const std::vector<float> gpsv = to_vec(*gps);
        o.line("gps" + tail, gps_ok ? hexvec(gpsv) : "err");
        // ---- subset sensitivity
        std::vector<float> sensv;
        const bool sens_ok = guarded([&] { sensv = to_vec(obj->get_subset_sensitivity(s)); });
        if (c.use_subset_sens)
          o.line(sens_op + ids_str(svg), sens_ok ? hexvec(sensv) : "err");
        else
          {
            // total sensitivity divided by the number of subsets
            std::vector<int> allvg;
            for (int s2 = 0; s2 < n; ++s2)
              {
                const std::vector<int> v2 = subset_viewgrams(gs, ssym, k.maxseg_eff, stofmax, s2, n);
                allvg.insert(allvg.end(), v2.begin(), v2.end());
              }
            o.line(std::string(sensdiv_op) + " " + std::to_string(n) + ids_str(allvg), sens_ok ? hexvec(sensv) : "err");
          }
        {
          Textbook tg = textbook(Q_GRAD, k.g, tb_bins, c.additive, k.lam, k.x, nvox);
          Textbook tp = textbook(Q_GPS, k.g, tb_bins, c.additive, k.lam, k.x, nvox);
          Textbook ts = textbook(Q_SENS, gs, tb_sbins, c.additive, k.lam, k.x, nvox);
          o.checks += 4;
          if (!grad_ok || !gps_ok || !sens_ok)
            o.fail("gradient/sensitivity: exception " + ctx);
          else
            {
              if (tg.regular)
                {
                  ++hist["oracle-gradient-regular"];
                  int bad = cmp_vec(gradv, tg.v, tg.m, ORACLE_REL);
                  if (bad >= 0)
                    o.fail("gradient differs from P^T(y/(P lambda + a) - n) at voxel " + std::to_string(bad) + ": impl=" + vh::hex(gradv[bad])
                           + " textbook=" + vh::hex(tg.v[bad]) + " " + ctx);
                  bad = cmp_vec(gpsv, tp.v, tp.m, ORACLE_REL);
                  if (bad >= 0)
                    o.fail("gradient-plus-sensitivity differs from P^T(y/(P lambda + a)) at voxel " + std::to_string(bad) + ": impl="
                           + vh::hex(gpsv[bad]) + " textbook=" + vh::hex(tp.v[bad]) + " " + ctx);
                }
              else
                ++hist["oracle-gradient-irregular"];
              if (c.use_subset_sens)
                {
                  ++hist["oracle-subset-sensitivity"];
                  int bad = cmp_vec(sensv, ts.v, ts.m, ORACLE_REL);
                  if (bad >= 0)
                    o.fail("subset sensitivity differs from P^T n at voxel " + std::to_string(bad) + ": impl=" + vh::hex(sensv[bad]) + " textbook="
                           + vh::hex(ts.v[bad]) + " " + ctx);
                }
              // "gradient plus sensitivity" exceeds the gradient by exactly the sensitivity (same projector; subset sensitivities)
              if (same_proj && c.use_subset_sens)
                {
                  ++hist["oracle-gps-minus-grad"];
                  std::vector<float> diff(nvox);
                  std::vector<double> mag(nvox);
                  for (int i = 0; i < nvox; ++i)
                    diff[i] = gpsv[i] - gradv[i], mag[i] = tg.m[i] + ts.m[i] + std::fabs(gpsv[i]) + std::fabs(gradv[i]);
                  int bad = cmp_vec(diff, ts.v, mag, ORACLE_REL);
                  if (bad >= 0)
                    o.fail("gradient_plus_sensitivity - gradient != P^T n at voxel " + std::to_string(bad) + ": "
                           + vh::hex(diff[bad]) + " vs " + vh::hex(ts.v[bad]) + " " + ctx);
                  std::vector<double> sd(sensv.begin(), sensv.end());
                  bad = cmp_vec(diff, sd, mag, ORACLE_REL);
                  if (bad >= 0)
                    o.fail("gradient_plus_sensitivity - gradient != get_subset_sensitivity at voxel " + std::to_string(bad) + ": "
                           + vh::hex(diff[bad]) + " vs " + vh::hex(sensv[bad]) + " " + ctx);
                }
              for (int i = 0; i < nvox; ++i)
                sum_grad[i] += gradv[i], sum_gps[i] += gpsv[i], sum_sens[i] += sensv[i], sum_mag_grad[i] += std::fabs(gradv[i]) + tg.m[i];
            }
        }
        // ---- Hessian times input
        shared_ptr<TargetT> hs(k.image->get_empty_copy());
        hs->fill(c0);
        Succeeded hs_s = Succeeded::no;
        const bool hess_ok = guarded([&] { hs_s = obj->accumulate_sub_Hessian_times_input(*hs, *lam_im, *x_im, s); }) && hs_s == Succeeded::yes;
        const std::vector<float> hessv = to_vec(*hs);
        o.line("hess " + vh::hex(c0) + tail, hess_ok ? hexvec(hessv) : "err");
        {
          Textbook th = textbook(Q_HESS, k.g, tb_bins, c.additive, k.lam, k.x, nvox);
          ++o.checks;
          if (!hess_ok)
            o.fail("Hessian times input: exception " + ctx);
          else if (th.regular)
            {
              ++hist["oracle-hessian-regular"];
              std::vector<float> h0(nvox);
              for (int i = 0; i < nvox; ++i)
                h0[i] = hessv[i] - c0, th.m[i] += std::fabs(c0);
              int bad = cmp_vec(h0, th.v, th.m, ORACLE_REL);
              // (the bins of the data: with zero_seg0_end_planes the end planes of segment 0 are excluded, as for value and gradient)
              if (bad >= 0)
                o.fail("Hessian times input differs from -P^T diag(y/(P lambda + a)^2) P x at voxel " + std::to_string(bad) + ": impl="
                       + vh::hex(h0[bad]) + " textbook=" + vh::hex(th.v[bad]) + " " + ctx);
            }
          else
            ++hist["oracle-hessian-irregular"];
          for (int i = 0; i < nvox; ++i)
            sum_hess[i] += double(hessv[i]) - c0, sum_mag_hess[i] += th.m[i] + std::fabs(hessv[i]);
        }
        // ---- approximate Hessian
        shared_ptr<TargetT> ah(k.image->get_empty_copy());
        ah->fill(c0);
        Succeeded ah_s = Succeeded::no;
        const bool ah_ok = guarded([&] { ah_s = obj->add_multiplication_with_approximate_sub_Hessian(*ah, *x_im, s); }) && ah_s == Succeeded::yes;
        o.line("ahess " + vh::hex(c0) + tail, ah_ok ? hexvec(to_vec(*ah)) : "err");
        ++o.checks;
        if (!ah_ok)
          o.fail("approximate Hessian: exception " + ctx);
      }

    // ---- the full-data functions of the API against the sum of the subset results
    {
      std::string ctx = c.str() + " n=" + std::to_string(n);
      o.checks += 2;
      double full_value = 0;
      shared_ptr<TargetT> full_grad(k.image->get_empty_copy());
      full_grad->fill(5.F);
      if (!guarded([&] {
            full_value = obj->compute_objective_function(*lam_im);
            obj->compute_gradient(*full_grad, *lam_im);
          }))
        o.fail("full-data value/gradient: exception " + ctx);
      else
        {
          o.note("full-value", vh::hex(full_value));
          o.note("full-gradient", hexvec(to_vec(*full_grad)));
          if (!(std::fabs(full_value - sum_value) <= 1e-9 * (std::fabs(sum_value) + 1)))
            o.fail("compute_objective_function(image) != sum over subsets: " + vh::hex(full_value) + " vs " + vh::hex(sum_value) + " " + ctx);
          std::vector<float> fg = to_vec(*full_grad);
          int bad = cmp_vec(fg, sum_grad, sum_mag_grad, 1e-5);
          if (bad >= 0)
            o.fail("compute_gradient != sum over subsets of compute_sub_gradient at voxel " + std::to_string(bad) + " " + ctx);
        }
      // full-data Hessian product of the API = the subset products accumulated one after the other (any configuration)
      {
        ++o.checks;
        shared_ptr<TargetT> fh(k.image->get_empty_copy());
        fh->fill(c0);
        Succeeded fs = Succeeded::no;
        if (!(guarded([&] { fs = obj->accumulate_Hessian_times_input(*fh, *lam_im, *x_im); }) && fs == Succeeded::yes))
          o.fail("full-data Hessian times input: exception " + ctx);
        else
          {
            std::vector<float> fhv = to_vec(*fh);
            o.note("full-hessian", hexvec(fhv));
            std::vector<double> expect(nvox), mag(nvox);
            for (int i = 0; i < nvox; ++i)
              fhv[i] -= c0, expect[i] = sum_hess[i], mag[i] = sum_mag_hess[i] + std::fabs(c0) * (n + 1);
            int bad = cmp_vec(fhv, expect, mag, 1e-5);
            if (bad >= 0)
              o.fail("accumulate_Hessian_times_input != sum over subsets of accumulate_sub_Hessian_times_input at voxel " + std::to_string(bad) + ": "
                     + vh::hex(fhv[bad]) + " vs " + vh::hex(expect[bad]) + " " + ctx);
          }
      }
      // subset numbers outside 0..n-1 are refused (GeneralisedObjectiveFunction.cxx:136, :232)
      for (int s : { -1, n, n + 3, 0 })
        {
          shared_ptr<TargetT> tmp(k.image->get_empty_copy());
          const bool ok1 = guarded([&] { obj->compute_sub_gradient(*tmp, *lam_im, s); });
          const bool ok2 = guarded([&] { obj->compute_objective_function(*lam_im, s); });
          o.line("range " + std::to_string(n) + " " + std::to_string(s), std::string(ok1 ? "ok" : "err") + " " + (ok2 ? "ok" : "err"));
          ++o.checks;
          if (ok1 != (s >= 0 && s < n) || ok2 != (s >= 0 && s < n))
            o.fail("subset number " + std::to_string(s) + " of " + std::to_string(n) + (ok1 ? " accepted" : " refused") + " " + ctx);
        }
    }
    // ---- each quantity summed over all subsets equals its full-data counterpart (textbook on ALL bins, no subset scheme involved)
    {
      std::string ctx = c.str() + " n=" + std::to_string(n);
      o.checks += 5;
      // every viewgram of the segment range exactly once over the subsets
      bool part_ok = true;
      for (auto& kv : k.g.vgid)
        if (std::abs(kv.first[0]) <= k.maxseg_eff && std::abs(kv.first[2]) <= tofmax_eff)
          part_ok = part_ok && vg_count[kv.second] == 1;
      for (auto& kv : vg_count)
        part_ok = part_ok && kv.second == 1;
      if (!part_ok)
        o.fail("viewgrams of the subsets do not partition the data " + ctx);
      Textbook tv = textbook(Q_VALUE, k.g, all_bins, c.additive, k.lam, k.x, nvox);
      Textbook tg = textbook(Q_GRAD, k.g, all_bins, c.additive, k.lam, k.x, nvox);
      Textbook ts = textbook(Q_SENS, gs, all_sens_bins, c.additive, k.lam, k.x, nvox);
      Textbook th = textbook(Q_HESS, k.g, all_bins, c.additive, k.lam, k.x, nvox);
      if (tv.regular)
        {
          ++hist["oracle-sum-over-subsets"];
          if (!(std::fabs(sum_value - tv.s) <= ORACLE_REL * tv.sm + 1e-30))
            o.fail("sum over subsets of the value != full-data value: " + vh::hex(sum_value) + " vs " + vh::hex(tv.s) + " " + ctx);
          std::vector<float> sg(sum_grad.begin(), sum_grad.end());
          int bad = cmp_vec(sg, tg.v, tg.m, 2 * ORACLE_REL);
          if (bad >= 0)
            o.fail("sum over subsets of the gradient != full-data gradient at voxel " + std::to_string(bad) + " " + ctx);
          {
            const Textbook& thh = th;
            if (thh.regular)
              {
                ++hist["oracle-sum-over-subsets-hessian"];
                std::vector<float> sh(sum_hess.begin(), sum_hess.end());
                bad = cmp_vec(sh, thh.v, sum_mag_hess, 2 * ORACLE_REL);
                if (bad >= 0)
                  o.fail("sum over subsets of Hessian times input != full-data Hessian times input at voxel " + std::to_string(bad) + ": "
                         + vh::hex(sh[bad]) + " vs " + vh::hex(thh.v[bad]) + " " + ctx);
              }
          }
        }
      {
        std::vector<float> ss(sum_sens.begin(), sum_sens.end());
        int bad = cmp_vec(ss, ts.v, ts.m, 2 * ORACLE_REL);
        if (bad >= 0)
          o.fail("sum over subsets of the subset sensitivities != full sensitivity P^T n at voxel " + std::to_string(bad) + ": " + vh::hex(ss[bad])
                 + " vs " + vh::hex(ts.v[bad]) + " " + ctx);
        std::vector<float> tot = to_vec(obj->get_sensitivity());
        bad = cmp_vec(tot, ts.v, ts.m, 2 * ORACLE_REL);
        if (bad >= 0)
          o.fail("get_sensitivity() != P^T n at voxel " + std::to_string(bad) + ": " + vh::hex(tot[bad]) + " vs " + vh::hex(ts.v[bad]) + " " + ctx);
        // the total sensitivity goes to the model, too: the sensitivity of all viewgrams of the data set
        std::vector<int> allsvg;
        for (int s2 = 0; s2 < n; ++s2)
          {
            const std::vector<int> v2 = subset_viewgrams(gs, ssym, k.maxseg_eff, stofmax, s2, n);
            allsvg.insert(allsvg.end(), v2.begin(), v2.end());
          }
        o.line(sens_op + ids_str(allsvg), hexvec(tot));
      }
    }
  }
}


// ------------------------------------------------------------------------------------------------
// one configuration: every legal number of subsets, every subset, all quantities
static void
run_case(Out& o, Case& k, vh::Rng& rng, int case_id, bool thorough, std::map<std::string, long>& hist)
{
  const CaseCfg& c = k.c;
  const int nvox = k.ix->size();
  const int views = c.N / 2;
  char buf[512];
  std::snprintf(buf, sizeof buf, "cfg %d nvox=%d zero=%d sameproj=%d %s", case_id, nvox, c.zero ? 1 : 0, k.same_proj ? 1 : 0, c.str().c_str());
  o.line(buf, "ok");
  o.line("img " + hexvec(k.lam), "ok");
  o.line("inp " + hexvec(k.x), "ok");
  emit_geometry(o, k, "bin", k.g, true);
  if (k.tof)
    emit_geometry(o, k, "sbin", k.gs, false);

  shared_ptr<TargetT> lam_im(k.image->get_empty_copy()), x_im(k.image->get_empty_copy());
  from_vec(*lam_im, k.lam);
  from_vec(*x_im, k.x);

  // the TOF range of the property: the one requested with set_max_timing_pos_num_to_process, else all TOF bins of the data
  const int tofmax_req = c.maxtof >= 0 ? c.maxtof : k.tofmax_data;

  {
    // malformed use: requests before set_up and a segment range larger than the data are refused
    Holder obj(0);
    configure(*obj, k, 1);
    shared_ptr<TargetT> tmp(k.image->get_empty_copy());
    const bool ok1 = guarded([&] { obj->compute_sub_gradient(*tmp, *lam_im, 0); });
    const bool ok2 = guarded([&] { obj->compute_objective_function(*lam_im, 0); });
    obj->set_max_segment_num_to_process(k.g.pdi->get_max_segment_num() + 1);
    Succeeded su = Succeeded::yes;
    const bool ok3 = guarded([&] { su = obj->set_up(k.image); }) && su == Succeeded::yes;
    o.checks += 3;
    if (ok1 || ok2)
      o.fail("request before set_up accepted " + c.str());
    if (ok3)
      o.fail("max_segment_num_to_process larger than the data accepted by set_up " + c.str());
    o.line("segrange " + std::to_string(k.g.pdi->get_max_segment_num() + 1) + " " + std::to_string(k.g.pdi->get_max_segment_num()),
           ok3 ? std::to_string(obj->get_max_segment_num_to_process()) : std::string("err"));
    {
      // a TOF range larger than the data is refused, too
      Holder ob(1);
      configure(*ob, k, 1);
      ob->set_max_timing_pos_num_to_process(k.tofmax_data + 1);
      Succeeded s4 = Succeeded::yes;
      const bool ok4 = guarded([&] { s4 = ob->set_up(k.image); }) && s4 == Succeeded::yes;
      ++o.checks;
      if (ok4)
        o.fail("max_timing_pos_num_to_process larger than the data accepted by set_up " + c.str());
      o.line("tofrange " + std::to_string(k.tofmax_data + 1) + " " + std::to_string(k.tofmax_data),
             ok4 ? std::to_string(ob->get_max_timing_pos_num_to_process()) : std::string("err"));
    }
    ++hist["malformed-use"];
  }
  // "every legal number of subsets": set_up refuses exactly the subset numbers whose subsets do not contain the same number of
  // viewgrams, and those only if subset sensitivities are off.  Independent count: every (segment, view) of the segment range
  // belongs to the subset given by the view number of its basic (segment, view).
  auto check_balance = [&](int n, bool use_subset_sens, bool accepted) {
    std::vector<long> counts(n, 0);
    const bool counted = guarded([&] {
      const DataSymmetriesForViewSegmentNumbers& sy = *k.pair->get_symmetries_used();
      for (int seg = -k.maxseg_eff; seg <= k.maxseg_eff; ++seg)
        for (int view = k.g.pdi->get_min_view_num(); view <= k.g.pdi->get_max_view_num(); ++view)
          {
            ViewSegmentNumbers vs(view, seg);
            sy.find_basic_view_segment_numbers(vs);
            counts[(vs.view_num() - k.g.pdi->get_min_view_num()) % n]++;
          }
    });
    if (!counted)
      return;
    bool balanced = true;
    std::string cs;
    for (int s = 0; s < n; ++s)
      balanced = balanced && counts[s] == counts[0], cs += " " + std::to_string(counts[s]);
    o.line(std::string("balance ") + (use_subset_sens ? "1" : "0") + cs, accepted ? "ok" : "refused");
    ++o.checks;
    ++hist[balanced ? "subsets-balanced" : "subsets-unbalanced"];
    if (accepted != (balanced || use_subset_sens))
      o.fail(std::string("set_up ") + (accepted ? "accepts" : "refuses") + " num_subsets=" + std::to_string(n) + " with viewgrams per subset" + cs
             + " and use_subset_sensitivities=" + (use_subset_sens ? "1" : "0") + " " + c.str());
  };
  for (int n = 1; n <= views; ++n)
    {
      const bool full_run = thorough || n <= 4 || views % n == 0;
      if (!full_run || c.use_subset_sens)
        {
          // the refusal alone, with subset sensitivities off (every number of subsets, also those the quick tier runs nothing else for)
          Holder ob(0);
          configure(*ob, k, n);
          ob->set_use_subset_sensitivities(false);
          const bool acc = guarded([&] {
            if (ob->set_up(k.image) != Succeeded::yes)
              throw 1;
          });
          check_balance(n, false, acc);
        }
      if (!full_run)
        continue;
      Holder obj(rng.coin() ? 0 : 1);
      configure(*obj, k, n);
      bool threw = false;
      Succeeded su = Succeeded::no;
      try
        {
          su = obj->set_up(k.image);
        }
      catch (...)
        {
          threw = true;
        }
      const bool accepted = !threw && su == Succeeded::yes;
      check_balance(n, c.use_subset_sens, accepted);
      if (!accepted)
        {
          ++hist["setup-refused"];
          continue;
        }
      ++hist["setup-ok"];
      const float c0 = rng.coin() ? 0.F : static_cast<float>(rng.range(1, 8)) * 0.25F;
      check_object(o, k, obj.p, n, c0, true, hist);
    }
}


// ------------------------------------------------------------------------------------------------
// "with a prior the penalised quantities are the unpenalised ones minus the prior's share"
static void
run_penalised(Out& o, Case& k, vh::Rng& rng, std::map<std::string, long>& hist)
{
  const CaseCfg& c = k.c;
  const int nvox = k.ix->size();
  const int views = c.N / 2;
  shared_ptr<TargetT> lam_im(k.image->get_empty_copy()), x_im(k.image->get_empty_copy());
  from_vec(*lam_im, k.lam);
  from_vec(*x_im, k.x);
  const int reps = 2;
  int done = 0;
  for (int attempt = 0; attempt < 6; ++attempt)
    {
      const int n = rng.range(1, views);
      const int s = rng.range(0, n - 1);
      Holder A(0), B(1);
      configure(*A, k, n);
      configure(*B, k, n);
      const float beta = static_cast<float>(0.05 + rng.unit());
      shared_ptr<QuadraticPrior<float>> prior(new QuadraticPrior<float>(false, beta));
      B->set_prior_sptr(prior);
      bool ok = guarded([&] {
        if (A->set_up(k.image) != Succeeded::yes || B->set_up(k.image) != Succeeded::yes)
          throw 1;
      });
      if (!ok)
        continue;
      ++hist["penalised-cases"];
      const std::string ctx = c.str() + " n=" + std::to_string(n) + " subset=" + std::to_string(s) + " beta=" + vh::hex(beta);
      const float c0 = static_cast<float>(rng.range(0, 4)) * 0.5F;
      auto emit = [&](const char* what, const std::vector<double>& q, const std::vector<double>& p, const std::vector<double>& got) {
        std::string op = std::string("pen ") + std::to_string(n) + " " + std::to_string(q.size());
        for (double v : q)
          op += " " + vh::hex(v);
        for (double v : p)
          op += " " + vh::hex(v);
        std::string ans;
        for (std::size_t i = 0; i < got.size(); ++i)
          ans += (i ? " " : "") + vh::hex(got[i]);
        o.line(op, ans);
        ++o.checks;
        for (std::size_t i = 0; i < got.size(); ++i)
          if (!(std::fabs(got[i] - (q[i] - p[i] / n)) <= 1e-5 * (std::fabs(q[i]) + std::fabs(p[i] / n)) + 1e-30))
            {
              o.fail(std::string("penalised ") + what + " != unpenalised - prior share/num_subsets at element " + std::to_string(i) + ": "
                     + vh::hex(got[i]) + " vs " + vh::hex(q[i]) + " - " + vh::hex(p[i]) + "/" + std::to_string(n) + " " + ctx);
              break;
            }
      };
      auto dvec = [](const TargetT& im) { return std::vector<double>(im.begin_all_const(), im.end_all_const()); };
      // value
      {
        const double qa = A->compute_objective_function(*lam_im, s);
        const double qb = B->compute_objective_function(*lam_im, s);
        const double pv = prior->compute_value(*lam_im);
        emit("value", { qa }, { pv }, { qb });
      }
      // gradient
      {
        shared_ptr<TargetT> ga(k.image->get_empty_copy()), gb(k.image->get_empty_copy()), pg(k.image->get_empty_copy());
        A->compute_sub_gradient(*ga, *lam_im, s);
        B->compute_sub_gradient(*gb, *lam_im, s);
        prior->compute_gradient(*pg, *lam_im);
        emit("gradient", dvec(*ga), dvec(*pg), dvec(*gb));
      }
      // Hessian times input and approximate Hessian: the share of the prior is (prior Hessian) x (input) / num_subsets
      for (int approx = 0; approx < 2; ++approx)
        {
          shared_ptr<TargetT> ha(k.image->get_empty_copy()), hb(k.image->get_empty_copy()), ph(k.image->get_empty_copy()),
              ph_out(k.image->get_empty_copy());
          ha->fill(c0), hb->fill(c0);
          if (approx)
            {
              A->add_multiplication_with_approximate_sub_Hessian(*ha, *x_im, s);
              B->add_multiplication_with_approximate_sub_Hessian(*hb, *x_im, s);
              prior->add_multiplication_with_approximate_Hessian(*ph, *x_im);
              prior->add_multiplication_with_approximate_Hessian(*ph_out, *ha);
            }
          else
            {
              A->accumulate_sub_Hessian_times_input(*ha, *lam_im, *x_im, s);
              B->accumulate_sub_Hessian_times_input(*hb, *lam_im, *x_im, s);
              prior->accumulate_Hessian_times_input(*ph, *lam_im, *x_im);
              prior->accumulate_Hessian_times_input(*ph_out, *lam_im, *ha);
            }
          const std::vector<double> q = dvec(*ha), pin = dvec(*ph), pout = dvec(*ph_out), got = dvec(*hb);
          // model line: the prior's Hessian is applied to the input (GeneralisedObjectiveFunction.cxx:295, :397)
          std::string op = std::string(approx ? "penah " : "penh ") + std::to_string(n) + " " + std::to_string(q.size());
          for (double v : q)
            op += " " + vh::hex(v);
          for (double v : pin)
            op += " " + vh::hex(v);
          std::string ans;
          for (std::size_t i = 0; i < got.size(); ++i)
            ans += (i ? " " : "") + vh::hex(got[i]);
          o.line(op, ans);
          ++o.checks;
          int bad = -1, bad_alt = -1;
          for (int i = 0; i < nvox; ++i)
            {
              const double tol = 1e-5 * (std::fabs(q[i]) + std::fabs(pin[i] / n) + std::fabs(pout[i] / n)) + 1e-30;
              if (bad < 0 && !(std::fabs(got[i] - (q[i] - pin[i] / n)) <= tol))
                bad = i;
              if (bad_alt < 0 && !(std::fabs(got[i] - (q[i] - pout[i] / n)) <= tol))
                bad_alt = i;
            }
          if (bad >= 0)
            {
              const std::string where = std::string(approx ? "add_multiplication_with_approximate_sub_Hessian" : "accumulate_sub_Hessian_times_input")
                                        + " with a prior: voxel " + std::to_string(bad) + " result=" + vh::hex(got[bad]) + " expected (LL part) - (prior Hessian x input)/n = "
                                        + vh::hex(q[bad] - pin[bad] / n) + " " + ctx;
              o.fail(std::string("penalised Hessian times input != unpenalised - (prior Hessian x input)/num_subsets")
                     + (bad_alt < 0 ? " (it is unpenalised - (prior Hessian x OUTPUT)/num_subsets): " : ": ") + where);
            }
        }
      // ---- the full-data functions with a prior attached, and the public *_without_penalty functions of the object that holds the prior:
      // every result goes to the model (which recomputes it from the bins of the viewgrams and the prior's term) and, as oracle,
      // is compared with the object without prior: unpenalised = that object's result bit for bit, penalised full = that result - prior term
      {
        const int tofmax_eff = c.maxtof >= 0 ? c.maxtof : k.tofmax_data; // the requested TOF range
        const DataSymmetriesForViewSegmentNumbers& sym = *k.pair->get_symmetries_used();
        std::vector<int> allvg;
        std::string tail_split;
        std::string tail_s;
        for (int s2 = 0; s2 < n; ++s2)
          {
            const std::vector<int> v2 = subset_viewgrams(k.g, sym, k.maxseg_eff, tofmax_eff, s2, n);
            allvg.insert(allvg.end(), v2.begin(), v2.end());
            tail_split += std::string(s2 ? " /" : "") + ids_str(v2);
            if (s2 == s)
              tail_s = ids_str(v2);
          }
        const std::string tail_all = ids_str(allvg);
        const std::string N = std::to_string(n), V = std::to_string(nvox);
        auto fvec = [](const TargetT& im) { return std::vector<float>(im.begin_all_const(), im.end_all_const()); };
        auto new_im = [&](float fill) {
          shared_ptr<TargetT> im(k.image->get_empty_copy());
          im->fill(fill);
          return im;
        };
        auto same_bits = [&](const char* what, const std::vector<float>& a, const std::vector<float>& b) {
          ++o.checks;
          if (a != b)
            o.fail(std::string(what) + " on the object with a prior differs from the result of the object without prior " + ctx);
        };
        auto minus_prior = [&](const char* what, const std::vector<float>& got, const std::vector<float>& q, const std::vector<float>& pr) {
          ++o.checks;
          for (std::size_t i = 0; i < got.size(); ++i)
            if (!(std::fabs(double(got[i]) - (double(q[i]) - double(pr[i]))) <= 1e-5 * (std::fabs(q[i]) + std::fabs(pr[i]) + std::fabs(c0)) + 1e-30))
              {
                o.fail(std::string("penalised ") + what + " != unpenalised - prior term at voxel " + std::to_string(i) + ": " + vh::hex(got[i]) + " vs "
                       + vh::hex(q[i]) + " - " + vh::hex(pr[i]) + " " + ctx);
                break;
              }
        };
        const bool ran = guarded([&] {
          // value
          const double pv = prior->compute_value(*lam_im);
          const double a_sub = A->compute_objective_function(*lam_im, s);
          const double b_sub_wo = B->compute_objective_function_without_penalty(*lam_im, s);
          const double b_sub = B->compute_objective_function(*lam_im, s);
          const double a_full = A->compute_objective_function(*lam_im);
          const double b_full_wo = B->compute_objective_function_without_penalty(*lam_im);
          const double b_full = B->compute_objective_function(*lam_im);
          o.line("val" + tail_s, vh::hex(b_sub_wo));
          o.line("pval " + N + " " + vh::hex(pv) + tail_s, vh::hex(b_sub));
          o.line("val" + tail_all, vh::hex(b_full_wo));
          o.line("pvalfull " + vh::hex(pv) + tail_all, vh::hex(b_full));
          o.checks += 3;
          if (b_sub_wo != a_sub || b_full_wo != a_full)
            o.fail("compute_objective_function_without_penalty on the object with a prior differs from the result of the object without prior " + ctx);
          if (!(std::fabs(b_full - (a_full - pv)) <= 1e-12 * (std::fabs(a_full) + std::fabs(pv))))
            o.fail("compute_objective_function(image) with a prior != unpenalised - prior value: " + vh::hex(b_full) + " vs " + vh::hex(a_full) + " - "
                   + vh::hex(pv) + " " + ctx);
          if (!(std::fabs(b_sub - (a_sub - pv / n)) <= 1e-12 * (std::fabs(a_sub) + std::fabs(pv))))
            o.fail("compute_objective_function(image, subset) with a prior != unpenalised - prior value/num_subsets " + ctx);
          // gradient
          shared_ptr<TargetT> pg = new_im(0.F);
          prior->compute_gradient(*pg, *lam_im);
          const std::string pgs = " " + hexvec(fvec(*pg));
          shared_ptr<TargetT> ga = new_im(1.F), gbw = new_im(2.F), gb = new_im(3.F);
          A->compute_sub_gradient(*ga, *lam_im, s);
          B->compute_sub_gradient_without_penalty(*gbw, *lam_im, s);
          B->compute_sub_gradient(*gb, *lam_im, s);
          o.line("grad" + tail_s, hexvec(fvec(*gbw)));
          o.line("pgrad " + N + " " + V + pgs + tail_s, hexvec(fvec(*gb)));
          same_bits("compute_sub_gradient_without_penalty", fvec(*gbw), fvec(*ga));
          shared_ptr<TargetT> fa = new_im(1.F), fbw = new_im(2.F), fb = new_im(3.F);
          A->compute_gradient(*fa, *lam_im);
          B->compute_gradient_without_penalty(*fbw, *lam_im);
          B->compute_gradient(*fb, *lam_im);
          o.line("grad" + tail_all, hexvec(fvec(*fbw)));
          o.line("pgradfull " + V + pgs + tail_all, hexvec(fvec(*fb)));
          same_bits("compute_gradient_without_penalty", fvec(*fbw), fvec(*fa));
          minus_prior("compute_gradient", fvec(*fb), fvec(*fa), fvec(*pg));
          // Hessian times input and approximate Hessian
          for (int approx = 0; approx < 2; ++approx)
            {
              shared_ptr<TargetT> ph = new_im(0.F);
              shared_ptr<TargetT> sa = new_im(c0), sbw = new_im(c0), sb = new_im(c0), ha = new_im(c0), hbw = new_im(c0), hb = new_im(c0);
              Succeeded r = Succeeded::yes;
              auto all_yes = [&](Succeeded x) { if (x != Succeeded::yes) r = Succeeded::no; };
              if (approx)
                {
                  prior->add_multiplication_with_approximate_Hessian(*ph, *x_im);
                  all_yes(A->add_multiplication_with_approximate_sub_Hessian(*sa, *x_im, s));
                  all_yes(B->add_multiplication_with_approximate_sub_Hessian_without_penalty(*sbw, *x_im, s));
                  all_yes(B->add_multiplication_with_approximate_sub_Hessian(*sb, *x_im, s));
                  all_yes(A->add_multiplication_with_approximate_Hessian(*ha, *x_im));
                  all_yes(B->add_multiplication_with_approximate_Hessian_without_penalty(*hbw, *x_im));
                  all_yes(B->add_multiplication_with_approximate_Hessian(*hb, *x_im));
                }
              else
                {
                  prior->accumulate_Hessian_times_input(*ph, *lam_im, *x_im);
                  all_yes(A->accumulate_sub_Hessian_times_input(*sa, *lam_im, *x_im, s));
                  all_yes(B->accumulate_sub_Hessian_times_input_without_penalty(*sbw, *lam_im, *x_im, s));
                  all_yes(B->accumulate_sub_Hessian_times_input(*sb, *lam_im, *x_im, s));
                  all_yes(A->accumulate_Hessian_times_input(*ha, *lam_im, *x_im));
                  all_yes(B->accumulate_Hessian_times_input_without_penalty(*hbw, *lam_im, *x_im));
                  all_yes(B->accumulate_Hessian_times_input(*hb, *lam_im, *x_im));
                }
              ++o.checks;
              if (r != Succeeded::yes)
                o.fail("a Hessian function returned Succeeded::no " + ctx);
              const std::string nm = approx ? "ahess" : "hess";
              const std::string phs = " " + hexvec(fvec(*ph));
              o.line(nm + " " + vh::hex(c0) + tail_s, hexvec(fvec(*sbw)));
              o.line("p" + nm + " " + N + " " + vh::hex(c0) + " " + V + phs + tail_s, hexvec(fvec(*sb)));
              o.line(nm + " " + vh::hex(c0) + tail_all, hexvec(fvec(*hbw)));
              o.line("p" + nm + "full " + N + " " + vh::hex(c0) + " " + V + phs + tail_split, hexvec(fvec(*hb)));
              same_bits(approx ? "add_multiplication_with_approximate_sub_Hessian_without_penalty" : "accumulate_sub_Hessian_times_input_without_penalty",
                        fvec(*sbw), fvec(*sa));
              same_bits(approx ? "add_multiplication_with_approximate_Hessian_without_penalty" : "accumulate_Hessian_times_input_without_penalty",
                        fvec(*hbw), fvec(*ha));
              minus_prior(approx ? "add_multiplication_with_approximate_Hessian" : "accumulate_Hessian_times_input", fvec(*hb), fvec(*ha), fvec(*ph));
            }
        });
        ++o.checks;
        if (!ran)
          o.fail("full-data / without-penalty functions with a prior attached: exception " + ctx);
        ++hist["penalised-full-data"];
      }
      if (++done >= reps)
        return;
    }
}

// ------------------------------------------------------------------------------------------------
// "The results do not depend on the order in which value, gradient, sensitivity and Hessian products are first requested after set-up"
struct ReqResult
{
  bool ok = false;
  double value = 0;
  std::vector<float> v;
  bool same(const ReqResult& r) const { return ok == r.ok && (!ok || (value == r.value && v == r.v)); }
};

static ReqResult
serve(Obj& obj, const Case& k, const std::string& req, TargetT& lam_im, TargetT& x_im)
{
  ReqResult r;
  shared_ptr<TargetT> out(k.image->get_empty_copy());
  r.ok = guarded([&] {
    if (req == "value")
      r.value = obj.compute_objective_function(lam_im, 0);
    else if (req == "gradient")
      obj.compute_sub_gradient(*out, lam_im, 0);
    else if (req == "gps")
      obj.compute_sub_gradient_without_penalty_plus_sensitivity(*out, lam_im, 0);
    else if (req == "sensitivity")
      obj.add_subset_sensitivity(*out, 0);
    else if (req == "hessian")
      {
        if (obj.accumulate_sub_Hessian_times_input(*out, lam_im, x_im, 0) != Succeeded::yes)
          throw 1;
      }
    else if (req == "ahessian")
      {
        if (obj.add_multiplication_with_approximate_sub_Hessian(*out, x_im, 0) != Succeeded::yes)
          throw 1;
      }
  });
  if (r.ok)
    r.v = to_vec(*out);
  return r;
}

static void
run_orders(Out& o, Case& k, vh::Rng& rng, bool thorough, std::map<std::string, long>& hist)
{
  const CaseCfg& c = k.c;
  shared_ptr<TargetT> lam_im(k.image->get_empty_copy()), x_im(k.image->get_empty_copy());
  from_vec(*lam_im, k.lam);
  from_vec(*x_im, k.x);
  const int n = 1 + (rng.coin() && (c.N / 2) % 2 == 0 ? 1 : 0);
  for (int recompute = 1; recompute >= 0; --recompute)
    {
      // recompute=1: set_up computes the sensitivities (default).  recompute=0: the sensitivity is not computed by set_up
      // (sensitivity filename "1", use_subset_sensitivities off): set_up leaves distributable_computation_already_setup=false and the
      // member latest_setup_distributable_computation_was_with_orig_projectors as it was (no initialiser: indeterminate).
      std::vector<std::string> kinds = { "value", "gradient", "sensitivity", "hessian" };
      if (!recompute)
        kinds = { "value", "gradient", "hessian" }; // add_subset_sensitivity needs the objects only created when sensitivities are recomputed
      std::sort(kinds.begin(), kinds.end());
      std::map<std::string, ReqResult> reference;
      std::map<std::string, bool> depends;
      std::string first_bad_order;
      int fill = 0;
      do
        {
          for (int f = 0; f < 2; ++f)
            {
              fill = f;
              Holder obj(fill);
              configure(*obj, k, n);
              if (!recompute)
                {
                  obj->set_use_subset_sensitivities(false);
                  obj->set_sensitivity_filename("1");
                  obj->set_recompute_sensitivity(false);
                }
              bool ok = guarded([&] {
                if (obj->set_up(k.image) != Succeeded::yes)
                  throw 1;
              });
              if (!ok)
                {
                  ++hist["orders-setup-refused"];
                  continue;
                }
              if (!recompute && f == 0)
                // set_up does not compute the sensitivities: TOF normalisation data and a restricted TOF range leave the switch alone (cxx:653)
                o.line(std::string("tofsens 0 ") + (c.use_tofsens ? "1" : "0") + " " + (k.tof ? "1" : "0") + " "
                           + (c.maxtof >= 0 && c.maxtof < k.tofmax_data ? "1" : "0") + k.norm_links,
                       obj->get_use_tofsens() ? "1" : "0");
              // (the TOF sensitivity switch as the object has it after set_up: TOF normalisation data turn it on only when set_up computes the sensitivities)
              std::string op = std::string("hist ") + (!k.tof || obj->get_use_tofsens() ? "1" : "0") + " " + (recompute ? "1" : "0") + " " + std::to_string(n) + " "
                               + std::to_string(fill) + " " + std::to_string(fill);
              std::string ans, order;
              for (auto& req : kinds)
                {
                  const ReqResult r = serve(*obj, k, req, *lam_im, *x_im);
                  op += " " + req;
                  order += (order.empty() ? "" : ",") + req;
                  ans += std::string(ans.empty() ? "" : " ") + (r.ok ? "1" : "0");
                  auto it = reference.find(req);
                  if (it == reference.end())
                    reference[req] = r;
                  else if (!it->second.same(r))
                    {
                      if (!depends[req])
                        first_bad_order = order + " (indeterminate flag byte " + std::to_string(fill) + ")";
                      depends[req] = true;
                    }
                }
              o.line(op, ans);
              ++o.checks;
              ++hist["orders-histories"];
            }
        }
      while (std::next_permutation(kinds.begin(), kinds.end()));
      for (auto& kv : depends)
        if (kv.second)
          o.fail("order of first requests: the outcome of the first '" + kv.first + "' request after set_up depends on the order of requests / on the indeterminate value of "
                      "the member latest_setup_distributable_computation_was_with_orig_projectors (no initialiser): with set_up not computing the "
                      "sensitivities (recompute="
                          + std::to_string(recompute) + ") the request fails with 'internal error: setup_distributable_computation not called' in order "
                          + first_bad_order + " but succeeds in other orders; " + c.str());
    }
  // longer random histories (all six kinds of request), for the flag machine of the model
  // ORACLE ("the results do not depend on the order of first requests after set-up"): every request of every history must give,
  // bit for bit, what a freshly set-up object gives when that request is the first one it serves
  static const char* all6[] = { "value", "gradient", "gps", "sensitivity", "hessian", "ahessian" };
  std::map<std::string, ReqResult> fresh_first;
  for (const char* req : all6)
    {
      Holder obj(0);
      configure(*obj, k, n);
      if (!guarded([&] {
            if (obj->set_up(k.image) != Succeeded::yes)
              throw 1;
          }))
        continue;
      fresh_first[req] = serve(*obj, k, req, *lam_im, *x_im);
    }
  const int nh = thorough ? 40 : 10;
  for (int h = 0; h < nh; ++h)
    {
      const int fill = rng.range(0, 1);
      Holder obj(fill);
      configure(*obj, k, n);
      if (!guarded([&] {
            if (obj->set_up(k.image) != Succeeded::yes)
              throw 1;
          }))
        continue;
      static const char* all[] = { "value", "gradient", "gps", "sensitivity", "hessian", "ahessian" };
      std::string op = std::string("hist ") + (!k.tof || obj->get_use_tofsens() ? "1" : "0") + " 1 " + std::to_string(n) + " " + std::to_string(fill) + " " + std::to_string(fill);
      std::string ans;
      const int len = rng.range(3, 8);
      for (int i = 0; i < len; ++i)
        {
          const std::string req = all[rng.range(0, 5)];
          const ReqResult r = serve(*obj, k, req, *lam_im, *x_im);
          op += " " + req;
          ans += std::string(ans.empty() ? "" : " ") + (r.ok ? "1" : "0");
          auto it = fresh_first.find(req);
          if (it != fresh_first.end())
            {
              ++o.checks;
              if (!it->second.same(r))
                {
                  o.fail("order of requests: '" + req + "' as request number " + std::to_string(i + 1) + " of the history `" + op
                         + "` " + (r.ok ? "gives a different result than" : "fails, whereas it succeeds")
                         + " as the first request of a freshly set-up object; " + c.str());
                  break;
                }
            }
        }
      o.line(op, ans);
      ++hist["orders-histories"];
    }
}


// ------------------------------------------------------------------------------------------------
// sensitivities that set_up does not compute: read from the files an identical object wrote (total or per subset), or supplied by pointer;
// the loaded (subset) sensitivities go to the model and to the textbook oracle like the computed ones
static void
run_loaded(Out& o, Case& k, vh::Rng& rng, const std::string& prefix, std::map<std::string, long>& hist)
{
  const CaseCfg& c = k.c;
  const int nvox = k.ix->size();
  const int views = c.N / 2;
  shared_ptr<TargetT> lam_im(k.image->get_empty_copy()), x_im(k.image->get_empty_copy());
  from_vec(*lam_im, k.lam);
  from_vec(*x_im, k.x);
  const std::string tot = prefix + "_tot.hv", sub = prefix + "_sub%d.hv";
  auto cleanup = [&](int n) {
    std::remove(tot.c_str());
    std::remove((prefix + "_tot.v").c_str());
    std::remove((prefix + "_tot.ahv").c_str());
    for (int s = 0; s < n; ++s)
      {
        std::remove((prefix + "_sub" + std::to_string(s) + ".hv").c_str());
        std::remove((prefix + "_sub" + std::to_string(s) + ".v").c_str());
        std::remove((prefix + "_sub" + std::to_string(s) + ".ahv").c_str());
      }
  };
  auto set_up_ok = [&](Obj& obj) {
    return guarded([&] {
      if (obj.set_up(k.image) != Succeeded::yes)
        throw 1;
    });
  };
  for (int attempt = 0; attempt < 4; ++attempt)
    {
      const int n = rng.range(1, views);
      Holder W(0);
      configure(*W, k, n);
      if (c.use_subset_sens)
        W->set_subsensitivity_filenames(sub);
      else
        W->set_sensitivity_filename(tot);
      W->set_recompute_sensitivity(true); // (the default is to read the files when names are given)
      if (!set_up_ok(*W))
        {
          cleanup(n);
          continue;
        }
      const std::string ctx = c.str() + " n=" + std::to_string(n);
      Holder R(1);
      configure(*R, k, n);
      if (c.use_subset_sens)
        R->set_subsensitivity_filenames(sub);
      else
        R->set_sensitivity_filename(tot);
      R->set_recompute_sensitivity(false);
      ++o.checks;
      if (!set_up_ok(*R))
        {
          o.fail("set_up refuses to read the (subset) sensitivities from the files an identical object has just written " + ctx);
          cleanup(n);
          return;
        }
      ++hist["sensitivity-from-file"];
      const bool same_proj = !k.tof || W->get_use_tofsens();
      const int tofmax_eff = c.maxtof >= 0 ? c.maxtof : k.tofmax_data; // the requested TOF range
      const Geo& gs = same_proj ? k.g : k.gs;
      const int stofmax = same_proj ? tofmax_eff : 0;
      const DataSymmetriesForViewSegmentNumbers& sym = *k.pair->get_symmetries_used();
      shared_ptr<DataSymmetriesForViewSegmentNumbers> sens_sym_holder;
      if (!same_proj)
        {
          shared_ptr<ProjectorByBinPair> p2 = make_pair_with_symmetries(c.symflags);
          p2->set_up(k.gs.pdi, k.image);
          sens_sym_holder.reset(p2->get_symmetries_used()->clone());
        }
      const DataSymmetriesForViewSegmentNumbers& ssym = same_proj ? sym : *sens_sym_holder;
      std::vector<int> allvg;
      for (int s = 0; s < n; ++s)
        {
          const std::vector<int> v2 = subset_viewgrams(gs, ssym, k.maxseg_eff, stofmax, s, n);
          allvg.insert(allvg.end(), v2.begin(), v2.end());
        }
      const Textbook tt = textbook(Q_SENS, gs, bins_of(gs, allvg, c.zero), c.additive, k.lam, k.x, nvox);
      for (int s = 0; s < n; ++s)
        {
          const std::vector<int> svg = subset_viewgrams(gs, ssym, k.maxseg_eff, stofmax, s, n);
          std::vector<float> sensv, wv;
          const bool ok = guarded([&] {
            sensv = to_vec(R->get_subset_sensitivity(s));
            wv = to_vec(W->get_subset_sensitivity(s));
          });
          if (c.use_subset_sens)
            o.line((same_proj ? "sens" : "ssens") + ids_str(svg), ok ? hexvec(sensv) : "err");
          else
            o.line(std::string(same_proj ? "sensdiv " : "ssensdiv ") + std::to_string(n) + ids_str(allvg), ok ? hexvec(sensv) : "err");
          o.checks += 2;
          if (!ok)
            {
              o.fail("get_subset_sensitivity on the object that read its sensitivities from file: exception " + ctx);
              continue;
            }
          if (sensv != wv)
            o.fail("subset sensitivity " + std::to_string(s) + " read from file differs from the one that was written " + ctx);
          Textbook ts = c.use_subset_sens ? textbook(Q_SENS, gs, bins_of(gs, svg, c.zero), c.additive, k.lam, k.x, nvox) : tt;
          if (!c.use_subset_sens)
            for (int i = 0; i < nvox; ++i)
              ts.v[i] /= n, ts.m[i] /= n;
          const int bad = cmp_vec(sensv, ts.v, ts.m, ORACLE_REL);
          if (bad >= 0)
            o.fail("subset sensitivity read from file differs from P^T n" + std::string(c.use_subset_sens ? "" : " / num_subsets") + " at voxel "
                   + std::to_string(bad) + ": impl=" + vh::hex(sensv[bad]) + " textbook=" + vh::hex(ts.v[bad]) + " " + ctx + " subset=" + std::to_string(s));
        }
      {
        // the total the object derives from what it read, and requests served by an object that never computed a sensitivity
        o.checks += 3;
        std::vector<float> tr, tw;
        if (!guarded([&] {
              tr = to_vec(R->get_sensitivity());
              tw = to_vec(W->get_sensitivity());
            }))
          o.fail("get_sensitivity on the object that read its sensitivities from file: exception " + ctx);
        else
          {
            const int bad = cmp_vec(tr, tt.v, tt.m, 2 * ORACLE_REL);
            if (bad >= 0)
              o.fail("get_sensitivity() after reading from file != P^T n at voxel " + std::to_string(bad) + ": " + vh::hex(tr[bad]) + " vs "
                     + vh::hex(tt.v[bad]) + " " + ctx);
            if (tr != tw)
              o.fail("get_sensitivity() after reading from file differs from the object that computed it " + ctx);
          }
        for (const char* req : { "value", "gradient", "gps", "hessian", "ahessian" })
          {
            const ReqResult rf = serve(*W, k, req, *lam_im, *x_im);
            const ReqResult rr = serve(*R, k, req, *lam_im, *x_im);
            ++o.checks;
            if (!rf.same(rr))
              o.fail(std::string("request '") + req + "' on an object that read its sensitivities from file " + (rr.ok ? "gives a different result than" : "fails, whereas it succeeds")
                     + " on an object that computed them " + ctx);
          }
      }
      cleanup(n);
      // ---- subset sensitivities supplied by pointer (set_subset_sensitivity_sptr), no file names, recompute off: if set_up accepts that,
      // the supplied images must be what get_subset_sensitivity returns
      if (c.use_subset_sens)
        {
          Holder P(0);
          configure(*P, k, n);
          if (set_up_ok(*P))
            {
              std::vector<shared_ptr<TargetT>> given;
              for (int s = 0; s < n; ++s)
                {
                  given.push_back(shared_ptr<TargetT>(k.image->get_empty_copy()));
                  given.back()->fill(1.F + s);
                  P->set_subset_sensitivity_sptr(given.back(), s);
                }
              P->set_recompute_sensitivity(false);
              ++o.checks;
              if (set_up_ok(*P))
                {
                  ++hist["sensitivity-by-pointer-accepted"];
                  for (int s = 0; s < n; ++s)
                    if (to_vec(P->get_subset_sensitivity(s)) != to_vec(*given[s]))
                      {
                        o.fail("set_subset_sensitivity_sptr + recompute off accepted by set_up, but get_subset_sensitivity(" + std::to_string(s)
                               + ") is not the image supplied " + ctx);
                        break;
                      }
                }
              else
                ++hist["sensitivity-by-pointer-refused"];
            }
        }
      return;
    }
}

// ------------------------------------------------------------------------------------------------
// OBJECT RE-USE HISTORIES ("histories" of the quantifier): ONE objective function object is set_up several times.  After every
// set_up (the first one and 1..3 — thorough: up to 4 — later ones) something is changed through the public setters — nothing at all,
// the number of subsets, use_subset_sensitivities, zero_seg0_end_planes, max_segment_num_to_process, the TOF range, the measured data,
// the additive term, the normalisation object, the target image (another object of the same size / another size), or everything at
// once (the data, geometry, projector pair and image of ANOTHER generated configuration: other scanner, TOF <-> non-TOF, other TOF
// mashing) — either by calling all setters again or only the setter of what changed; then set_up again.  After EVERY set_up
//   * requests in Rng order (value, gradient, gradient+sensitivity, sensitivity, Hessian products) are compared bit for bit with the
//     same request served first by a FRESH object configured identically (projector pair of its own), and their ok/exception pattern
//     goes to the flag machine of the model (`hist` line);
//   * everything check_object asks (all subsets, all quantities, full-data functions, total sensitivity) goes to the model lines and
//     the textbook oracle (sensitivity = back projection of the efficiencies over the subset, sum of subset sensitivities = total, ...)
//     and is compared bit for bit with the answers of a fresh object configured identically;
//   * acceptance / refusal of set_up must be that of the fresh object.
// Sensitivity files: a set_up that recomputes with file names set writes them; the files are read back and compared with what the
// object holds (total file = get_sensitivity() = sum of the subset shares), a second object reading them must answer everything
// like the writer, and a later stage of the SAME object reads them (recompute sensitivity := 0, optionally with other measured data).
struct FileOpts
{
  std::string tot, sub;
  bool recompute = true;
  bool call_setter = true; // false: set_recompute_sensitivity is not called (the member keeps the value it has)
};

// For the `hsetup` line of the model: are the subsets balanced, and the sensitivity viewgrams of every subset — counted with a projector
// pair of its own, set up for the geometry and image of the configuration (independent of the objective function object).
struct SensSubsets
{
  bool ok = false, balanced = true;
  std::vector<std::vector<int>> ids;
};

static SensSubsets
sens_subsets(const Case& k, bool same_proj, int n)
{
  SensSubsets r;
  r.ok = guarded([&] {
    shared_ptr<ProjectorByBinPair> aux = make_pair_with_symmetries(k.c.symflags);
    aux->set_up(k.g.pdi, k.image);
    const DataSymmetriesForViewSegmentNumbers& sy = *aux->get_symmetries_used();
    std::vector<long> counts(n, 0);
    for (int seg = -k.maxseg_eff; seg <= k.maxseg_eff; ++seg)
      for (int view = k.g.pdi->get_min_view_num(); view <= k.g.pdi->get_max_view_num(); ++view)
        {
          ViewSegmentNumbers vs(view, seg);
          sy.find_basic_view_segment_numbers(vs);
          counts[(vs.view_num() - k.g.pdi->get_min_view_num()) % n]++;
        }
    for (int s = 0; s < n; ++s)
      r.balanced = r.balanced && counts[s] == counts[0];
    const int tofmax_req = k.c.maxtof >= 0 ? k.c.maxtof : k.tofmax_data;
    const Geo& gs = same_proj ? k.g : k.gs;
    shared_ptr<ProjectorByBinPair> p2;
    if (!same_proj)
      {
        p2 = make_pair_with_symmetries(k.c.symflags);
        p2->set_up(k.gs.pdi, k.image);
      }
    const DataSymmetriesForViewSegmentNumbers& ssym = same_proj ? sy : *p2->get_symmetries_used();
    for (int s = 0; s < n; ++s)
      r.ids.push_back(subset_viewgrams(gs, ssym, k.maxseg_eff, same_proj ? tofmax_req : 0, s, n));
  });
  return r;
}

static void
configure_all(Obj& obj, const Case& k, int n, const FileOpts& f)
{
  configure(obj, k, n);
  if (!k.c.additive)
    obj.set_additive_proj_data_sptr(shared_ptr<ProjData>());
  // (set_up replaces the default -1 = "all TOF bins" by the maximum of the data it is given: the setter is called again)
  if (k.c.maxtof < 0)
    obj.set_max_timing_pos_num_to_process(-1);
  if (!f.sub.empty())
    obj.set_subsensitivity_filenames(f.sub);
  obj.set_sensitivity_filename(f.tot);
  if (f.call_setter)
    obj.set_recompute_sensitivity(f.recompute);
}

static void
new_ydata(Case& k, vh::Rng& rng)
{
  std::vector<float> yv(k.g.bins.size());
  for (std::size_t i = 0; i < k.g.bins.size(); ++i)
    {
      BinRec& b = k.g.bins[i];
      if (rng.range(0, 3) != 0)
        {
          int cnt = poisson(rng, std::max(0.3, double(b.y) * (0.5 + rng.unit())));
          if (k.c.datamode == 1)
            cnt = std::max(cnt, 1);
          b.y = static_cast<float>(cnt);
        }
      yv[i] = b.y;
    }
  k.ydata = make_projdata(k.exam, k.g, yv);
}

static void
new_additive(Case& k, vh::Rng& rng, bool on)
{
  k.c.additive = on;
  std::vector<float> av(k.g.bins.size());
  for (std::size_t i = 0; i < k.g.bins.size(); ++i)
    {
      k.g.bins[i].a = on ? static_cast<float>(0.05 + 0.8 * rng.unit()) : 0.F;
      av[i] = k.g.bins[i].a;
    }
  if (on)
    k.adata = make_projdata(k.exam, k.g, av);
  else
    k.adata.reset();
}

static void
new_norm(Case& k, vh::Rng& rng, int kind)
{
  k.c.normkind = kind;
  for (auto& b : k.g.bins)
    b.fac.clear();
  for (auto& b : k.gs.bins)
    b.fac.clear();
  k.norm_links.clear();
  k.norm_tof = false;
  k.norm = make_norm(k, rng);
}

// another target image: other number of voxels across and/or other voxel size; false if the explicit rows are not the projector's rows
static bool
new_image(Case& k, vh::Rng& rng)
{
  CaseCfg& c = k.c;
  if (rng.range(0, 2) != 0)
    c.nxy = c.nxy == 5 ? 7 : 5;
  c.voxel_factor = static_cast<float>(0.75 + 0.5 * rng.unit());
  const float bin_size = k.g.pdi->get_sampling_in_s(Bin(0, 0, 0, 0));
  const float voxel = bin_size * c.ntang / c.nxy * c.voxel_factor;
  k.image = vh::make_image(*k.g.pdi, k.g.pdi->get_scanner_ptr()->get_default_bin_size() / voxel, c.nxy, 2 * c.R - 1);
  k.image->set_exam_info(*k.exam);
  k.ix = new ImgIdx(*k.image);
  fill_rows(k.g, k.image, *k.ix);
  double pmax = 0;
  if (row_discrepancy(k.g, k.image, *k.ix, c.symflags, &pmax) > 5.e-7 * pmax)
    return false;
  if (k.tof)
    fill_rows(k.gs, k.image, *k.ix);
  const int nvox = k.ix->size();
  k.lam.resize(nvox), k.x.resize(nvox);
  for (int i = 0; i < nvox; ++i)
    {
      k.lam[i] = static_cast<float>(0.25 + 2.5 * rng.unit());
      k.x[i] = static_cast<float>(0.1 + 1.5 * rng.unit());
      const int yidx = (i / k.ix->nx) % k.ix->ny + k.ix->y0;
      if (c.datamode == 2 && yidx >= 1)
        k.lam[i] = 0.F;
    }
  return true;
}

static int
pick_n(const Case& k, vh::Rng& rng, bool thorough)
{
  // (quick tier: at most 4 subsets in the histories; every number of subsets is run_case's business)
  const int views = thorough ? k.c.N / 2 : std::min(k.c.N / 2, 4);
  if (rng.range(0, 3) == 0)
    return rng.range(1, views);
  std::vector<int> d;
  for (int n = 1; n <= views; ++n)
    if ((k.c.N / 2) % n == 0)
      d.push_back(n);
  return d[rng.range(0, static_cast<int>(d.size()) - 1)];
}

typedef std::vector<std::pair<std::string, std::string>> Record;

static void
run_reuse(Out& o, const Case& base, const Case* other, vh::Rng& rng, int case_id, bool thorough, const std::string& prefix,
          std::map<std::string, long>& hist)
{
  const int nstages = 2 + rng.range(0, thorough ? 3 : 2);
  Holder H(rng.coin() ? 0 : 1);
  Case cur = base;
  int n = pick_n(cur, rng, thorough);
  FileOpts fo; // the file options the object has
  const std::string totname = prefix + "_rtot.hv", subname = prefix + "_rsub%d.hv";
  auto remove_files = [&](const std::string& stem) {
    for (const char* ext : { ".hv", ".v", ".ahv" })
      {
        std::remove((prefix + "_" + stem + "tot" + ext).c_str());
        for (int s = 0; s < 16; ++s)
          std::remove((prefix + "_" + stem + "sub" + std::to_string(s) + ext).c_str());
      }
  };
  bool prev_accepted = false, prev_wrote = false;
  // every run contains: write the total / the subset sensitivities at the first set_up, read them back at the second set_up of the same object
  const int script = thorough ? 0 : case_id % 6 == 0 ? 1 : case_id % 6 == 3 ? 2 : 0;
  if (script)
    cur.c.use_subset_sens = script == 2;
  std::map<std::string, long> dummy_hist;
  std::string story;
  o.line("hnew", "ok");

  for (int st = 0; st < nstages; ++st)
    {
      std::string what = "first";
      std::vector<std::function<void(Obj&)>> minimal;
      bool full = st == 0;
      bool recompute = true;
      bool same_target_clone = false;
      bool only_minimal = false;
      const int old_n = n;
      if (st > 0)
        {
          const bool read_back = prev_accepted && prev_wrote && (rng.range(0, 2) == 0 || (script && st == 1));
          int m = read_back ? 11 : rng.range(0, 11);
          if (!read_back && m == 11)
            m = 12;
          // every run contains the class of input named in known_findings.txt, in both directions (TOF -> non-TOF data: refused; non-TOF -> TOF: part of the data)
          if (st == 1 && (case_id == 1 || case_id == 2))
            m = 12;
          if (m == 12 && !other)
            m = 9;
          if (m == 10 && !cur.tof)
            m = 9;
          if (m == 5 && cur.c.datamode == 2)
            m = 4;
          if (m == 8 && !other)
            m = 9;
          switch (m)
            {
            case 0:
              what = "num_subsets";
              do
                n = pick_n(cur, rng, thorough);
              while (n == old_n && cur.c.N / 2 > 1);
              break;
            case 1:
              what = "use_subset_sensitivities";
              cur.c.use_subset_sens = !cur.c.use_subset_sens;
              minimal.push_back([&cur](Obj& ob) { ob.set_use_subset_sensitivities(cur.c.use_subset_sens); });
              break;
            case 2:
              what = "zero_seg0_end_planes";
              cur.c.zero = !cur.c.zero;
              minimal.push_back([&cur](Obj& ob) { ob.set_zero_seg0_end_planes(cur.c.zero); });
              break;
            case 3: {
              what = "max_segment_num_to_process";
              const int top = cur.g.pdi->get_max_segment_num();
              const int old = cur.c.maxseg;
              for (int t = 0; t < 8 && cur.c.maxseg == old; ++t)
                cur.c.maxseg = rng.range(-1, top);
              minimal.push_back([&cur](Obj& ob) { ob.set_max_segment_num_to_process(cur.c.maxseg); });
              break;
            }
            case 4:
              what = "proj_data";
              new_ydata(cur, rng);
              minimal.push_back([&cur](Obj& ob) { ob.set_proj_data_sptr(cur.ydata); });
              break;
            case 5:
              what = "additive";
              new_additive(cur, rng, cur.c.additive ? rng.coin() : true);
              minimal.push_back([&cur](Obj& ob) { ob.set_additive_proj_data_sptr(cur.adata); });
              break;
            case 6: {
              what = "normalisation";
              int kind = cur.c.normkind;
              while (kind == cur.c.normkind)
                kind = rng.range(0, cur.tof ? 7 : 4);
              new_norm(cur, rng, kind);
              minimal.push_back([&cur](Obj& ob) { ob.set_normalisation_sptr(cur.norm); });
              break;
            }
            case 7: {
              what = "target";
              Case trial = cur;
              if (new_image(trial, rng))
                cur = trial;
              else
                what = "same", same_target_clone = true;
              break;
            }
            case 8:
              what = "everything";
              cur = *other;
              n = pick_n(cur, rng, thorough);
              full = true;
              break;
            case 12: {
              // other data (other scanner / segments / TOF bins), projectors, additive term and normalisation through their setters;
              // the segment and TOF range setters are NOT called again: a range that was left at its default (-1 = all of the data)
              // must be all of the NEW data, a range the caller has set stays
              what = "data-and-projectors";
              Case nxt = *other;
              nxt.c.maxseg = cur.c.maxseg;
              nxt.c.maxtof = cur.c.maxtof;
              cur = nxt;
              n = pick_n(cur, rng, thorough);
              minimal.push_back([&cur](Obj& ob) {
                ob.set_proj_data_sptr(cur.ydata);
                ob.set_projector_pair_sptr(cur.pair);
                ob.set_additive_proj_data_sptr(cur.adata);
                ob.set_normalisation_sptr(cur.norm);
                ob.set_zero_seg0_end_planes(cur.c.zero);
                ob.set_use_subset_sensitivities(cur.c.use_subset_sens);
              });
              minimal.push_back([&n](Obj& ob) { ob.set_num_subsets(n); });
              only_minimal = true;
              break;
            }
            case 10: {
              what = "max_timing_pos_num_to_process";
              const int old = cur.c.maxtof;
              for (int t = 0; t < 8 && cur.c.maxtof == old; ++t)
                cur.c.maxtof = rng.range(-1, cur.tofmax_data);
              minimal.push_back([&cur](Obj& ob) { ob.set_max_timing_pos_num_to_process(cur.c.maxtof); });
              break;
            }
            case 11:
              what = "read-back";
              recompute = false;
              if (rng.coin())
                {
                  what = "read-back+proj_data";
                  new_ydata(cur, rng);
                  minimal.push_back([&cur](Obj& ob) { ob.set_proj_data_sptr(cur.ydata); });
                }
              break;
            default:
              what = "same";
              same_target_clone = rng.coin();
              break;
            }
          // besides, sometimes another number of subsets
          if (m != 0 && m != 8 && m != 11 && m != 12 && rng.range(0, 2) == 0)
            n = pick_n(cur, rng, thorough);
        }
      if (n != old_n)
        minimal.push_back([&n](Obj& ob) { ob.set_num_subsets(n); });
      // file options of this stage
      FileOpts want = fo;
      want.recompute = recompute;
      want.call_setter = true;
      if (recompute && (st == 0 ? (rng.coin() || script) : rng.range(0, 2) == 0))
        {
          if (cur.c.use_subset_sens)
            want.sub = subname;
          else
            want.tot = want.tot.empty() ? totname : std::string();
        }
      if (!full && !only_minimal && rng.coin())
        full = true;
      // a new object whose recompute_sensitivity is never set: without file names set_up decides to compute (and leaves the member on)
      if (st == 0 && want.tot.empty() && want.sub.empty() && rng.coin())
        want.call_setter = false;
      if (st > 0 && !full)
        want.call_setter = H->get_recompute_sensitivity() != want.recompute;
      if (full)
        {
          if (st > 0 && what != "read-back" && what != "read-back+proj_data")
            cur.c.use_tofsens = cur.tof && rng.coin();
          configure_all(*H, cur, n, want);
        }
      else
        {
          for (auto& f : minimal)
            f(*H);
          if (want.sub != fo.sub)
            H->set_subsensitivity_filenames(want.sub);
          if (want.tot != fo.tot)
            H->set_sensitivity_filename(want.tot);
          if (want.call_setter)
            H->set_recompute_sensitivity(want.recompute);
        }
      fo = want;
      // the TOF sensitivity switch has no public setter and is left on by an earlier set_up that switched it on
      cur.c.use_tofsens = H->get_use_tofsens();
      cur.same_proj = !cur.tof || cur.c.use_tofsens || cur.norm_tof;
      cur.maxseg_eff = cur.c.maxseg < 0 ? cur.g.pdi->get_max_segment_num() : cur.c.maxseg;
      const bool writes = recompute && (cur.c.use_subset_sens ? !fo.sub.empty() : !fo.tot.empty());
      story += (st ? " -> " : "") + what + (full ? "(all setters)" : "(one setter)") + " n=" + std::to_string(n)
               + (recompute ? "" : " recompute=0") + (writes ? " writes-files" : "");
      const std::string ctx = "history `" + story + "` set_up number " + std::to_string(st + 1) + "; " + cur.c.str();

      // ---- context lines of the stage
      {
        char buf[640];
        std::snprintf(buf, sizeof buf, "cfg %d nvox=%d zero=%d sameproj=%d %s reuse=%d change=%s setters=%s n=%d recompute=%d", case_id * 10 + st + 1000,
                      cur.ix->size(), cur.c.zero ? 1 : 0, cur.same_proj ? 1 : 0, cur.c.str().c_str(), st, what.c_str(), full ? "all" : "one", n,
                      recompute ? 1 : 0);
        o.line(buf, "ok");
        o.line("img " + hexvec(cur.lam), "ok");
        o.line("inp " + hexvec(cur.x), "ok");
        emit_geometry(o, cur, "bin", cur.g, true);
        if (cur.tof)
          emit_geometry(o, cur, "sbin", cur.gs, false);
      }
      shared_ptr<TargetT> lam_im(cur.image->get_empty_copy()), x_im(cur.image->get_empty_copy());
      from_vec(*lam_im, cur.lam);
      from_vec(*x_im, cur.x);

      // ---- set_up of the re-used object, and of a fresh object configured identically (projector pair of its own)
      shared_ptr<TargetT> target = same_target_clone ? shared_ptr<TargetT>(cur.image->clone()) : cur.image;
      const bool accH = guarded([&] {
        if (H->set_up(target) != Succeeded::yes)
          throw 1;
      });
      Case twin = cur;
      twin.pair = make_pair_with_symmetries(cur.c.symflags);
      FileOpts fF = fo;
      if (st > 0)
        fF.call_setter = true;
      if (recompute)
        {
          if (!fF.tot.empty())
            fF.tot = prefix + "_ftot.hv";
          if (!fF.sub.empty())
            fF.sub = prefix + "_fsub%d.hv";
        }
      Holder F(rng.coin() ? 0 : 1);
      configure_all(*F, twin, n, fF);
      F->set_use_tofsens(cur.c.use_tofsens);
      const bool accF = guarded([&] {
        if (F->set_up(cur.image) != Succeeded::yes)
          throw 1;
      });
      ++o.checks;
      ++hist[st == 0 ? "reuse-first-setup" : "reuse-resetup-" + what];
      if (only_minimal && accF
          && (!accH || H->get_max_segment_num_to_process() != F->get_max_segment_num_to_process()
              || H->get_max_timing_pos_num_to_process() != F->get_max_timing_pos_num_to_process()))
        {
          // the segment / TOF range the caller never set is still that of the data of the earlier set_up
          o.candidate("reuse:default-segment-or-TOF-range-of-the-first-data-kept-when-set_up-again-with-other-data",
                      std::string("object set up with data A (max_segment_num_to_process / max_timing_pos_num_to_process never set: -1 = all of the data), then "
                                  "set_proj_data_sptr(B) (+ projector pair, additive term, normalisation of B) and set_up again: ")
                          + (accH ? "segment range " + std::to_string(H->get_max_segment_num_to_process()) + " / TOF range "
                                        + std::to_string(H->get_max_timing_pos_num_to_process()) + " instead of "
                                        + std::to_string(F->get_max_segment_num_to_process()) + " / " + std::to_string(F->get_max_timing_pos_num_to_process())
                                        + " (all of B, what a new object uses): value, gradient, sensitivity and Hessian products are those of part of the data"
                                  : std::string("set_up fails ('max_segment_num_to_process / max_timing_pos_num_to_process is too large') although the caller never set a range"))
                          + "; " + ctx);
          ++hist["reuse-default-range-kept"];
          prev_accepted = false, prev_wrote = false;
          // the range setters are called now (what a caller who knows has to do), the history goes on with the next set_up
          H->set_max_segment_num_to_process(cur.c.maxseg);
          H->set_max_timing_pos_num_to_process(cur.c.maxtof);
          continue;
        }
      {
        // the model object goes through the same set_up (`setUpSens` on the state the earlier set_ups left)
        const SensSubsets ss = sens_subsets(cur, accH ? (!cur.tof || H->get_use_tofsens()) : cur.same_proj, n);
        if (ss.ok)
          {
            std::string op = std::string("hsetup ") + (cur.c.use_subset_sens ? "1 " : "0 ") + std::to_string(n) + " "
                             + (fo.call_setter ? (recompute ? "1" : "0") : "-") + " " + (fo.tot.empty() ? "0" : "1") + " " + (fo.sub.empty() ? "0" : "1") + " "
                             + (ss.balanced ? "1" : "0") + " " + (accH && cur.tof && !H->get_use_tofsens() ? "1" : "0") + " " + std::to_string(cur.c.maxseg) + " "
                             + std::to_string(cur.g.pdi->get_max_segment_num()) + " " + std::to_string(cur.c.maxtof) + " " + std::to_string(cur.tofmax_data);
            for (int s = 0; s < n; ++s)
              op += std::string(s ? " /" : "") + ids_str(ss.ids[s]);
            o.line(op, std::string(accH ? "ok " : "refused ") + (H->get_recompute_sensitivity() ? "1" : "0"));
          }
      }
      if (accH != accF)
        o.fail(std::string("set_up of a re-used object ") + (accH ? "succeeds" : "fails") + " whereas set_up of a fresh object configured identically "
               + (accF ? "succeeds" : "fails") + ": " + ctx);
      if (!accH || !accF)
        {
          ++hist["reuse-setup-refused"];
          prev_accepted = false, prev_wrote = false;
          continue;
        }
      ++hist["reuse-setup-ok"];
      if (st >= 2)
        ++hist["reuse-setup-ok-third-or-later"];

      // ---- requests in Rng order on the re-used object
      std::vector<std::string> kinds = { "value", "gradient", "gps", "hessian", "ahessian" };
      if (recompute)
        kinds.push_back("sensitivity"); // (add_subset_sensitivity needs the objects only created when the sensitivities are computed)
      std::vector<std::string> reqs;
      {
        const int len = rng.range(3, 6);
        for (int i = 0; i < len; ++i)
          reqs.push_back(kinds[rng.range(0, static_cast<int>(kinds.size()) - 1)]);
      }
      std::vector<ReqResult> resH;
      {
        std::string op = std::string("hist ") + (!cur.tof || H->get_use_tofsens() ? "1" : "0") + " " + (recompute ? "1" : "0") + " " + std::to_string(n) + " 0 0";
        std::string ans;
        for (auto& req : reqs)
          {
            resH.push_back(serve(*H, cur, req, *lam_im, *x_im));
            op += " " + req;
            ans += std::string(ans.empty() ? "" : " ") + (resH.back().ok ? "1" : "0");
          }
        o.line(op, ans);
      }
      // ---- everything, to the model and the textbook oracle
      const float c0 = rng.coin() ? 0.F : static_cast<float>(rng.range(1, 8)) * 0.25F;
      Record recH, recF;
      o.rec = &recH;
      o.where = " [in " + ctx.substr(0, ctx.find(';')) + "]";
      check_object(o, cur, H.p, n, c0, recompute, hist);
      o.where.clear();
      o.rec = nullptr;
      // what the object holds now, against the state of the model object
      for (int s = 0; s < n; ++s)
        o.line("hsub " + std::to_string(s), hexvec(to_vec(H->get_subset_sensitivity(s))));
      o.line("htot", hexvec(to_vec(H->get_sensitivity())));

      // ---- the same on fresh objects, silently
      auto compare_records = [&](const Record& a, const Record& b, const std::string& who) {
        ++o.checks;
        if (a.size() != b.size())
          {
            o.fail("re-used object and " + who + " give a different number of answers: " + ctx);
            return;
          }
        for (std::size_t i = 0; i < a.size(); ++i)
          if (a[i].second != b[i].second)
            {
              o.fail("re-used object: the answer to `" + a[i].first.substr(0, 40) + "` (answer number " + std::to_string(i) + " after the set_up) differs from that of "
                     + who + ": " + a[i].second.substr(0, 60) + " vs " + b[i].second.substr(0, 60) + "; " + ctx);
              return;
            }
      };
      {
        const long checks_before = o.checks;
        o.mute = true;
        o.rec = &recF;
        check_object(o, twin, F.p, n, c0, recompute, dummy_hist);
        o.rec = nullptr;
        o.mute = false;
        o.checks = checks_before;
        compare_records(recH, recF, "a fresh object configured identically");
      }
      for (std::size_t i = 0; i < reqs.size(); ++i)
        {
          // the request served FIRST by a fresh object
          bool seen = false;
          for (std::size_t j = 0; j < i; ++j)
            seen = seen || reqs[j] == reqs[i];
          if (seen && !thorough)
            continue;
          Case tw = cur;
          tw.pair = make_pair_with_symmetries(cur.c.symflags);
          FileOpts f1 = fo;
          if (recompute)
            f1.tot.clear(), f1.sub.clear();
          Holder T(rng.coin() ? 0 : 1);
          configure_all(*T, tw, n, f1);
          T->set_use_tofsens(cur.c.use_tofsens);
          if (!guarded([&] {
                if (T->set_up(cur.image) != Succeeded::yes)
                  throw 1;
              }))
            continue;
          const ReqResult rf = serve(*T, tw, reqs[i], *lam_im, *x_im);
          ++o.checks;
          if (!rf.same(resH[i]))
            o.fail("re-used object: request '" + reqs[i] + "' (number " + std::to_string(i + 1) + " after the set_up) "
                   + (resH[i].ok ? "gives a different result than" : "fails, whereas it succeeds") + " as the first request of a fresh object configured identically; "
                   + ctx);
        }

      // ---- the files the set_up wrote
      if (writes)
        {
          ++hist["reuse-files-written"];
          const int nvox = cur.ix->size();
          ++o.checks;
          const bool read_ok = guarded([&] {
            if (cur.c.use_subset_sens)
              {
                for (int s = 0; s < n; ++s)
                  {
                    shared_ptr<TargetT> f(read_from_file<TargetT>(prefix + "_rsub" + std::to_string(s) + ".hv"));
                    if (to_vec(*f) != to_vec(H->get_subset_sensitivity(s)))
                      o.fail("subset sensitivity file " + std::to_string(s) + " differs from get_subset_sensitivity: " + ctx);
                  }
              }
            else
              {
                shared_ptr<TargetT> f(read_from_file<TargetT>(totname));
                const std::vector<float> fv = to_vec(*f);
                if (fv != to_vec(H->get_sensitivity()))
                  o.fail("sensitivity file differs from get_sensitivity(): " + ctx);
                // the total is the sum over the subsets
                std::vector<double> sum(nvox, 0.), mag(nvox, 0.);
                for (int s = 0; s < n; ++s)
                  {
                    const std::vector<float> sv = to_vec(H->get_subset_sensitivity(s));
                    for (int i = 0; i < nvox; ++i)
                      sum[i] += sv[i], mag[i] += std::fabs(sv[i]);
                  }
                const int bad = cmp_vec(fv, sum, mag, 1e-6 * (n + 1));
                if (bad >= 0)
                  o.fail("sensitivity file is not the sum of the subset sensitivities at voxel " + std::to_string(bad) + ": " + vh::hex(fv[bad]) + " vs "
                         + vh::hex(sum[bad]) + "; " + ctx);
              }
          });
          if (!read_ok)
            o.fail("the sensitivity file(s) a later set_up of a re-used object should have written cannot be read: " + ctx);
          // a second object that reads them answers everything like the writer
          Case tw = cur;
          tw.pair = make_pair_with_symmetries(cur.c.symflags);
          FileOpts fr = fo;
          fr.recompute = false;
          Holder R(rng.coin() ? 0 : 1);
          configure_all(*R, tw, n, fr);
          R->set_use_tofsens(H->get_use_tofsens());
          ++o.checks;
          if (!guarded([&] {
                if (R->set_up(cur.image) != Succeeded::yes)
                  throw 1;
              }))
            o.fail("set_up refuses to read the sensitivity file(s) a later set_up of a re-used object has written: " + ctx);
          else
            {
              Record recR;
              const long checks_before = o.checks;
              o.mute = true;
              o.rec = &recR;
              check_object(o, tw, R.p, n, c0, false, dummy_hist);
              o.rec = nullptr;
              o.mute = false;
              o.checks = checks_before;
              compare_records(recH, recR, "a second object that read the sensitivity file(s) written by this set_up");
            }
        }
      if (!recompute)
        ++hist["reuse-files-read-by-same-object"];
      prev_accepted = true;
      prev_wrote = writes || (!recompute && prev_wrote);
      // (no public setter: a user's object keeps the TOF sensitivity switch as this set_up left it)
      cur.c.use_tofsens = H->get_use_tofsens();
      remove_files("f");
    }
  remove_files("r");
  remove_files("f");
}

// ------------------------------------------------------------------------------------------------
// SETTERS CALLED AFTER set_up() WITHOUT A NEW set_up() ("histories" of the quantifier).  One object is configured and set up; then one
// or two public setters are called — with a NEW value or with the SAME value the object already has — and every kind of request is made
// WITHOUT calling set_up again; finally set_up is called and the requests are made again.
//   * model lines: every setter call goes to the model object (`sset`: flag already_set_up and the members observable through the
//     getters after the call), every set_up (`ssetup`: accepted / refused, flag, members) and every request (`sreq`: answered / refused);
//   * oracle: a request that is answered must give, bit for bit, what a FRESH object configured with the values the object now claims
//     (own projector pair, own prior) and set up gives; when gradient and gradient-plus-sensitivity are both answered their difference must
//     be the subset sensitivity the object hands out.  Requests that test already_set_up (also after parse()): plain ORACLE-FAIL.  The four
//     public members that do not test it (get_subset_sensitivity / get_sensitivity, add_subset_sensitivity,
//     actual_compute_subset_gradient_without_penalty) are outside the property's quantifier between a setter and the next set_up: a stale
//     answer of theirs is only counted (`unguarded_answered_stale`).
struct SetterLog
{
  Out& o;
  Obj& obj;
  std::map<const void*, int> ptr_ids;
  std::map<std::string, int> str_ids;
  int next_id = 2; // 1: the objects set_defaults creates
  SetterLog(Out& o_, Obj& obj_)
      : o(o_),
        obj(obj_)
  {}
  int id(const void* p)
  {
    if (!p)
      return 0;
    auto it = ptr_ids.find(p);
    if (it == ptr_ids.end())
      it = ptr_ids.insert(std::make_pair(p, next_id++)).first;
    return it->second;
  }
  int id(const std::string& s)
  {
    if (s.empty())
      return 0;
    auto it = str_ids.find(s);
    if (it == str_ids.end())
      it = str_ids.insert(std::make_pair(s, next_id++)).first;
    return it->second;
  }
  std::string members(bool with_flag = true) const
  {
    return std::string(with_flag ? (obj.flag() ? "1" : "0") : "-") + " n=" + std::to_string(obj.get_num_subsets()) + " seg="
           + std::to_string(obj.get_max_segment_num_to_process()) + " tof=" + std::to_string(obj.get_max_timing_pos_num_to_process()) + " zero="
           + (obj.get_zero_seg0_end_planes() ? "1" : "0") + " subsens=" + (obj.get_use_subset_sensitivities() ? "1" : "0") + " rec="
           + (obj.get_recompute_sensitivity() ? "1" : "0") + " frame=" + std::to_string(obj.get_time_frame_num());
  }
  template <class F>
  void call(const std::string& op, F f, bool with_flag = true)
  {
    const bool ok = guarded(f);
    o.line("sset " + op, std::string(ok ? "" : "err ") + members(with_flag));
    ++o.checks;
  }
  void num_subsets(int n) { call("num_subsets " + std::to_string(n), [&] { obj.set_num_subsets(n); }); }
  void proj_data(const shared_ptr<ProjData>& p) { call("proj_data " + std::to_string(id(p.get())), [&] { obj.set_proj_data_sptr(p); }); }
  void input_data(const shared_ptr<ProjData>& p) { call("input_data " + std::to_string(id(p.get())), [&] { obj.set_input_data(p); }); }
  void additive(const shared_ptr<ProjData>& p) { call("additive " + std::to_string(id(p.get())), [&] { obj.set_additive_proj_data_sptr(p); }); }
  void normalisation(const shared_ptr<BinNormalisation>& p)
  {
    call("normalisation " + std::to_string(id(p.get())), [&] { obj.set_normalisation_sptr(p); });
  }
  void projector_pair(const shared_ptr<ProjectorByBinPair>& p)
  {
    call("projector_pair " + std::to_string(id(p.get())), [&] { obj.set_projector_pair_sptr(p); });
  }
  void max_segment(int m) { call("max_segment " + std::to_string(m), [&] { obj.set_max_segment_num_to_process(m); }); }
  void max_tof(int m) { call("max_tof " + std::to_string(m), [&] { obj.set_max_timing_pos_num_to_process(m); }); }
  void zero(bool b) { call(std::string("zero ") + (b ? "1" : "0"), [&] { obj.set_zero_seg0_end_planes(b); }); }
  void use_subset_sens(bool b) { call(std::string("use_subset_sens ") + (b ? "1" : "0"), [&] { obj.set_use_subset_sensitivities(b); }); }
  void recompute(bool b) { call(std::string("recompute ") + (b ? "1" : "0"), [&] { obj.set_recompute_sensitivity(b); }); }
  void sens_filename(const std::string& s) { call("sens_filename " + std::to_string(id(s)), [&] { obj.set_sensitivity_filename(s); }); }
  // bad: boost::format cannot use the pattern with one argument — a pattern with two place holders, and also the EMPTY string (the
  // default value of the member): the setter resets the flag, stores the string and then throws
  void subsens_filenames(const std::string& s, bool bad = false)
  {
    bad = bad || s.empty();
    call("subsens_filenames " + std::to_string(id(s)) + (bad ? " bad" : ""), [&] { obj.set_subsensitivity_filenames(s); });
  }
  void subset_sens_sptr(int subset, const shared_ptr<TargetT>& p)
  {
    call("subset_sens_sptr " + std::to_string(subset) + " " + std::to_string(id(p.get())), [&] { obj.set_subset_sensitivity_sptr(p, subset); });
  }
  void frame_num(int k) { call("frame_num " + std::to_string(k), [&] { obj.set_frame_num(k); }); }
  // (`frame_defs == arg` compares values: the identity is that of the value)
  void frame_defs(const TimeFrameDefinitions& d, int value_id)
  {
    call("frame_defs " + std::to_string(value_id), [&] { obj.set_frame_definitions(d); });
  }
  void prior(const shared_ptr<GeneralisedPrior<TargetT>>& p, bool ready)
  {
    call("prior " + std::to_string(id(p.get())) + (ready ? " 1" : " 0"), [&] { obj.set_prior_sptr(p); });
  }
  // parse() of a parameter text with the two keys (since fix C05-3 it resets the flag like the setters)
  void parse(bool z, int maxseg)
  {
    call(
        "parse " + std::string(z ? "1 " : "0 ") + std::to_string(maxseg),
        [&] {
          std::istringstream in("PoissonLogLikelihoodWithLinearModelForMeanAndProjData Parameters:=\nzero end planes of segment 0 := "
                                + std::string(z ? "1" : "0") + "\nmaximum absolute segment number to process := " + std::to_string(maxseg)
                                + "\nEnd PoissonLogLikelihoodWithLinearModelForMeanAndProjData Parameters:=\n");
          if (!obj.parse(in))
            throw 1;
        });
  }
};

// the calls of configure(), each of them also made on the model object
static void
configure_logged(SetterLog& L, const Case& k, int n)
{
  L.proj_data(k.ydata);
  L.projector_pair(k.pair);
  if (k.c.additive)
    L.additive(k.adata);
  L.normalisation(k.norm);
  L.zero(k.c.zero);
  L.max_segment(k.c.maxseg);
  if (k.c.maxtof >= 0)
    L.max_tof(k.c.maxtof);
  L.use_subset_sens(k.c.use_subset_sens);
  L.obj.set_use_tofsens(k.c.use_tofsens);
  L.num_subsets(n);
}

// are the subsets balanced (independent count: every (segment, view) of the segment range belongs to the subset given by the view number
// of its basic (segment, view)); a projector pair of its own
static bool
balanced_independent(const Case& k, int maxseg_eff, int n)
{
  bool balanced = true;
  guarded([&] {
    shared_ptr<ProjectorByBinPair> aux = make_pair_with_symmetries(k.c.symflags);
    aux->set_up(k.g.pdi, k.image);
    const DataSymmetriesForViewSegmentNumbers& sy = *aux->get_symmetries_used();
    std::vector<long> counts(std::max(n, 1), 0);
    for (int seg = -maxseg_eff; seg <= maxseg_eff; ++seg)
      for (int view = k.g.pdi->get_min_view_num(); view <= k.g.pdi->get_max_view_num(); ++view)
        {
          ViewSegmentNumbers vs(view, seg);
          sy.find_basic_view_segment_numbers(vs);
          counts[(vs.view_num() - k.g.pdi->get_min_view_num()) % std::max(n, 1)]++;
        }
    for (auto c : counts)
      balanced = balanced && c == counts[0];
  });
  return balanced;
}

static ReqResult
serve_any(Obj& obj, const Case& k, const std::string& req, TargetT& lam_im, TargetT& x_im)
{
  ReqResult r;
  shared_ptr<TargetT> out(k.image->get_empty_copy());
  r.ok = guarded([&] {
    if (req == "value_wo")
      r.value = obj.compute_objective_function_without_penalty(lam_im, 0);
    else if (req == "gradient_wo")
      obj.compute_sub_gradient_without_penalty(*out, lam_im, 0);
    else if (req == "hessian_wo")
      {
        if (obj.accumulate_sub_Hessian_times_input_without_penalty(*out, lam_im, x_im, 0) != Succeeded::yes)
          throw 1;
      }
    else if (req == "ahessian_wo")
      {
        if (obj.add_multiplication_with_approximate_sub_Hessian_without_penalty(*out, x_im, 0) != Succeeded::yes)
          throw 1;
      }
    else if (req == "agrad")
      obj.actual_compute_subset_gradient_without_penalty(*out, lam_im, 0, false);
    else if (req == "cached")
      *out = obj.get_subset_sensitivity(0);
    else if (req == "total")
      *out = obj.get_sensitivity();
    else
      {
        const ReqResult r2 = serve(obj, k, req, lam_im, x_im);
        if (!r2.ok)
          throw 1;
        r.value = r2.value;
        *out = *k.image->get_empty_copy();
        from_vec(*out, r2.v);
      }
  });
  if (r.ok)
    r.v = to_vec(*out);
  return r;
}

// a prior whose "set up" flag is initialised (the constructor QuadraticPrior(only_2D, factor) leaves GeneralisedPrior::_already_set_up without a
// value: whether such a prior refuses requests before its set_up is indeterminate)
static shared_ptr<GeneralisedPrior<TargetT>>
make_prior(float beta)
{
  shared_ptr<QuadraticPrior<float>> p(new QuadraticPrior<float>());
  p->set_penalisation_factor(beta);
  return p;
}

static bool
is_unguarded(const std::string& req)
{
  return req == "sensitivity" || req == "agrad" || req == "cached" || req == "total";
}

static void
run_setters(Out& o, const Case& base, vh::Rng& rng, int case_id, int hist_id, bool thorough, const std::string& prefix,
            std::map<std::string, long>& hist)
{
  Case cur = base;
  const int views = cur.c.N / 2;
  // a number of subsets set_up accepts
  int n = pick_n(cur, rng, thorough);
  if (!cur.c.use_subset_sens && !balanced_independent(cur, cur.maxseg_eff, n))
    n = 1;
  Holder H(rng.coin() ? 0 : 1);
  SetterLog L(o, *H);
  char buf[640];
  std::snprintf(buf, sizeof buf, "cfg %d nvox=%d zero=%d sameproj=%d %s setters=%d n=%d", case_id * 100 + hist_id + 5000, cur.ix->size(), cur.c.zero ? 1 : 0,
                cur.same_proj ? 1 : 0, cur.c.str().c_str(), hist_id, n);
  o.line(buf, "ok");
  o.line("snew", "ok");
  shared_ptr<TargetT> lam_im(cur.image->get_empty_copy()), x_im(cur.image->get_empty_copy());
  from_vec(*lam_im, cur.lam);
  from_vec(*x_im, cur.x);

  // ---- what the object is told (`want`: the configuration it claims to have), beyond the fields of Case
  int want_n = n;
  int want_frame_num = 1;
  int frame_defs_id = 1;
  std::vector<std::pair<double, double>> one_frame(1, std::make_pair(0., 1.));
  TimeFrameDefinitions want_frame_defs(one_frame);
  float prior_beta = 0.F; // 0: no prior
  shared_ptr<GeneralisedPrior<TargetT>> prior;
  bool prior_ready = false;
  bool sens_replaced = false;
  bool sub0null = true;
  bool unsafe_unguarded = false;  // a member value with which the functions that do not test the flag must not be called
  bool lowlevel_unknown = false;  // a new normalisation / projector object that nobody has set up: its own checks decide about unguarded requests
  bool parsed = false;
  std::string tot_name, sub_name;
  std::string story;

  if (rng.range(0, 3) == 0)
    {
      prior_beta = static_cast<float>(0.05 + rng.unit());
      prior = make_prior(prior_beta);
      L.prior(prior, false);
    }
  configure_logged(L, cur, n);

  auto do_set_up = [&](const char* when) -> bool {
    const int segmax = cur.g.pdi->get_max_segment_num();
    const int seg_setting = H->get_max_segment_num_to_process();
    const bool files_ok = false; // no sensitivity file exists when a set_up of these histories may want to read one
    // the balance for the range set_up will use (the member, or all segments for -1 / a value an earlier set_up derived from -1)
    const int maxseg_eff = std::min(cur.c.maxseg < 0 ? segmax : cur.c.maxseg, segmax);
    const bool bal = balanced_independent(cur, maxseg_eff, H->get_num_subsets());
    (void)seg_setting;
    const bool acc = guarded([&] {
      if (H->set_up(cur.image) != Succeeded::yes)
        throw 1;
    });
    o.line("ssetup " + std::to_string(segmax) + " " + std::to_string(cur.tofmax_data) + " " + (bal ? "1" : "0") + " " + (sub0null ? "1" : "0") + " "
               + (files_ok ? "1" : "0") + " " + std::to_string(H->get_time_frame_definitions().get_num_frames()),
           std::string(acc ? "ok " : "refused ") + L.members());
    ++o.checks;
    ++hist[std::string("setters-set_up-") + when + (acc ? "-ok" : "-refused")];
    if (acc)
      {
        sub0null = false;
        sens_replaced = false;
        lowlevel_unknown = false;
        if (prior)
          prior_ready = true;
      }
    return acc;
  };

  if (!do_set_up("first"))
    return;
  cur.c.use_tofsens = H->get_use_tofsens();

  // ---- the setter calls
  struct Choice
  {
    int setter, variant;
  };
  static const int NSET = 19;
  std::vector<Choice> choices;
  {
    // the first history of every configuration: another number of subsets (the class of the round-3 seed)
    Choice c0;
    // (the other histories go through the setters in turn: every setter 4-5 times per run of the quick tier as the first one)
    c0.setter = hist_id == 0 && views > 1 ? 0 : (case_id * (thorough ? 11 : 5) + std::max(hist_id - 1, 0)) % NSET;
    c0.variant = hist_id == 0 ? 0 : rng.range(0, 3);
    choices.push_back(c0);
    if (rng.range(0, 2) == 0)
      {
        Choice c1;
        c1.setter = rng.range(0, NSET - 1);
        c1.variant = rng.range(0, 3);
        if (c1.setter != 18 && c0.setter != 18) // (parse histories stay on their own)
          choices.push_back(c1);
      }
  }
  bool bad_pattern = false;
  for (auto& ch : choices)
    {
      const int v = ch.variant;
      switch (ch.setter)
        {
        case 0: {
          int n2 = want_n;
          if (v == 0 || v == 1)
            {
              for (int t = 0; t < 8 && n2 == want_n; ++t)
                n2 = rng.range(1, views);
              story += n2 == want_n ? " num_subsets(same)" : " num_subsets(new)";
            }
          else if (v == 2)
            story += " num_subsets(same)";
          else
            {
              n2 = rng.range(-2, 0); // clamped to 1 by the setter
              story += " num_subsets(not positive)";
            }
          L.num_subsets(n2);
          want_n = std::max(n2, 1);
          break;
        }
        case 1:
        case 2: {
          if (v != 0)
            new_ydata(cur, rng);
          story += std::string(ch.setter == 1 ? " proj_data" : " input_data") + (v != 0 ? "(new)" : "(same)");
          if (ch.setter == 1)
            L.proj_data(cur.ydata);
          else
            L.input_data(cur.ydata);
          break;
        }
        case 3:
          if (v == 0)
            story += " additive(same)";
          else if (cur.c.datamode == 2)
            story += " additive(same)";
          else
            {
              new_additive(cur, rng, cur.c.additive ? v != 1 : true);
              story += cur.c.additive ? " additive(new)" : " additive(null)";
            }
          L.additive(cur.adata);
          break;
        case 4:
          if (v == 0)
            story += " normalisation(same)";
          else
            {
              int kind = cur.c.normkind;
              while (kind == cur.c.normkind)
                kind = rng.range(0, cur.tof ? 7 : 4);
              new_norm(cur, rng, kind);
              lowlevel_unknown = true;
              story += " normalisation(new)";
            }
          L.normalisation(cur.norm);
          break;
        case 5:
          if (v == 0)
            story += " projector_pair(same)";
          else
            {
              cur.pair = make_pair_with_symmetries(cur.c.symflags);
              lowlevel_unknown = true;
              story += " projector_pair(new)";
            }
          L.projector_pair(cur.pair);
          break;
        case 6: {
          const int top = cur.g.pdi->get_max_segment_num();
          int m = H->get_max_segment_num_to_process();
          if (v == 0)
            {
              const int old = m;
              for (int t = 0; t < 8 && m == old; ++t)
                m = rng.range(0, top);
              story += m == old ? " max_segment(same)" : " max_segment(new)";
            }
          else if (v == 1)
            story += " max_segment(same)";
          else if (v == 2)
            m = -1, story += " max_segment(-1)";
          else
            m = top + 1, unsafe_unguarded = true, story += " max_segment(too large)";
          L.max_segment(m);
          cur.c.maxseg = m;
          break;
        }
        case 7: {
          int m = H->get_max_timing_pos_num_to_process();
          if (v == 0 && cur.tofmax_data > 0)
            {
              const int old = m;
              for (int t = 0; t < 8 && m == old; ++t)
                m = rng.range(0, cur.tofmax_data);
              story += m == old ? " max_tof(same)" : " max_tof(new)";
            }
          else if (v <= 1)
            story += " max_tof(same)";
          else if (v == 2)
            m = -1, story += " max_tof(-1)";
          else
            m = cur.tofmax_data + 1, unsafe_unguarded = true, story += " max_tof(too large)";
          L.max_tof(m);
          cur.c.maxtof = m;
          break;
        }
        case 8:
          if (v % 2 == 0)
            cur.c.zero = !cur.c.zero;
          story += v % 2 == 0 ? " zero(new)" : " zero(same)";
          L.zero(cur.c.zero);
          break;
        case 9:
          if (v % 2 == 0)
            cur.c.use_subset_sens = !cur.c.use_subset_sens;
          story += v % 2 == 0 ? " use_subset_sens(new)" : " use_subset_sens(same)";
          L.use_subset_sens(cur.c.use_subset_sens);
          break;
        case 10:
          story += v % 2 == 0 ? " recompute(0)" : " recompute(1)";
          L.recompute(v % 2 != 0);
          break;
        case 11:
          if (v % 2 == 0)
            tot_name = prefix + "_stot.hv";
          story += v % 2 == 0 ? " sens_filename(new)" : " sens_filename(same)";
          L.sens_filename(tot_name);
          break;
        case 12:
          if (v == 0 || v == 1)
            sub_name = prefix + "_ssub%d.hv", bad_pattern = false, story += " subsens_filenames(new)";
          else if (v == 2)
            story += " subsens_filenames(same)";
          else
            sub_name = prefix + "_ssub%1%_%2%.hv", bad_pattern = true, story += " subsens_filenames(invalid pattern)";
          L.subsens_filenames(sub_name, bad_pattern);
          break;
        case 13: {
          shared_ptr<TargetT> given(cur.image->get_empty_copy());
          given->fill(1.F + rng.range(0, 3));
          // (subsensitivity_sptrs has the size the last set_up gave it — n —, and set_subset_sensitivity_sptr does not check the index:
          // a subset number >= n, e.g. after set_num_subsets(larger), writes outside the vector)
          const int s = rng.range(0, std::min(n, H->get_num_subsets()) - 1);
          L.subset_sens_sptr(s, given);
          sens_replaced = true;
          story += " subset_sens_sptr";
          break;
        }
        case 14:
          if (v == 0)
            want_frame_num = 2, unsafe_unguarded = true;
          else if (v == 1)
            want_frame_num = 0, unsafe_unguarded = true;
          story += v <= 1 ? " frame_num(new)" : " frame_num(same)";
          L.frame_num(want_frame_num);
          break;
        case 15:
          if (v % 2 == 0)
            {
              std::vector<std::pair<double, double>> two;
              two.push_back(std::make_pair(0., 2.));
              two.push_back(std::make_pair(2., 3.));
              want_frame_defs = TimeFrameDefinitions(two);
              frame_defs_id = 2;
              story += frame_defs_id == 2 ? " frame_defs(new)" : " frame_defs(same)";
            }
          else
            story += " frame_defs(same)";
          // (a copy: the setter compares values)
          L.frame_defs(TimeFrameDefinitions(want_frame_defs), frame_defs_id);
          break;
        case 16:
        case 17: {
          if (v == 0 && prior)
            {
              prior.reset();
              prior_beta = 0.F;
              prior_ready = false;
              story += " prior(null)";
            }
          else
            {
              prior_beta = static_cast<float>(0.05 + rng.unit());
              prior = make_prior(prior_beta);
              prior_ready = v >= 2;
              if (prior_ready)
                prior->set_up(cur.image);
              story += prior_ready ? " prior(new, set up)" : " prior(new, not set up)";
            }
          L.prior(prior, prior_ready);
          break;
        }
        default: {
          // parse() of a parameter text: the other end-plane setting, all segments of the data
          parsed = true;
          cur.c.zero = !cur.c.zero;
          const int top = cur.g.pdi->get_max_segment_num();
          cur.c.maxseg = v % 2 == 0 ? top : H->get_max_segment_num_to_process();
          cur.maxseg_eff = cur.c.maxseg;
          L.parse(cur.c.zero, cur.c.maxseg);
          story += " parse(zero end planes := other value)";
          break;
        }
        }
    }
  cur.maxseg_eff = cur.c.maxseg < 0 ? cur.g.pdi->get_max_segment_num() : cur.c.maxseg;
  const std::string ctx = "history `set_up(n=" + std::to_string(n) + ") ->" + story + " -> requests without set_up`; " + cur.c.str();
  ++hist["setters-histories"];
  for (auto& ch : choices)
    ++hist["setters-setter-" + std::to_string(ch.setter)];

  // ---- a fresh object with the configuration the object now claims to have
  auto make_fresh = [&](std::unique_ptr<Holder>& F) -> bool {
    Case twin = cur;
    twin.pair = make_pair_with_symmetries(cur.c.symflags);
    F.reset(new Holder(rng.coin() ? 0 : 1));
    configure(**F, twin, want_n);
    if (!twin.c.additive)
      (*F)->set_additive_proj_data_sptr(shared_ptr<ProjData>());
    if (twin.c.maxtof < 0)
      (*F)->set_max_timing_pos_num_to_process(-1);
    (*F)->set_use_tofsens(H->get_use_tofsens());
    (*F)->set_frame_num(want_frame_num);
    (*F)->set_frame_definitions(want_frame_defs);
    if (prior)
      (*F)->set_prior_sptr(make_prior(prior_beta));
    return guarded([&] {
      if ((*F)->set_up(cur.image) != Succeeded::yes)
        throw 1;
    });
  };

  auto ask_all = [&](const char* phase, bool after_setters) {
    std::vector<std::string> kinds = { "value", "gradient", "gps", "hessian", "ahessian", "sensitivity", "agrad", "cached", "total" };
    if (prior)
      for (const char* kk : { "value_wo", "gradient_wo", "hessian_wo", "ahessian_wo" })
        kinds.push_back(kk);
    // Rng order
    for (std::size_t i = kinds.size(); i > 1; --i)
      std::swap(kinds[i - 1], kinds[rng.range(0, static_cast<int>(i) - 1)]);
    std::map<std::string, ReqResult> got;
    for (auto& kk : kinds)
      {
        const bool ung = is_unguarded(kk);
        if (ung && after_setters && unsafe_unguarded)
          continue;
        if ((kk == "sensitivity" || kk == "agrad") && after_setters && H->get_num_subsets() < 1)
          continue;
        got[kk] = serve_any(*H, cur, kk, *lam_im, *x_im);
        // the prior's own "not set up" check refuses the penalised functions; a new normalisation / projector object that nobody has
        // set up decides by its own checks about the functions that do not test the flag: no model line for those
        if (!(ung && lowlevel_unknown && (kk == "sensitivity" || kk == "agrad")))
          {
            o.line("sreq " + kk, got[kk].ok ? "1" : "0");
            ++o.checks;
          }
        ++hist[std::string("setters-request-") + phase + (got[kk].ok ? "-answered" : "-refused")];
      }
    bool any = false;
    for (auto& kv : got)
      any = any || kv.second.ok;
    if (!any)
      return;
    std::unique_ptr<Holder> F;
    const bool accF = make_fresh(F);
    std::map<std::string, ReqResult> fresh;
    for (auto& kk : kinds)
      if (got.count(kk) && got[kk].ok && accF)
        fresh[kk] = serve_any(**F, cur, kk, *lam_im, *x_im);
    auto report = [&](const std::string& kk, const std::string& text) {
      {
        std::string st = story;
        std::replace(st.begin(), st.end(), ' ', '_');
        ++hist["setters-stale-answer-" + kk + "-after" + st];
      }
      // get_subset_sensitivity / get_sensitivity, add_subset_sensitivity and the public actual_compute_subset_gradient_without_penalty do not
      // test already_set_up: what they answer between a setter and the next set_up is outside the property's quantifier (requests AFTER
      // set-up).  Counted, not an oracle verdict; their answered / refused pattern stays a model line (`sreq`).
      if (is_unguarded(kk) && after_setters)
        {
          ++hist["unguarded_answered_stale"];
          return;
        }
      o.fail(text + (parsed && after_setters ? " [after parse() of a parameter text on the object that was set up]" : "") + "; " + ctx);
    };
    // "the 'gradient plus sensitivity' quantity exceeds the gradient by exactly the sensitivity", on what the object answers now
    const bool same_proj = !cur.tof || H->get_use_tofsens();
    if (got.count("gps") && got.count("cached") && got["gps"].ok && got["cached"].ok && !sens_replaced && same_proj && H->get_use_subset_sensitivities())
      {
        const std::string gk = prior ? "gradient_wo" : "gradient";
        if (got.count(gk) && got[gk].ok)
          {
            ++o.checks;
            ++hist["setters-oracle-gps-minus-grad"];
            const std::vector<float>&gp = got["gps"].v, &gr = got[gk].v, &se = got["cached"].v;
            for (std::size_t i = 0; i < gp.size(); ++i)
              if (!(std::fabs((double(gp[i]) - double(gr[i])) - double(se[i])) <= 1e-4 * (2 * std::fabs(gp[i]) + std::fabs(gr[i]) + std::fabs(se[i])) + 1e-30))
                {
                  report("gps", std::string("gradient_plus_sensitivity - gradient != get_subset_sensitivity(0) at voxel ") + std::to_string(i) + " ("
                                    + vh::hex(gp[i] - gr[i]) + " vs " + vh::hex(se[i]) + ") " + (after_setters ? "after the setter call(s) without a new set_up" : "after the final set_up"));
                  break;
                }
          }
      }
    for (auto& kv : got)
      {
        if (!kv.second.ok)
          continue;
        const std::string& kk = kv.first;
        if ((kk == "cached" || kk == "total") && sens_replaced)
          continue; // the caller's own images
        ++o.checks;
        const std::string what = std::string(after_setters ? "request '" + kk + "' is answered after the setter call(s) without a new set_up"
                                                           : "request '" + kk + "' after the final set_up");
        if (!accF)
          {
            if (after_setters)
              report(kk, what + " although set_up of a new object with the configuration the object now has is refused");
            continue;
          }
        // (requests that test the flag: bit for bit; the others — e.g. the total sensitivity accumulated over another number of subsets — up
        // to the rounding of a different order of summation)
        bool same = fresh[kk].same(kv.second);
        if (!same && is_unguarded(kk) && fresh[kk].ok && fresh[kk].v.size() == kv.second.v.size())
          {
            same = true;
            for (std::size_t i = 0; i < kv.second.v.size(); ++i)
              same = same
                     && std::fabs(double(fresh[kk].v[i]) - double(kv.second.v[i]))
                            <= 2e-5 * (std::fabs(double(fresh[kk].v[i])) + std::fabs(double(kv.second.v[i]))) + 1e-30;
          }
        if (!same)
          report(kk, what + (fresh[kk].ok ? " but differs from the answer of a new object configured with the values the object now has and set up"
                                          : " but a new object configured with the values the object now has refuses it"));
      }
  };
  ask_all("after-setters", true);

  // ---- the final set_up, and the requests again
  if (bad_pattern)
    {
      sub_name.clear();
      L.subsens_filenames(sub_name);
    }
  parsed = false;
  unsafe_unguarded = false;
  if (do_set_up("final"))
    {
      cur.c.use_tofsens = H->get_use_tofsens();
      ask_all("after-final-set_up", false);
    }
  for (const char* ext : { ".hv", ".v", ".ahv" })
    {
      std::remove((prefix + "_stot" + ext).c_str());
      for (int s = 0; s < 16; ++s)
        std::remove((prefix + "_ssub" + std::to_string(s) + ext).c_str());
    }
}

int
main(int argc, char** argv)
{
  if (argc < 5)
    return 2;
  vh::quiet();
  vh::Rng rng(std::strtoull(argv[1], nullptr, 10) * 2654435761ULL + 5);
  const bool thorough = std::string(argv[2]) == "thorough";
  Out o;
  o.ops = std::fopen(argv[3], "w");
  o.impl = std::fopen(argv[4], "w");
  o.orc = std::fopen((std::string(argv[4]) + ".oracle").c_str(), "w");
  std::map<std::string, long> hist;

  const int ncases = thorough ? 90 : 18;
  std::unique_ptr<Case> prev; // the previous configuration: what "everything changes" in a re-use history changes to
  int retries = 0;
  for (int ci = 0; ci < ncases; ++ci)
    {
      Case k;
      CaseCfg& c = k.c;
      const bool tof = ci % 3 == 1;
      c.N = tof ? 8 : 2 * rng.range(4, 6);
      c.R = rng.range(2, 3);
      c.span = c.R == 3 && rng.coin() ? 3 : 1;
      c.tofbins = tof ? (rng.coin() ? 5 : 9) : 0;
      c.tofmash = tof ? (c.tofbins == 9 ? 3 : 1) : 0;
      c.nxy = rng.coin() ? 5 : 7;
      c.ntang = rng.range(3, c.N / 2 - 1);
      c.symflags = rng.range(0, 31);
      c.normkind = ci % 5;
      if (tof)
        {
          // TOF data: also normalisation with one factor per TOF bin (5: FromProjData, 6: table x FromProjData(TOF), 7: FromProjData(TOF) x TOF table)
          static const int kinds[8] = { 0, 1, 5, 6, 2, 7, 3, 4 };
          c.normkind = kinds[(ci / 3) % 8];
        }
      c.additive = rng.range(0, 2) != 0;
      c.zero = rng.range(0, 2) == 0;
      c.maxseg = rng.range(0, 2) == 0 ? rng.range(0, c.span == 3 ? 1 : c.R - 1) : -1;
      c.use_subset_sens = rng.range(0, 3) != 0;
      c.use_tofsens = tof && rng.coin();
      // "TOF range": set_max_timing_pos_num_to_process below the maximum of the data (in about half of the TOF cases)
      c.maxtof = -1;
      if (tof && (ci / 3) % 2 == 1)
        c.maxtof = rng.range(0, (c.tofbins / c.tofmash - 1) / 2 - 1);
      c.datamode = ci % 4;
      if (c.datamode == 2)
        c.additive = false; // vanishing means need the additive term off
      // configurations every run must contain (the classes of input named in known_findings.txt among them)
      if (ci == 1)
        c.use_tofsens = true, c.zero = true, c.normkind = 0; // TOF sensitivities + cleared end planes + trivial normalisation
      if (ci == 4)
        c.use_tofsens = false, c.normkind = 1; // TOF data, non-TOF sensitivity projector, normalisation from (non-TOF) projection data
      if (ci == 3)
        c.zero = true;
      if (ci == 0)
        c.zero = false, c.additive = true;
      c.voxel_factor = static_cast<float>(0.75 + 0.5 * rng.unit());
      bool ok = false;
      try
        {
          ok = build_case(k, rng);
        }
      catch (...)
        {
          ok = false;
        }
      if (!ok)
        {
          ++hist["case-skipped-rows-differ-with-symmetries"];
          if (retries < 3 * ncases)
            {
              ++retries;
              --ci;
            }
          continue;
        }
      run_case(o, k, rng, ci, thorough, hist);
      run_penalised(o, k, rng, hist);
      if (ci % 3 != 2)
        run_orders(o, k, rng, thorough, hist);
      run_loaded(o, k, rng, std::string(argv[4]) + ".sens", hist);
      for (int rep = 0; rep < (thorough ? 2 : 1); ++rep)
        run_reuse(o, k, prev.get(), rng, ci, thorough, std::string(argv[4]) + ".sens", hist);
      for (int h = 0; h < (thorough ? 12 : 6); ++h)
        run_setters(o, k, rng, ci, h, thorough, std::string(argv[4]) + ".sens", hist);
      prev.reset(new Case(k));
    }

  for (auto& kv : hist)
    std::fprintf(o.orc, "# %s=%ld\n", kv.first.c_str(), kv.second);
  std::fprintf(o.orc, "ORACLE-DONE checks=%ld fails=%ld\n", o.checks, o.fails);
  std::fclose(o.ops);
  std::fclose(o.impl);
  std::fclose(o.orc);
  return 0;
}
