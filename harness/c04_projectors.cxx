// C04 — implementation side: matched projector pairs are linear, adjoint and additive over pieces.
//
// Drives the REAL STIR API in-process:
//   ProjMatrixByBinUsingRayTracing / ProjMatrixByBinUsingInterpolation (rows via get_proj_matrix_elems_for_one_bin),
//   ForwardProjectorByBinUsingProjMatrixByBin, BackProjectorByBinUsingProjMatrixByBin, ProjectorByBinPairUsingProjMatrixByBin
//   (forward_project(ProjData&, image, subset_num, num_subsets, zero), forward_project(RelatedViewgrams&, sub-range),
//    set_up / start_accumulating_in_new_target / back_project(ProjData, subset) / back_project(RelatedViewgrams, sub-range) /
//    get_output / back_project(image, ProjData, subset)), ForwardProjectorByBinUsingRayTracing (on-the-fly Siddon),
//   on ProjDataInMemory, for generated cylindrical and BlocksOnCylindrical geometries, TOF and non-TOF;
//   the same projectors called with ProjData SMALLER than the set-up geometry (fewer segments, trimmed axial/tangential ranges);
//   images with a non-zero z origin and x/y-anisotropic voxels; pre-/post- data processors of set_input / get_output;
//   ProjectorByBinPairUsingSeparateProjectors, PresmoothingForwardProjectorByBin, PostsmoothingBackProjectorByBin;
//   on-the-fly projector with restrict_to_cylindrical_FOV true and false;
//   image grids whose index ranges are not the default ones (first plane negative / straddling 0 / positive, extra columns
//   at either end of x and y: VoxelsOnCartesianGrid(exam_info, IndexRange3D, origin, voxel_size)) in all of the above;
//   HISTORIES: one matrix / forward+back projector / ProjectorByBinPairUsingProjMatrixByBin / on-the-fly projector object
//   set_up in turn for several image grids and projection-data geometries (run_history), compared after every set_up with
//   fresh objects, with the model (MatrixObj state machine; projections from the rows of a fresh matrix) and with each other.
//   FIELD OF VIEW x SYMMETRIES x RAYS (run_fov_cross_product): on small fixed worlds the full cross product {cylindrical,
//   square field of view} x {32 symmetry settings} x {1, 2, 3 tangential rays} x {detector boundaries off, on} of the
//   ray-tracing matrix, all views: every row against the geometry of its LOR (GeoOracle: non-empty, row sum = chord, column
//   sums = 2D lengths - independent of any projector), against the row without symmetries, and (1 ray, non-TOF) forward
//   projection through the matrix against the on-the-fly projector for every symmetry setting; the end points of every ray
//   go to the model (sqchord / cylchord).  The geometry oracle also runs on the rows of every setting of the random worlds.
//
// Usage: c04_projectors <seed> <quick|thorough> <opsfile> <implfile>
//   <opsfile>  one operation per line (protocol: see lean/Driver/C04.lean); the explicit matrix rows (hex floats), the
//              symmetry tables (related view/segments, related axial/tangential positions) and the random images/data
//              are part of the stream;
//   <implfile> the implementation's answer per operation (hex floats);
//   <implfile>.oracle  verdicts of the property oracle, evaluated on the implementation alone.
#include "stir_fixtures.h"
#include "common.h"
#include "stir/recon_buildblock/ProjMatrixByBinUsingRayTracing.h"
#include "stir/recon_buildblock/ProjMatrixByBinUsingInterpolation.h"
#include "stir/recon_buildblock/ForwardProjectorByBinUsingProjMatrixByBin.h"
#include "stir/recon_buildblock/BackProjectorByBinUsingProjMatrixByBin.h"
#include "stir/recon_buildblock/ForwardProjectorByBinUsingRayTracing.h"
#include "stir/recon_buildblock/ProjectorByBinPairUsingProjMatrixByBin.h"
#include "stir/recon_buildblock/ProjectorByBinPairUsingSeparateProjectors.h"
#include "stir/recon_buildblock/PresmoothingForwardProjectorByBin.h"
#include "stir/recon_buildblock/PostsmoothingBackProjectorByBin.h"
#include "stir/DataProcessor.h"
#include "stir/recon_buildblock/ProjMatrixElemsForOneBin.h"
#include "stir/recon_buildblock/DataSymmetriesForBins.h"
#include "stir/ProjDataInMemory.h"
#include "stir/RelatedViewgrams.h"
#include "stir/Viewgram.h"
#include "stir/ExamInfo.h"
#include "stir/ProjDataInfoCylindricalNoArcCorr.h"
#include "stir/LORCoordinates.h"
#include "stir/TOF_conversions.h"
#include <array>
#include <map>
#include <set>
#include <cmath>
#include <algorithm>

using namespace stir;

typedef std::vector<std::pair<std::array<int, 3>, float>> RowT;
static const double EPS = 1.0 / 16777216.0; // 2^-24

static FILE *g_ops, *g_out, *g_orc;
static long g_checks = 0, g_fails = 0;
static std::map<std::string, long> g_counts;

static void
emit(const std::string& op, const std::string& ans)
{
  std::fputs(op.c_str(), g_ops);
  std::fputc('\n', g_ops);
  std::fputs(ans.c_str(), g_out);
  std::fputc('\n', g_out);
  // (a crash of the implementation must not leave the two streams out of step)
  std::fflush(g_ops);
  std::fflush(g_out);
}

static void
oracle(bool ok, const std::string& what)
{
  ++g_checks;
  if (!ok)
    {
      ++g_fails;
      if (g_fails <= 40)
        {
          std::fprintf(g_orc, "ORACLE-FAIL %s\n", what.c_str());
          std::fflush(g_orc);
        }
    }
}

static std::set<std::string> g_known_emitted;
static void
known_candidate(const std::string& key, const std::string& what)
{
  ++g_checks;
  if (g_known_emitted.insert(key).second)
    std::fprintf(g_orc, "KNOWN-CANDIDATE %s %s\n", key.c_str(), what.c_str());
}

static std::string
hexlist(const std::vector<float>& v)
{
  std::string s;
  s.reserve(v.size() * 16);
  char buf[48];
  for (std::size_t i = 0; i < v.size(); ++i)
    {
      std::snprintf(buf, sizeof buf, i ? " %a" : "%a", (double)v[i]);
      s += buf;
    }
  return s;
}

static std::string
intlist(const std::vector<float>& v)
{
  std::string s;
  char buf[32];
  for (std::size_t i = 0; i < v.size(); ++i)
    {
      std::snprintf(buf, sizeof buf, " %d", (int)v[i]);
      s += buf;
    }
  return s;
}

// ------------------------------------------------------------------------------------------------ data processors

// The harness' own DataProcessor (exact on small integers, so that the Lean model can follow it exactly):
//   scale: image *= c;  smx: out[z][y][x] = in[x-1] + 2 in[x] + in[x+1] (missing neighbours = 0; symmetric, hence self-adjoint);
//   fail: set_up returns Succeeded::no (apply then returns Succeeded::no and the projectors have to throw).
class HProc : public DataProcessor<DiscretisedDensity<3, float>>
{
public:
  enum Kind
  {
    scale,
    smx,
    fail
  };
  HProc(Kind k, float c_v = 1.F)
      : kind(k),
        c(c_v)
  {}
  std::string get_registered_name() const override { return "verif harness processor"; }
  mutable long applied = 0;
  std::string opname() const
  {
    if (kind == scale)
      return "scale " + std::to_string((int)c);
    return kind == smx ? "smx" : "fail";
  }
  // the same map on a flat vector in the harness' canonical order (x fastest), nx voxels per row
  std::vector<float> on(const std::vector<float>& v, int nx) const
  {
    std::vector<float> o(v.size());
    for (std::size_t i = 0; i < v.size(); ++i)
      {
        if (kind == scale)
          o[i] = c * v[i];
        else
          {
            const int x = int(i % nx);
            o[i] = 2 * v[i] + (x > 0 ? v[i - 1] : 0.F) + (x + 1 < nx ? v[i + 1] : 0.F);
          }
      }
    return o;
  }

protected:
  Succeeded virtual_set_up(const DiscretisedDensity<3, float>&) override { return kind == fail ? Succeeded::no : Succeeded::yes; }
  void virtual_apply(DiscretisedDensity<3, float>& out, const DiscretisedDensity<3, float>& in) const override
  {
    ++applied;
    const IndexRange<3> r = in.get_index_range();
    for (int z = r.get_min_index(); z <= r.get_max_index(); ++z)
      for (int y = r[z].get_min_index(); y <= r[z].get_max_index(); ++y)
        {
          const int x0 = r[z][y].get_min_index(), x1 = r[z][y].get_max_index();
          for (int x = x0; x <= x1; ++x)
            out[z][y][x] = kind == scale ? c * in[z][y][x]
                                         : 2 * in[z][y][x] + (x > x0 ? in[z][y][x - 1] : 0.F) + (x < x1 ? in[z][y][x + 1] : 0.F);
        }
  }
  void virtual_apply(DiscretisedDensity<3, float>& data) const override
  {
    shared_ptr<DiscretisedDensity<3, float>> in(data.clone());
    virtual_apply(data, *in);
  }

private:
  Kind kind;
  float c;
};

// ------------------------------------------------------------------------------------------------ geometry

static shared_ptr<Scanner>
blocks_scanner(int N, int R, int tof_bins)
{
  // N/2 buckets of one block of 2 crystals; radius such that the blocks form the polygon.
  // (constructed as "Cylindrical" first: with "BlocksOnCylindrical" in the constructor the TOF consistency check
  //  runs before max_FOV_radius is initialised and rejects every TOF scanner)
  const int cpb = 2, nblk = N / cpb;
  const float cs = 8.F;
  const float rad = cs * cpb / (2 * std::tan(3.14159265F / 2 / nblk)) * 0.99F;
  shared_ptr<Scanner> s(new Scanner(Scanner::User_defined_scanner, std::string("verif_blocks"), N, R, N / 2 - 1, N / 2 - 1, rad, 2.F,
                                    4.F, 4.F, 0.F, 1, 1, R, cpb, 1, 1, 1, 0.1F, 511.F, (short)tof_bins, tof_bins > 0 ? 100.F : -1.F,
                                    tof_bins > 0 ? 400.F : -1.F, "Cylindrical", 4.F, cs, 4.F * R, cs * cpb));
  s->set_scanner_geometry("BlocksOnCylindrical");
  s->set_up();
  return s;
}

// image grid: voxel z = the default of VoxelsOnCartesianGrid(proj_data_info, ...) divided by zoom_z, zooms in y and x,
// origin a whole number of planes along z.
// The index ranges are those of VoxelsOnCartesianGrid(proj_data_info, zooms, origin, sizes) - z = 0..nz-1, x and y
// -(n/2)..-(n/2)+n-1 - unless `shape` says otherwise: shape.z_first = index of the first plane (the matrix and the
// symmetries put the middle plane (min+max)/2 of the index range at origin.z, wherever the range starts), ex/ey =
// planes added at the low / high end of the x and y ranges (the projectors use the largest centred square / circle).
struct GridShape
{
  int z_first = 0;
  int ex0 = 0, ex1 = 0, ey0 = 0, ey1 = 0;
  bool is_default() const { return z_first == 0 && ex0 == 0 && ex1 == 0 && ey0 == 0 && ey1 == 0; }
  std::string desc() const
  {
    std::ostringstream d;
    d << " zfirst=" << z_first << " xyext=" << ex0 << "," << ex1 << "," << ey0 << "," << ey1;
    return d.str();
  }
};

static shared_ptr<VoxelsOnCartesianGrid<float>>
make_grid(const ProjDataInfo& pdi, float zoom_x, float zoom_y, int nxy, int nz, int zorigin_planes, float zoom_z = 1.F,
          const GridShape& shape = GridShape())
{
  shared_ptr<ExamInfo> ex(new ExamInfo);
  const CartesianCoordinate3D<float> zooms(zoom_z, zoom_y, zoom_x);
  VoxelsOnCartesianGrid<float> probe(ex, pdi, zooms, CartesianCoordinate3D<float>(0.F, 0.F, 0.F), CartesianCoordinate3D<int>(nz, nxy, nxy));
  const float vz = probe.get_voxel_size().z();
  if (shape.is_default())
    {
      shared_ptr<VoxelsOnCartesianGrid<float>> im(new VoxelsOnCartesianGrid<float>(
          ex, pdi, zooms, CartesianCoordinate3D<float>(zorigin_planes * vz, 0.F, 0.F), CartesianCoordinate3D<int>(nz, nxy, nxy)));
      return im;
    }
  const IndexRange3D range(shape.z_first, shape.z_first + nz - 1, probe.get_min_y() - shape.ey0, probe.get_max_y() + shape.ey1,
                           probe.get_min_x() - shape.ex0, probe.get_max_x() + shape.ex1);
  shared_ptr<VoxelsOnCartesianGrid<float>> im(new VoxelsOnCartesianGrid<float>(
      ex, range, CartesianCoordinate3D<float>(zorigin_planes * vz, 0.F, 0.F), probe.get_voxel_size()));
  return im;
}

// a random non-default shape: first plane negative / straddling (the centred range) / positive; sometimes extra columns/rows
static GridShape
random_shape(vh::Rng& rng, int nz, bool with_xy)
{
  GridShape g;
  static const int pos[] = { 1, 3, 7 };
  switch (rng.range(0, 4))
    {
    case 0:
      g.z_first = -(nz / 2); // centred: -4..4
      break;
    case 1:
      g.z_first = -rng.range(1, std::max(1, nz - 2)); // straddling, not centred: -2..6
      break;
    case 2:
      g.z_first = -nz - rng.range(0, 2); // all planes negative
      break;
    default:
      g.z_first = pos[rng.range(0, 2)]; // 3..9
    }
  if (with_xy && rng.range(0, 2) == 0)
    {
      g.ex0 = rng.range(0, 2);
      g.ex1 = rng.range(0, 2);
      g.ey0 = rng.range(0, 2);
      g.ey1 = rng.range(0, 2);
    }
  return g;
}

struct World
{
  shared_ptr<ProjDataInfo> pdi;
  shared_ptr<VoxelsOnCartesianGrid<float>> image; // grid + a zero image
  shared_ptr<ExamInfo> exam;
  std::string desc;
  bool blocks = false, tof = false, mashed = false;
  int span = 1;
  int minSeg, maxSeg, minView, maxView, minT, maxT, minK, maxK;
  std::vector<int> axMin, axMax, segOff;
  int nbins = 0;
  int zmin, zmax, ymin, ymax, xmin, xmax, nvox;

  int aMin(int s) const { return axMin[s - minSeg]; }
  int aMax(int s) const { return axMax[s - minSeg]; }
  int idx(int s, int v, int k, int a, int t) const
  {
    const int nK = maxK - minK + 1, nA = aMax(s) - aMin(s) + 1, nT = maxT - minT + 1;
    return segOff[s - minSeg] + (((v - minView) * nK + (k - minK)) * nA + (a - aMin(s))) * nT + (t - minT);
  }
  int lin(int z, int y, int x) const { return ((z - zmin) * (ymax - ymin + 1) + (y - ymin)) * (xmax - xmin + 1) + (x - xmin); }

  void finish()
  {
    minSeg = pdi->get_min_segment_num();
    maxSeg = pdi->get_max_segment_num();
    minView = pdi->get_min_view_num();
    maxView = pdi->get_max_view_num();
    minT = pdi->get_min_tangential_pos_num();
    maxT = pdi->get_max_tangential_pos_num();
    minK = pdi->get_min_tof_pos_num();
    maxK = pdi->get_max_tof_pos_num();
    nbins = 0;
    for (int s = minSeg; s <= maxSeg; ++s)
      {
        axMin.push_back(pdi->get_min_axial_pos_num(s));
        axMax.push_back(pdi->get_max_axial_pos_num(s));
        segOff.push_back(nbins);
        nbins += (maxView - minView + 1) * (maxK - minK + 1) * (axMax.back() - axMin.back() + 1) * (maxT - minT + 1);
      }
    const IndexRange<3> r = image->get_index_range();
    zmin = r.get_min_index();
    zmax = r.get_max_index();
    ymin = r[zmin].get_min_index();
    ymax = r[zmin].get_max_index();
    xmin = r[zmin][ymin].get_min_index();
    xmax = r[zmin][ymin].get_max_index();
    nvox = (zmax - zmin + 1) * (ymax - ymin + 1) * (xmax - xmin + 1);
  }

  template <class F>
  void for_bins(F f) const
  {
    for (int s = minSeg; s <= maxSeg; ++s)
      for (int v = minView; v <= maxView; ++v)
        for (int k = minK; k <= maxK; ++k)
          for (int a = aMin(s); a <= aMax(s); ++a)
            for (int t = minT; t <= maxT; ++t)
              f(s, v, k, a, t);
  }

  void fill(ProjDataInMemory& pd, const std::vector<float>& vals) const
  {
    for (int s = minSeg; s <= maxSeg; ++s)
      for (int v = minView; v <= maxView; ++v)
        for (int k = minK; k <= maxK; ++k)
          {
            Viewgram<float> vg = pd.get_empty_viewgram(v, s, false, k);
            for (int a = aMin(s); a <= aMax(s); ++a)
              for (int t = minT; t <= maxT; ++t)
                vg[a][t] = vals[idx(s, v, k, a, t)];
            pd.set_viewgram(vg);
          }
  }
  std::vector<float> read(const ProjData& pd) const
  {
    std::vector<float> vals(nbins);
    for (int s = minSeg; s <= maxSeg; ++s)
      for (int v = minView; v <= maxView; ++v)
        for (int k = minK; k <= maxK; ++k)
          {
            Viewgram<float> vg = pd.get_viewgram(v, s, false, k);
            for (int a = aMin(s); a <= aMax(s); ++a)
              for (int t = minT; t <= maxT; ++t)
                vals[idx(s, v, k, a, t)] = vg[a][t];
          }
    return vals;
  }
  shared_ptr<DiscretisedDensity<3, float>> make_img(const std::vector<float>& vals) const
  {
    shared_ptr<DiscretisedDensity<3, float>> im(image->get_empty_copy());
    for (int z = zmin; z <= zmax; ++z)
      for (int y = ymin; y <= ymax; ++y)
        for (int x = xmin; x <= xmax; ++x)
          (*im)[z][y][x] = vals[lin(z, y, x)];
    return im;
  }
  std::vector<float> read_img(const DiscretisedDensity<3, float>& im) const
  {
    std::vector<float> vals(nvox);
    for (int z = zmin; z <= zmax; ++z)
      for (int y = ymin; y <= ymax; ++y)
        for (int x = xmin; x <= xmax; ++x)
          vals[lin(z, y, x)] = im[z][y][x];
    return vals;
  }
};

static bool
make_world(World& w, vh::Rng& rng, int kind, bool thorough, bool even_views, bool force_mash, bool shaped = false)
{
  // kind 0: cylindrical non-TOF, 1: cylindrical TOF, 2: blocks non-TOF, 3: blocks TOF
  w = World();
  w.blocks = kind >= 2;
  w.tof = kind == 1 || kind == 3;
  const int R = rng.range(2, 3);
  int N, span = 1, mash = 1, nxy;
  shared_ptr<Scanner> sc;
  if (!w.blocks)
    {
      static const int Ns[] = { 8, 10, 12, 14, 16 };
      N = Ns[rng.range(0, thorough ? 4 : 3)];
      if (w.tof && N > 12)
        N = 12;
      if (even_views && (N / 2) % 2 != 0)
        N += 2; // 8, 12, 16: even number of views, as the on-the-fly projector requires
      span = rng.range(0, 2) == 0 ? 3 : 1;
      if (force_mash && (N / 2) % 2 != 0)
        N += 2;
      if ((N / 2) % 2 == 0 && (force_mash || rng.range(0, 3) == 0) && !even_views)
        mash = 2;
      nxy = rng.range(5, 9);
      sc = vh::make_scanner(N, R, w.tof ? 5 : -1);
    }
  else
    {
      N = rng.coin() ? 12 : 16;
      if (w.tof)
        N = 12;
      nxy = rng.coin() ? 15 : 17;
      sc = blocks_scanner(N, R, w.tof ? 5 : -1);
    }
  const int views = N / 2 / mash;
  const int maxtang = N / 2 - 1;
  int ntang = rng.range(std::max(3, maxtang - 2), maxtang);
  if (w.blocks)
    ntang = maxtang;
  int tofmash = 0;
  if (w.tof)
    tofmash = (!w.blocks && rng.range(0, 3) == 0) ? 5 : 1; // 5: all TOF bins mashed into one
  w.mashed = mash != 1;
  w.span = span;
  const int nzvar = rng.range(0, 5); // 1: two planes fewer, 2: two planes more
  const bool arccorr = !w.blocks && !w.tof && rng.range(0, 3) == 0;
  w.pdi = vh::make_pdi(sc, span, R - 1, views, ntang, arccorr, w.blocks ? 0 : tofmash);
  if (w.blocks && w.tof)
    w.pdi->set_tof_mash_factor(tofmash);
  // number of planes: usually all 2R-1 planes of the scanner; sometimes fewer or more, so that rows contain planes
  // outside the image (the z guard of forward_project/back_project)
  int nz = 2 * R - 1;
  if (!w.blocks && nzvar == 1)
    nz = 2 * R - 3;
  if (!w.blocks && nzvar == 2)
    nz = 2 * R + 1;
  // voxel size chosen so that the image covers 50-100% of the scanner's transaxial field of view
  // (with zoom 1 only the central tangential positions would intersect a 5-9 voxel image)
  static const float fracs[] = { 0.5F, 0.7F, 0.85F, 1.F };
  const float frac = fracs[rng.range(0, 3)];
  const float zoom = w.blocks ? (rng.coin() ? 0.5F : 0.4F)
                              : sc->get_default_bin_size() * nxy / (2.F * sc->get_inner_ring_radius() * frac);
  // image grid: z origin 0 or a whole number of planes off (the matrix and the symmetries accept exactly that), voxels
  // square or x/y-anisotropic (the symmetries then drop the 90-degree operations)
  static const int zorgs[] = { 0, 0, 0, 1, -1, 2 };
  const int zorg = w.blocks ? 0 : zorgs[rng.range(0, 5)];
  const bool aniso = !w.blocks && rng.range(0, 3) == 0;
  // index ranges: the default ones (first plane 0), or first plane negative / straddling / positive and x/y ranges with
  // extra columns at either end
  // (no extra columns together with x/y-anisotropic voxels: the on-the-fly projector reads the voxel with x and y exchanged
  //  - for its 90-degrees symmetries, whether they are used or not - and would read outside an image whose centred x and y
  //  extents differ in voxels; see the report / assumptions)
  const GridShape shape = shaped ? random_shape(rng, nz, !aniso) : GridShape();
  w.image = make_grid(*w.pdi, zoom, aniso ? zoom * (rng.coin() ? 1.25F : 0.8F) : zoom, nxy, nz, zorg, 1.F, shape);
  w.exam.reset(new ExamInfo);
  w.exam->imaging_modality = ImagingModality::PT;
  w.image->set_exam_info(*w.exam);
  w.finish();
  if (shaped)
    g_counts[w.zmin < 0 ? (w.zmax < 0 ? "worlds_all_planes_negative" : "worlds_first_plane_negative") : "worlds_first_plane_positive"]++;
  std::ostringstream d;
  d << (w.blocks ? "blocks" : "cyl") << " N=" << N << " R=" << R << " span=" << span << " viewmash=" << mash << " views=" << views
    << " tang=" << ntang << " tofmash=" << tofmash << " nxy=" << nxy << " nz=" << nz << " voxel=" << w.image->get_voxel_size().x() << ","
    << w.image->get_voxel_size().y() << " zorigin_planes=" << zorg << " arccorr=" << arccorr << " grid=[" << w.zmin << ".." << w.zmax
    << "," << w.ymin << ".." << w.ymax << "," << w.xmin << ".." << w.xmax << "]";
  w.desc = d.str();
  return true;
}

// A ProjData geometry SMALLER than w's (so that `*set_up_info >= *smaller` holds): fewer segments (symmetric), a trimmed
// tangential range (symmetric, containing 0, or arbitrary), axial ranges trimmed by one position at either end (the same
// for +segment and -segment).  sw shares the image and has its own (smaller) canonical enumeration.
static bool
make_sub_world(const World& w, vh::Rng& rng, World& sw)
{
  shared_ptr<ProjDataInfo> p2(w.pdi->clone());
  bool trimmed = false;
  int ms = w.maxSeg;
  if (w.maxSeg > 0 && -w.minSeg == w.maxSeg && rng.range(0, 2) != 0)
    {
      ms = rng.range(0, w.maxSeg - 1);
      p2->reduce_segment_range(-ms, ms);
      trimmed = true;
    }
  int t0 = w.minT, t1 = w.maxT;
  const int mode = rng.range(0, 3);
  if (mode <= 1 && w.maxT >= 2)
    { // symmetric
      t1 = rng.range(1, w.maxT - 1);
      t0 = std::max(w.minT, -t1);
    }
  else if (mode == 2)
    { // contains 0
      t0 = rng.range(w.minT, 0);
      t1 = rng.range(0, w.maxT);
    }
  else
    { // anything
      t0 = rng.range(w.minT, w.maxT);
      t1 = rng.range(t0, w.maxT);
    }
  if (!trimmed && t0 == w.minT && t1 == w.maxT)
    t1 = w.maxT - 1;
  p2->set_min_tangential_pos_num(t0);
  p2->set_max_tangential_pos_num(t1);
  for (int s = 0; s <= std::min(ms, w.maxSeg); ++s)
    {
      int a0 = w.aMin(s), a1 = w.aMax(s);
      if (s > 0 && (s < w.minSeg || -s < w.minSeg || w.aMin(-s) != a0 || w.aMax(-s) != a1))
        continue;
      if (a1 - a0 >= 2 && rng.range(0, 2) == 0)
        ++a0;
      if (a1 - a0 >= 1 && rng.range(0, 2) == 0)
        --a1;
      p2->set_min_axial_pos_num(a0, s);
      p2->set_max_axial_pos_num(a1, s);
      if (s > 0)
        {
          p2->set_min_axial_pos_num(a0, -s);
          p2->set_max_axial_pos_num(a1, -s);
        }
    }
  sw = w;
  sw.pdi = p2;
  sw.axMin.clear();
  sw.axMax.clear();
  sw.segOff.clear();
  sw.finish();
  std::ostringstream d;
  d << " sub[seg " << sw.minSeg << ".." << sw.maxSeg << " tang " << sw.minT << ".." << sw.maxT << " ax";
  for (int s = sw.minSeg; s <= sw.maxSeg; ++s)
    d << " " << sw.aMin(s) << ".." << sw.aMax(s);
  d << "]";
  sw.desc = w.desc + d.str();
  return *w.pdi >= *p2 && !(*w.pdi == *p2);
}

// ------------------------------------------------------------------------------------------------ matrices

struct MSet
{
  int type; // 0 ray tracing, 1 interpolation
  int ntl;
  bool s90, s180, sseg, ss, sz;
  bool cylfov, actual;
  std::string desc() const
  {
    std::ostringstream d;
    d << (type == 0 ? "raytracing" : "interpolation") << " ntl=" << ntl << " sym=" << s90 << s180 << sseg << ss << sz
      << " cylfov=" << cylfov << " actual=" << actual;
    return d.str();
  }
};

static shared_ptr<ProjMatrixByBin>
make_matrix(const MSet& m, bool cache, bool nosym)
{
  const bool s90 = !nosym && m.s90, s180 = !nosym && m.s180, sseg = !nosym && m.sseg, ss = !nosym && m.ss, sz = !nosym && m.sz;
  if (m.type == 0)
    {
      shared_ptr<ProjMatrixByBinUsingRayTracing> pm(new ProjMatrixByBinUsingRayTracing);
      pm->set_num_tangential_LORs(m.ntl);
      pm->set_restrict_to_cylindrical_FOV(m.cylfov);
      pm->set_use_actual_detector_boundaries(m.actual);
      pm->set_do_symmetry_90degrees_min_phi(s90);
      pm->set_do_symmetry_180degrees_min_phi(s180);
      pm->set_do_symmetry_swap_segment(sseg);
      pm->set_do_symmetry_swap_s(ss);
      pm->set_do_symmetry_shift_z(sz);
      pm->enable_cache(cache);
      return pm;
    }
  shared_ptr<ProjMatrixByBinUsingInterpolation> pm(new ProjMatrixByBinUsingInterpolation);
  std::ostringstream p;
  p << "Interpolation Matrix Parameters :=\n"
    << "do_symmetry_90degrees_min_phi := " << (s90 ? 1 : 0) << "\n"
    << "do_symmetry_180degrees_min_phi := " << (s180 ? 1 : 0) << "\n"
    << "do_symmetry_swap_segment := " << (sseg ? 1 : 0) << "\n"
    << "do_symmetry_swap_s := " << (ss ? 1 : 0) << "\n"
    << "do_symmetry_shift_z := " << (sz ? 1 : 0) << "\n"
    << "End Interpolation Matrix Parameters :=\n";
  std::istringstream is(p.str());
  if (!pm->parse(is))
    throw std::runtime_error("interpolation matrix: parse failed");
  pm->enable_cache(cache);
  return pm;
}

static RowT
get_row(const ProjMatrixByBin& pm, const Bin& b)
{
  ProjMatrixElemsForOneBin r;
  pm.get_proj_matrix_elems_for_one_bin(r, b);
  RowT out;
  for (ProjMatrixElemsForOneBin::const_iterator it = r.begin(); it != r.end(); ++it)
    out.push_back(std::make_pair(std::array<int, 3>{ it->coord1(), it->coord2(), it->coord3() }, it->get_value()));
  return out;
}

// ------------------------------------------------------------------------------------------------ rows against geometry

// INDEPENDENT oracle on the rows of ProjMatrixByBinUsingRayTracing (it uses neither the on-the-fly projector nor another
// matrix): the LOR of a bin is the line X = s cos(phi) + a sin(phi), Y = s sin(phi) - a cos(phi); its part inside the
// transaxial field of view (the cylinder of radius R or the square |X|,|Y| <= R, R = the largest centred extent of the
// image grid) - the chord - is cut into the pieces lying in the voxel columns (y,x) by the harness' own 2D tracer (sorted
// crossings of the lines X = (i+1/2) vx, Y = (j+1/2) vy).  What ray tracing has to deliver, whatever the z bookkeeping
// (several rays per axial position, overlap weights of direct planes), is
//     sum over z of row[z][y][x]  =  length of the LOR in column (y,x) / (cos(theta) voxel_size.x),
// averaged over the num_tangential_LORs rays of the bin.  RayTraceVoxelsOnCartesianGrid by design traces the voxel that
// contains an end point of the chord from the face through which the ray enters it to the face through which it leaves
// it (`we should use a=0 if we want to start from start_point and not from the left edge of the voxel`), so the two END
// columns get between their part of the chord and their full traversal (the full traversal exactly in a direct plane,
// where no z face intervenes); every other column gets exactly its part of the chord.  In particular a bin whose LOR
// crosses the field of view has a non-empty row whose sum lies between chord / (cos(theta) voxel_size.x) and that plus the
// rest of the two end voxels.  TOF: the sum over the timing positions of the rows is the non-TOF row times the coverage
// 1/2 sum_k [erf((high_k - d)/(sqrt2 sigma)) - erf((low_k - d)/(sqrt2 sigma))] of the voxel (d = position of the voxel
// centre along the LOR); the bounds are multiplied with the smallest and the largest coverage over the planes of the row.
struct LoHi
{
  double lo = 0, hi = 0;
};
typedef std::map<std::pair<int, int>, LoHi> ColMap; // (y, x) -> bounds of the sum over z, in the units of the matrix

// does the matrix use the detector pairs of the bin (use_actual_detector_boundaries after set_up)?
static bool
actual_boundaries_in_use(const World& w, bool requested)
{
  if (w.blocks)
    return true;
  if (!requested)
    return false;
  const ProjDataInfoCylindricalNoArcCorr* p = dynamic_cast<const ProjDataInfoCylindricalNoArcCorr*>(w.pdi.get());
  if (!p || p->get_view_mashing_factor() != 1)
    return false;
  for (int s = w.minSeg; s <= w.maxSeg; ++s)
    if (p->get_min_ring_difference(s) != p->get_max_ring_difference(s))
      return false;
  return true;
}

struct GeoOracle
{
  const World& w;
  int ntl;
  bool cylfov, actual_now;
  double fov = 0;
  std::vector<ColMap> exp;   // by the index of the bin with the first timing position
  std::vector<double> slack; // extra room for the row sum when an end point of the chord lies on a voxel boundary
  std::vector<char> degen;   // a ray runs along a voxel boundary or ends on one: columns not compared
  double sigma = 0;          // TOF
  bool tof = false;
  bool emit_ops;             // send every ray to the model (ops sqchord / cylchord)
  GeoOracle(const World& w_, int ntl_, bool cylfov_, bool actual_requested, bool emit_ops_ = false)
      : w(w_),
        ntl(ntl_),
        cylfov(cylfov_),
        actual_now(actual_boundaries_in_use(w_, actual_requested)),
        emit_ops(emit_ops_)
  {
    build();
  }

  // The end points of one ray for the model (lean: squareChord / cylChordSq, the transcription of ray_trace_one_lor):
  // the operation carries the numbers this oracle works with, the answer is this oracle's own (slab clipping / Pythagoras).
  void emit_ray(double s, double cphi, double sphi, double vx) const
  {
    char op[256], ans[128];
    if (cylfov)
      {
        std::snprintf(op, sizeof op, "cylchord %a %a", fov, s);
        if (std::fabs(s) > fov)
          std::snprintf(ans, sizeof ans, "none");
        else
          std::snprintf(ans, sizeof ans, "some %a", fov * fov - s * s);
      }
    else
      {
        std::snprintf(op, sizeof op, "sqchord %a %a %a %a %a", fov, s, cphi, sphi, vx);
        if (std::fabs(cphi) < 1e-3 || std::fabs(sphi) < 1e-3)
          { // a view at a multiple of 90 degrees: the LOR is parallel to two edges of the square
            if (fov < std::fabs(s))
              std::snprintf(ans, sizeof ans, "none");
            else
              std::snprintf(ans, sizeof ans, "some %a %a", -fov, fov);
          }
        else
          {
            double lo = -1e300, hi = 1e300;
            const double p0[2] = { s * cphi, s * sphi }, dir[2] = { sphi, -cphi };
            for (int c = 0; c < 2; ++c)
              {
                double a0 = (-fov - p0[c]) / dir[c], a1 = (fov - p0[c]) / dir[c];
                if (a0 > a1)
                  std::swap(a0, a1);
                lo = std::max(lo, a0);
                hi = std::min(hi, a1);
              }
            std::snprintf(ans, sizeof ans, "%s %a %a", lo > hi - 1e-3 * vx ? "none" : "some", lo, hi);
          }
      }
    emit(op, ans);
    g_counts["rays_sent_to_the_model"]++;
  }

  // s and phi of the central ray of the bin, as the matrix defines them
  void s_phi(int seg, int view, int ax, int tang, double& s, double& phi) const
  {
    const Bin bin(seg, view, ax, tang);
    s = w.pdi->get_s(bin);
    phi = w.pdi->get_phi(bin);
    if (actual_now && !w.blocks)
      {
        const ProjDataInfoCylindricalNoArcCorr& p = dynamic_cast<const ProjDataInfoCylindricalNoArcCorr&>(*w.pdi);
        const int N = w.pdi->get_scanner_ptr()->get_num_detectors_per_ring();
        const double rr = w.pdi->get_scanner_ptr()->get_effective_ring_radius();
        int d1 = 0, d2 = 0;
        p.get_det_num_pair_for_view_tangential_pos_num(d1, d2, view, tang);
        // the line through the centres of the two crystals
        double ph = (d1 + d2) * M_PI / N - M_PI / 2 + p.get_azimuthal_angle_offset();
        double ss = rr * std::sin((d1 - d2) * M_PI / N + M_PI / 2);
        if (ph - phi > M_PI / 2)
          {
            ph -= M_PI;
            ss = -ss;
          }
        else if (ph - phi < -M_PI / 2)
          {
            ph += M_PI;
            ss = -ss;
          }
        s = ss;
        phi = ph;
      }
  }

  // the part [amin, amax] of the line inside the field of view; false if it misses it
  bool chord(double s, double cphi, double sphi, double& amin, double& amax) const
  {
    if (cylfov)
      {
        if (std::fabs(s) >= fov)
          return false;
        amax = std::sqrt(fov * fov - s * s);
        amin = -amax;
        return true;
      }
    // slab clipping of the line against |X| <= fov and |Y| <= fov
    amin = -1e30;
    amax = 1e30;
    const double p0[2] = { s * cphi, s * sphi }, dir[2] = { sphi, -cphi };
    for (int c = 0; c < 2; ++c)
      {
        if (std::fabs(dir[c]) < 1e-9)
          {
            if (std::fabs(p0[c]) > fov)
              return false;
            continue;
          }
        double a0 = (-fov - p0[c]) / dir[c], a1 = (fov - p0[c]) / dir[c];
        if (a0 > a1)
          std::swap(a0, a1);
        amin = std::max(amin, a0);
        amax = std::min(amax, a1);
      }
    return amax > amin;
  }

  void trace(double s, double phi, double weight, bool direct_plane, ColMap& cols, bool& degenerate, double& slack_v) const
  {
    const CartesianCoordinate3D<float> vs = w.image->get_voxel_size();
    const double cphi = std::cos(phi), sphi = std::sin(phi), vx = vs.x(), vy = vs.y();
    double amin, amax;
    if (emit_ops)
      emit_ray(s, cphi, sphi, vx);
    if (!chord(s, cphi, sphi, amin, amax))
      return;
    // a ray along a column boundary: which column gets it is a matter of rounding
    if (std::fabs(sphi) < 1e-3)
      {
        const double f = s * cphi / vx + 0.5;
        if (std::fabs(f - std::floor(f + 0.5)) < 2e-3)
          degenerate = true;
      }
    if (std::fabs(cphi) < 1e-3)
      {
        const double f = s * sphi / vy + 0.5;
        if (std::fabs(f - std::floor(f + 0.5)) < 2e-3)
          degenerate = true;
      }
    // an end point of the chord on (to rounding) a voxel boundary: which voxel is the end voxel is a matter of rounding
    bool end_on_boundary = false;
    for (int e = 0; e < 2; ++e)
      {
        const double a = e ? amax : amin;
        const double fx = (s * cphi + a * sphi) / vx + 0.5, fy = (s * sphi - a * cphi) / vy + 0.5;
        if (std::fabs(fx - std::floor(fx + 0.5)) < 2e-3 || std::fabs(fy - std::floor(fy + 0.5)) < 2e-3)
          {
            degenerate = true;
            end_on_boundary = true;
            slack_v += weight * 1.5 * std::max(vx, vy);
          }
      }
    // all crossings of column boundaries (also beyond the chord: the end voxels are traced from face to face)
    std::vector<double> all;
    if (std::fabs(sphi) > 1e-9)
      for (int i = w.xmin - 3; i <= w.xmax + 2; ++i)
        all.push_back(((i + 0.5) * vx - s * cphi) / sphi);
    if (std::fabs(cphi) > 1e-9)
      for (int j = w.ymin - 3; j <= w.ymax + 2; ++j)
        all.push_back((s * sphi - (j + 0.5) * vy) / cphi);
    std::sort(all.begin(), all.end());
    double a_prev = amin, a_next = amax;
    std::vector<double> cuts = { amin };
    for (double a : all)
      {
        if (a <= amin)
          a_prev = a; // the last one wins
        else if (a < amax)
          cuts.push_back(a);
        else if (a_next == amax && a >= amax)
          a_next = a;
      }
    if (all.empty() || all.front() > amin)
      a_prev = amin;
    cuts.push_back(amax);
    for (std::size_t i = 0; i + 1 < cuts.size(); ++i)
      {
        const double len = cuts[i + 1] - cuts[i];
        const double am = 0.5 * (cuts[i] + cuts[i + 1]);
        const int x = (int)std::floor((s * cphi + am * sphi) / vx + 0.5), y = (int)std::floor((s * sphi - am * cphi) / vy + 0.5);
        double ext = 0;
        if (i == 0)
          ext += amin - a_prev;
        if (i + 2 == cuts.size())
          ext += a_next - amax;
        LoHi& c = cols[std::make_pair(y, x)];
        c.lo += weight * (len + (direct_plane && !end_on_boundary ? ext : 0.));
        c.hi += weight * (len + ext);
      }
  }

  void build()
  {
    const CartesianCoordinate3D<float> vs = w.image->get_voxel_size();
    const double shrink = w.blocks ? 5. : 0.; // the matrix keeps 5 voxels clear of the border for block scanners
    fov = std::min((std::min(w.xmax, -w.xmin) - shrink) * (double)vs.x(), (std::min(w.ymax, -w.ymin) - shrink) * (double)vs.y());
    exp.assign(w.nbins, ColMap());
    slack.assign(w.nbins, 0.);
    degen.assign(w.nbins, 0);
    tof = w.pdi->is_tof_data();
    if (tof)
      sigma = tof_delta_time_to_mm(w.pdi->get_scanner_ptr()->get_timing_resolution()) / 2.355;
    for (int seg = w.minSeg; seg <= w.maxSeg; ++seg)
      for (int v = w.minView; v <= w.maxView; ++v)
        for (int a = w.aMin(seg); a <= w.aMax(seg); ++a)
          for (int t = w.minT; t <= w.maxT; ++t)
            {
              const Bin bin(seg, v, a, t);
              double s, phi;
              s_phi(seg, v, a, t, s, phi);
              const double tanth = w.pdi->get_tantheta(bin), costh = 1 / std::sqrt(1 + tanth * tanth);
              const double s_inc = (actual_now ? 2 : 1) * (double)w.pdi->get_sampling_in_s(bin) / ntl;
              const int i = w.idx(seg, v, w.minK, a, t);
              bool dg = false;
              for (int j = 0; j < ntl; ++j)
                trace(s - s_inc * (ntl - 1) / 2. + j * s_inc, phi, 1. / (ntl * costh * vs.x()), tanth == 0, exp[i], dg, slack[i]);
              degen[i] = dg;
            }
  }

  // coverage of voxel c by the timing positions of the data, for the LOR of `bin`
  double coverage(const Bin& bin, const CartesianCoordinate3D<float>& mid, const CartesianCoordinate3D<float>& u, int z, int y, int x) const
  {
    const CartesianCoordinate3D<float> ph
        = w.image->get_physical_coordinates_for_indices(BasicCoordinate<3, int>(Coordinate3D<int>(z, y, x)));
    const double d = -((ph.z() - mid.z()) * (double)u.z() + (ph.y() - mid.y()) * (double)u.y() + (ph.x() - mid.x()) * (double)u.x());
    double c = 0;
    for (int k = w.minK; k <= w.maxK; ++k)
      c += 0.5
           * (std::erf((w.pdi->tof_bin_boundaries_mm[k].high_lim - d) / (std::sqrt(2.) * sigma))
              - std::erf((w.pdi->tof_bin_boundaries_mm[k].low_lim - d) / (std::sqrt(2.) * sigma)));
    return c;
  }

  struct Verdict
  {
    long bins = 0, crossing = 0, empty = 0, sum_bad = 0, col_bad = 0, not_compared = 0;
    std::set<int> views_with_empty_rows;
    double worst_sum = 0, worst_col = 0;
    std::string first;
  };

  // all rows of `pm` (set up for w) against the geometry
  Verdict check(const ProjMatrixByBin& pm) const
  {
    Verdict V;
    char buf[448];
    for (int seg = w.minSeg; seg <= w.maxSeg; ++seg)
      for (int v = w.minView; v <= w.maxView; ++v)
        for (int a = w.aMin(seg); a <= w.aMax(seg); ++a)
          for (int t = w.minT; t <= w.maxT; ++t)
            {
              const int i = w.idx(seg, v, w.minK, a, t);
              ++V.bins;
              std::map<std::pair<int, int>, double> got;
              std::map<std::pair<int, int>, std::set<int>> zs;
              std::set<int> allz;
              double sum = 0;
              for (int k = w.minK; k <= w.maxK; ++k)
                for (auto& e : get_row(pm, Bin(seg, v, a, t, k)))
                  {
                    got[std::make_pair(e.first[1], e.first[2])] += e.second;
                    allz.insert(e.first[0]);
                    sum += e.second;
                  }
              if (allz.empty())
                for (int z = w.zmin; z <= w.zmax; ++z)
                  allz.insert(z);
              // bounds per column
              double lo_tot = 0, hi_tot = 0, dev = 0;
              CartesianCoordinate3D<float> mid, u;
              const Bin bin(seg, v, a, t, 0);
              if (tof)
                {
                  LORInAxialAndNoArcCorrSinogramCoordinates<float> lor;
                  w.pdi->get_LOR(lor, bin);
                  const LORAs2Points<float> l2(lor);
                  mid = (l2.p1() + l2.p2()) * 0.5F;
                  const CartesianCoordinate3D<float> df = l2.p2() - mid;
                  u = df / static_cast<float>(norm(df));
                }
              std::set<std::pair<int, int>> keys;
              for (auto& kv : exp[i])
                keys.insert(kv.first);
              for (auto& kv : got)
                keys.insert(kv.first);
              for (auto& c : keys)
                {
                  const LoHi E = exp[i].count(c) ? exp[i].at(c) : LoHi();
                  const double G = got.count(c) ? got.at(c) : 0.;
                  double cmin = 1, cmax = 1;
                  if (tof)
                    {
                      cmin = 2;
                      cmax = 0;
                      for (int z : allz)
                        {
                          const double cv = coverage(bin, mid, u, z, c.first, c.second);
                          cmin = std::min(cmin, cv);
                          cmax = std::max(cmax, cv);
                        }
                    }
                  lo_tot += E.lo * cmin;
                  hi_tot += E.hi * cmax;
                  dev += std::max(0., std::max(E.lo * cmin - G, G - E.hi * cmax));
                }
              if (lo_tot > 0.1)
                ++V.crossing;
              const double tol = 0.005 * hi_tot + 0.005;
              const double sdev = std::max(0., std::max(lo_tot - sum, sum - hi_tot - slack[i]));
              bool bad = false;
              if (lo_tot > 0.1 && sum == 0)
                {
                  ++V.empty;
                  V.views_with_empty_rows.insert(v);
                  bad = true;
                }
              if (sdev > tol)
                {
                  ++V.sum_bad;
                  bad = true;
                }
              V.worst_sum = std::max(V.worst_sum, sdev);
              if (degen[i])
                ++V.not_compared;
              else
                {
                  if (dev > tol)
                    {
                      ++V.col_bad;
                      bad = true;
                    }
                  V.worst_col = std::max(V.worst_col, dev);
                }
              if (bad && V.first.empty())
                {
                  double s, phi;
                  s_phi(seg, v, a, t, s, phi);
                  std::snprintf(buf, sizeof buf, "first: seg %d view %d ax %d tang %d (s %.4g mm, phi %.4g rad): row sum %.5g, expected %.5g..%.5g (chord .. chord + rest of the end voxels, / (cos theta voxel_size.x)), column deviation %.3g",
                                seg, v, a, t, s, phi, sum, lo_tot, hi_tot, dev);
                  V.first = buf;
                }
            }
    return V;
  }
};

// the verdicts as oracle lines; returns true if everything is in order
static bool
geo_oracle_report(const GeoOracle::Verdict& V, const std::string& which, const std::string& where)
{
  char buf[640];
  std::snprintf(buf, sizeof buf, "ray-tracing matrix (%s): %ld of %ld bins whose LOR crosses the image field of view have an EMPTY row (in %d of the views) %s ",
                which.c_str(), V.empty, V.crossing, (int)V.views_with_empty_rows.size(), V.first.c_str());
  oracle(V.empty == 0, std::string(buf) + where);
  std::snprintf(buf, sizeof buf, "ray-tracing matrix (%s): for %ld of %ld bins the row sum is not between the chord length of the LOR in the field of view and that plus the rest of the two end voxels, / (cos theta voxel_size.x), within 0.5%% (worst %.3g) %s ",
                which.c_str(), V.sum_bad, V.bins, V.worst_sum, V.first.c_str());
  oracle(V.sum_bad == 0, std::string(buf) + where);
  std::snprintf(buf, sizeof buf, "ray-tracing matrix (%s): for %ld of %ld bins the sums over z of the row are not the lengths of the LOR in the voxel columns (end voxels: part of the chord .. full traversal) within 0.5%% (worst %.3g) %s ",
                which.c_str(), V.col_bad, V.bins - V.not_compared, V.worst_col, V.first.c_str());
  oracle(V.col_bad == 0, std::string(buf) + where);
  g_counts["geometry_oracle_rows_of_bins_checked"] += V.bins;
  g_counts["geometry_oracle_bins_crossing_the_fov"] += V.crossing;
  g_counts["geometry_oracle_bins_columns_not_compared_ray_along_voxel_boundary"] += V.not_compared;
  return V.empty == 0 && V.sum_bad == 0 && V.col_bad == 0;
}

// ------------------------------------------------------------------------------------------------ one matrix setting

struct Piece
{ // a set of bins given by membership flags over the canonical enumeration
  std::vector<char> in;
};

struct Run
{
  const World& w;
  vh::Rng& rng;
  std::vector<RowT> rows; // probe rows (same settings, separate object, cache off), canonical order
  int maxlen = 0;
  Run(const World& w_, vh::Rng& r_) : w(w_), rng(r_) {}

  std::vector<float> rand_img(int lo, int hi, int zero_pct)
  {
    std::vector<float> v(w.nvox);
    for (auto& x : v)
      x = rng.range(0, 99) < zero_pct ? 0.F : (float)rng.range(lo, hi);
    return v;
  }
  std::vector<float> rand_dat(int lo, int hi, int zero_pct)
  {
    std::vector<float> v(w.nbins);
    for (auto& x : v)
      x = rng.range(0, 99) < zero_pct ? 0.F : (float)rng.range(lo, hi);
    return v;
  }
  // exact-ish reference in double from the probe rows:  (A x)_b, magnitude
  void ref_fwd(const std::vector<float>& x, std::vector<double>& val, std::vector<double>& mag) const
  {
    val.assign(w.nbins, 0.);
    mag.assign(w.nbins, 0.);
    for (int b = 0; b < w.nbins; ++b)
      for (auto& e : rows[b])
        if (e.first[0] >= w.zmin && e.first[0] <= w.zmax)
          {
            const double xv = x[w.lin(e.first[0], e.first[1], e.first[2])];
            val[b] += xv * e.second;
            mag[b] += std::fabs(xv * e.second);
          }
  }
  void ref_bck(const std::vector<float>& y, const std::vector<char>& in, std::vector<double>& val, std::vector<double>& mag,
               std::vector<int>& cnt) const
  {
    val.assign(w.nvox, 0.);
    mag.assign(w.nvox, 0.);
    cnt.assign(w.nvox, 0);
    for (int b = 0; b < w.nbins; ++b)
      if (in[b] && y[b] != 0)
        for (auto& e : rows[b])
          if (e.first[0] >= w.zmin && e.first[0] <= w.zmax)
            {
              const int v = w.lin(e.first[0], e.first[1], e.first[2]);
              val[v] += double(y[b]) * e.second;
              mag[v] += std::fabs(double(y[b]) * e.second);
              ++cnt[v];
            }
  }
};

static std::string
relstr(const std::vector<AxTangPosNumbers>& l)
{
  std::ostringstream s;
  for (auto& p : l)
    s << " " << p[1] << "," << p[2];
  return s.str();
}

static void
run_setting(const World& w, const MSet& ms, vh::Rng& rng, bool thorough, int wid)
{
  Run R(w, rng);
  char buf[256];
  // ---- probe (rows + symmetries) and no-symmetry reference
  shared_ptr<ProjMatrixByBin> probe = make_matrix(ms, false, false);
  probe->set_up(w.pdi, w.image);
  shared_ptr<ProjMatrixByBin> ref = make_matrix(ms, false, true);
  ref->set_up(w.pdi, w.image);
  const DataSymmetriesForBins* sym = probe->get_symmetries_ptr();

  emit("cfg world=" + std::to_string(wid) + " " + w.desc + " | " + ms.desc(), "ok");
  emit("rowset", "ok");
  R.rows.assign(w.nbins, RowT());
  long row_out_of_grid = 0, row_dev = 0;
  double worst_dev = 0;
  w.for_bins([&](int s, int v, int k, int a, int t) {
    const Bin b(s, v, a, t, k);
    RowT r = get_row(*probe, b);
    const int i = w.idx(s, v, k, a, t);
    R.rows[i] = r;
    R.maxlen = std::max<int>(R.maxlen, r.size());
    std::string op = "row " + std::to_string(s) + " " + std::to_string(v) + " " + std::to_string(a) + " " + std::to_string(t) + " "
                     + std::to_string(k);
    for (auto& e : r)
      {
        std::snprintf(buf, sizeof buf, " %d,%d,%d:%a", e.first[0], e.first[1], e.first[2], (double)e.second);
        op += buf;
        if (e.first[1] < w.ymin || e.first[1] > w.ymax || e.first[2] < w.xmin || e.first[2] > w.xmax)
          ++row_out_of_grid; // the projectors index y and x unchecked
        if (e.first[0] < w.zmin || e.first[0] > w.zmax)
          g_counts["row_elements_outside_the_image_in_z"]++; // these exercise the z guard of forward_project/back_project
      }
    emit(op, std::to_string(i) + " " + std::to_string(r.size()));
    // the rows the projectors use must not depend on the symmetry settings (overlap with C03; library tolerance 2e-3)
    RowT r0 = get_row(*ref, b);
    std::map<std::array<int, 3>, double> m;
    double sum = 0, dev = 0;
    for (auto& e : r0)
      {
        m[e.first] += e.second;
        sum += std::fabs(e.second);
      }
    for (auto& e : r)
      m[e.first] -= e.second;
    for (auto& kv : m)
      dev += std::fabs(kv.second);
    if (dev > 1e-3 * sum + 1e-12)
      ++row_dev;
    if (sum > 0)
      worst_dev = std::max(worst_dev, dev / sum);
  });
  oracle(row_out_of_grid == 0, "rows contain voxels outside the image grid in y/x (" + std::to_string(row_out_of_grid) + ") " + w.desc
                                   + " | " + ms.desc());
  // informational only (C03's subject; LORs whose end points fall on a voxel boundary legitimately differ)
  g_counts["bins_whose_row_differs_from_the_no_symmetry_row_by_more_than_1e-3"] += row_dev;
  (void)worst_dev;
  // the rows of the ray-tracing matrix (with the symmetries of this setting, and without any) against the geometry of the
  // LORs: non-empty where the LOR crosses the field of view, row sum = chord, column sums = 2D lengths
  if (ms.type == 0)
    {
      const GeoOracle geo(w, ms.ntl, ms.cylfov, ms.actual);
      geo_oracle_report(geo.check(*probe), "rows the projectors use", w.desc + " | " + ms.desc());
      geo_oracle_report(geo.check(*ref), "rows without symmetries", w.desc + " | " + ms.desc());
    }

  // ---- symmetries as data
  emit("sym", "ok");
  std::vector<std::pair<int, int>> basics; // (view, seg)
  std::map<std::pair<int, int>, std::vector<ViewSegmentNumbers>> related;
  for (int s = w.minSeg; s <= w.maxSeg; ++s)
    for (int v = w.minView; v <= w.maxView; ++v)
      {
        const ViewSegmentNumbers vs(v, s);
        if (!static_cast<const DataSymmetriesForViewSegmentNumbers*>(sym)->is_basic(vs))
          continue;
        std::vector<ViewSegmentNumbers> rel;
        sym->get_related_view_segment_numbers(rel, vs);
        basics.push_back(std::make_pair(v, s));
        related[std::make_pair(v, s)] = rel;
        std::ostringstream op;
        op << "vs " << v << " " << s;
        for (auto& r : rel)
          op << " " << r.view_num() << "," << r.segment_num();
        emit(op.str(), std::to_string(rel.size()));
      }
  for (auto& bs : basics)
    for (int k = w.minK; k <= w.maxK; ++k)
      for (int t = w.minT; t <= w.maxT; ++t)
        for (int a = w.aMin(bs.second); a <= w.aMax(bs.second); ++a)
          {
            Bin bb(bs.second, bs.first, a, t, k);
            sym->find_basic_bin(bb);
            std::vector<AxTangPosNumbers> l;
            sym->get_related_bins_factorised(l, bb, w.aMin(bs.second), w.aMax(bs.second), w.minT, w.maxT);
            std::ostringstream op;
            op << "rel " << bs.first << " " << bs.second << " " << k << " " << a << " " << t << relstr(l);
            emit(op.str(), std::to_string(l.size()));
          }
  g_counts["row_sets"]++;
  g_counts["rows"] += w.nbins;

  // ---- a ProjData geometry smaller than the set-up geometry, and the related-position lists for ITS ranges
  World sw;
  bool have_sub = false;
  try
    {
      have_sub = make_sub_world(w, rng, sw);
    }
  catch (std::exception& e)
    {
      std::fprintf(g_orc, "NOTE smaller ProjData geometry could not be constructed (%s): %s\n", w.desc.c_str(), e.what());
    }
  oracle(have_sub, "ProjDataInfo::operator>= does not hold between the set-up geometry and a trimmed copy" + sw.desc);
  std::vector<int> big;      // sub index -> index in the set-up geometry
  std::vector<char> in_sub;  // membership flags over the set-up geometry
  if (have_sub)
    {
      std::ostringstream op;
      op << "sub " << sw.minSeg << " " << sw.maxSeg << " " << sw.minT << " " << sw.maxT;
      for (int s = sw.minSeg; s <= sw.maxSeg; ++s)
        op << " " << sw.aMin(s) << "," << sw.aMax(s);
      emit(op.str(), "ok " + std::to_string(sw.nbins));
      for (auto& bs : basics)
        if (bs.second >= sw.minSeg && bs.second <= sw.maxSeg)
          for (int k = sw.minK; k <= sw.maxK; ++k)
            for (int t = sw.minT; t <= sw.maxT; ++t)
              for (int a = sw.aMin(bs.second); a <= sw.aMax(bs.second); ++a)
                {
                  Bin bb(bs.second, bs.first, a, t, k);
                  sym->find_basic_bin(bb);
                  std::vector<AxTangPosNumbers> l;
                  sym->get_related_bins_factorised(l, bb, sw.aMin(bs.second), sw.aMax(bs.second), sw.minT, sw.maxT);
                  std::ostringstream o2;
                  o2 << "rel2 " << bs.first << " " << bs.second << " " << k << " " << a << " " << t << relstr(l);
                  emit(o2.str(), std::to_string(l.size()));
                }
      big.assign(sw.nbins, 0);
      in_sub.assign(w.nbins, 0);
      sw.for_bins([&](int s, int v, int k, int a, int t) {
        big[sw.idx(s, v, k, a, t)] = w.idx(s, v, k, a, t);
        in_sub[w.idx(s, v, k, a, t)] = 1;
      });
      g_counts["smaller_projdata_geometries"]++;
      g_counts["smaller_projdata_bins"] += sw.nbins;
    }

  // which subset does a (view, seg) belong to: via its basic pair (independent of find_basic_vs_nums_in_subset)
  auto basic_view_of = [&](int v, int s) {
    ViewSegmentNumbers vs(v, s);
    sym->find_basic_view_segment_numbers(vs);
    return vs.view_num();
  };
  auto subset_piece = [&](int i, int n) {
    std::vector<char> in(w.nbins, 0);
    w.for_bins([&](int s, int v, int k, int a, int t) {
      if ((basic_view_of(v, s) - w.minView) % n == i)
        in[w.idx(s, v, k, a, t)] = 1;
    });
    return in;
  };
  auto group_piece = [&](const std::vector<ViewSegmentNumbers>& rel, int k, int a0, int a1, int t0, int t1) {
    std::vector<char> in(w.nbins, 0);
    for (auto& r : rel)
      for (int a = a0; a <= a1; ++a)
        for (int t = t0; t <= t1; ++t)
          in[w.idx(r.segment_num(), r.view_num(), k, a, t)] = 1;
    return in;
  };
  const std::vector<char> all_in(w.nbins, 1);
  const int V = w.maxView - w.minView + 1;

  // ---- random inputs (shared by both cache modes)
  emit("grid " + std::to_string(w.zmin) + " " + std::to_string(w.zmax) + " " + std::to_string(w.ymin) + " " + std::to_string(w.ymax) + " "
           + std::to_string(w.xmin) + " " + std::to_string(w.xmax),
       "ok " + std::to_string(w.nvox));
  const std::vector<float> x = R.rand_img(-4, 4, 15), x2 = R.rand_img(-3, 3, 30), z0 = R.rand_img(1, 5, 0);
  const std::vector<float> y = R.rand_dat(-4, 4, 25), y2 = R.rand_dat(-3, 3, 40), p = R.rand_dat(5, 9, 0);
  emit("img x" + intlist(x), "ok " + std::to_string(w.nvox));
  emit("img z" + intlist(z0), "ok " + std::to_string(w.nvox));
  emit("dat y" + intlist(y), "ok " + std::to_string(w.nbins));
  emit("dat p" + intlist(p), "ok " + std::to_string(w.nbins));
  std::vector<float> ps, ys;
  if (have_sub)
    {
      ps.resize(sw.nbins);
      ys.resize(sw.nbins);
      for (int j = 0; j < sw.nbins; ++j)
        {
          ps[j] = (float)rng.range(5, 9);
          ys[j] = y[big[j]];
        }
      emit("dat ps" + intlist(ps), "ok " + std::to_string(sw.nbins));
      emit("dat ys" + intlist(ys), "ok " + std::to_string(sw.nbins));
    }
  shared_ptr<DiscretisedDensity<3, float>> X = w.make_img(x), X2 = w.make_img(x2), Z0 = w.make_img(z0);
  std::vector<float> xl(w.nvox); // 2x + x2
  for (int i = 0; i < w.nvox; ++i)
    xl[i] = 2 * x[i] + x2[i];
  shared_ptr<DiscretisedDensity<3, float>> XL = w.make_img(xl);
  std::vector<float> yl(w.nbins);
  for (int i = 0; i < w.nbins; ++i)
    yl[i] = 2 * y[i] + y2[i];
  ProjDataInMemory Y(w.exam, w.pdi), Y2(w.exam, w.pdi), YL(w.exam, w.pdi);
  w.fill(Y, y);
  w.fill(Y2, y2);
  w.fill(YL, yl);

  std::vector<double> rf, rfm;
  R.ref_fwd(x, rf, rfm);
  std::vector<double> a1, m1, a2, m2, a3, m3; // exact-ish projections and magnitudes of x, x2 and 2x+x2
  R.ref_fwd(x, a1, m1);
  R.ref_fwd(x2, a2, m2);
  R.ref_fwd(xl, a3, m3);

  const std::string where0 = w.desc + " | " + ms.desc();

  for (int cache = 1; cache >= 0; --cache)
    {
      const std::string where = where0 + " cache=" + std::to_string(cache);
      shared_ptr<ProjMatrixByBin> pm = make_matrix(ms, cache != 0, false);
      ProjectorByBinPairUsingProjMatrixByBin pair(pm);
      if (pair.set_up(w.pdi, w.image) != Succeeded::yes)
        {
          oracle(false, "projector pair set_up failed " + where);
          continue;
        }
      shared_ptr<ForwardProjectorByBin> fwd = pair.get_forward_projector_sptr();
      shared_ptr<BackProjectorByBin> bck = pair.get_back_projector_sptr();
      shared_ptr<DataSymmetriesForViewSegmentNumbers> symvs(fwd->get_symmetries_used()->clone());
      emit(std::string("cache ") + (cache ? "1" : "0"), "ok");
      g_counts[cache ? "configs_cache_on" : "configs_cache_off"]++;

      auto forward = [&](const std::vector<float>& start, const DiscretisedDensity<3, float>& img, int i, int n, bool zero,
                         std::vector<float>& out) {
        ProjDataInMemory P(w.exam, w.pdi);
        w.fill(P, start);
        try
          {
            fwd->forward_project(P, img, i, n, zero);
          }
        catch (...)
          {
            return false;
          }
        out = w.read(P);
        return true;
      };
      auto backward = [&](const ProjData& D, int i, int n) { // fresh target
        shared_ptr<DiscretisedDensity<3, float>> im(w.image->get_empty_copy());
        im->fill(3.F); // must be overwritten
        bck->back_project(*im, D, i, n);
        return w.read_img(*im);
      };
      auto dotd = [&](const std::vector<float>& a, const std::vector<float>& b) {
        double s = 0;
        for (std::size_t i = 0; i < a.size(); ++i)
          s += double(a[i]) * b[i];
        return s;
      };
      // tolerance for <Ax,y> = <x,A'y> over a piece: float accumulation in both projections
      auto adj_tol = [&](const std::vector<char>& in, const std::vector<float>& xx, const std::vector<float>& yy) {
        double M = 0;
        std::vector<double> v, m;
        std::vector<int> c;
        R.ref_bck(yy, in, v, m, c);
        int C = 0;
        for (int i = 0; i < w.nvox; ++i)
          {
            M += std::fabs(xx[i]) * m[i];
            C = std::max(C, c[i]);
          }
        return 4 * EPS * (R.maxlen + C + 2) * M;
      };

      // ================= whole data: differential + matrix-product oracle
      std::vector<float> F;
      bool okF = forward(p, *X, 0, 1, true, F);
      emit("fwd F x p 0 1 1", okF ? hexlist(F) : "err");
      std::vector<float> B = backward(Y, 0, 1);
      {
        // matrix product, forward: every bin = sum over its row
        long bad = 0, bad_tof_zero = 0;
        for (int s = w.minSeg; s <= w.maxSeg && okF; ++s)
          for (int v = w.minView; v <= w.maxView; ++v)
            for (int k = w.minK; k <= w.maxK; ++k)
              for (int a = w.aMin(s); a <= w.aMax(s); ++a)
                for (int t = w.minT; t <= w.maxT; ++t)
                  {
                    const int i = w.idx(s, v, k, a, t);
                    if (std::fabs(F[i] - rf[i]) > 4 * EPS * (R.rows[i].size() + 1) * rfm[i])
                      {
                        ++bad;
                        if (k != 0 && F[i] == 0.F)
                          ++bad_tof_zero;
                      }
                  }
        std::snprintf(buf, sizeof buf, "forward projection differs from the sum over the matrix row for %ld of %d bins ", bad, w.nbins);
        if (bad > 0 && bad == bad_tof_zero && w.blocks && w.tof && !cache)
          known_candidate("explicit-symmetries-branch-skips-bins-with-nonzero-timing-pos:BlocksOnCylindrical:cache-disabled",
                          std::string(buf)
                              + "(all of them have timing_pos != 0 and are left 0): DataSymmetriesForBins_PET_CartesianGrid::"
                                "get_related_bins_factorised builds its comparison bin without the timing position, so "
                                "actual_forward_project/actual_back_project (cache disabled) never process TOF bins != 0; "
                              + where);
        else
          oracle(bad == 0 && okF, std::string(buf) + where);
        // matrix product, back
        std::vector<double> v, m;
        std::vector<int> c;
        R.ref_bck(y, all_in, v, m, c);
        long badb = 0;
        for (int i = 0; i < w.nvox; ++i)
          if (std::fabs(B[i] - v[i]) > 4 * EPS * (c[i] + 1) * m[i])
            ++badb;
        std::snprintf(buf, sizeof buf, "back projection differs from the transposed matrix product for %ld of %d voxels ", badb, w.nvox);
        if (badb > 0 && w.blocks && w.tof && !cache && bad == bad_tof_zero && bad > 0)
          known_candidate("explicit-symmetries-branch-skips-bins-with-nonzero-timing-pos:BlocksOnCylindrical:cache-disabled",
                          std::string(buf) + where);
        else
          oracle(badb == 0, std::string(buf) + where);
      }
      // adjointness, whole
      {
        const double l = dotd(F, y), r = dotd(x, B), tol = adj_tol(all_in, x, y);
        std::snprintf(buf, sizeof buf, "adjoint whole: <Ax,y>=%.9g <x,A'y>=%.9g tol=%.3g ", l, r, tol);
        oracle(okF && std::fabs(l - r) <= tol, std::string(buf) + where);
      }
      // linearity (forward in the image, back in the data)
      {
        std::vector<float> F2, FL;
        const std::vector<float> zeros(w.nbins, 0.F);
        bool ok = forward(zeros, *X2, 0, 1, true, F2) && forward(zeros, *XL, 0, 1, true, FL) && okF;
        long bad = 0;
        for (int i = 0; i < w.nbins && ok; ++i)
          if (std::fabs(double(FL[i]) - (2. * F[i] + F2[i])) > 4 * EPS * (R.rows[i].size() + 2) * (2 * m1[i] + m2[i] + m3[i]))
            ++bad;
        oracle(ok && bad == 0, "forward projection not linear: A(2x+x') != 2Ax + Ax' for " + std::to_string(bad) + " bins " + where);
        std::vector<float> B2 = backward(Y2, 0, 1), BL = backward(YL, 0, 1);
        std::vector<double> v1, n1, v2, n2, v3, n3;
        std::vector<int> c1, c2, c3;
        R.ref_bck(y, all_in, v1, n1, c1);
        R.ref_bck(y2, all_in, v2, n2, c2);
        R.ref_bck(yl, all_in, v3, n3, c3);
        long badb = 0;
        for (int i = 0; i < w.nvox; ++i)
          if (std::fabs(double(BL[i]) - (2. * B[i] + B2[i])) > 4 * EPS * (c1[i] + c2[i] + c3[i] + 3) * (2 * n1[i] + n2[i] + n3[i]))
            ++badb;
        oracle(badb == 0, "back projection not linear: A'(2y+y') != 2A'y + A'y' for " + std::to_string(badb) + " voxels " + where);
      }

      // ================= every (subset_num, num_subsets): oracle on the implementation
      std::vector<int> ns;
      for (int n = 1; n <= V; ++n)
        ns.push_back(n);
      if (thorough)
        ns.push_back(V + 1); // some subsets empty
      for (int n : ns)
        {
          ProjDataInMemory Pacc(w.exam, w.pdi); // successive subsets without zeroing into the same data
          w.fill(Pacc, p);
          std::vector<double> bsum(w.nvox, 0.);
          shared_ptr<DiscretisedDensity<3, float>> acc_img(w.image->get_empty_copy());
          for (int i = 0; i < n; ++i)
            {
              const std::vector<char> in = subset_piece(i, n);
              std::vector<float> Fz, Fk;
              const bool ok1 = forward(p, *X, i, n, true, Fz), ok2 = forward(p, *X, i, n, false, Fk);
              long frame_bad = 0, val_bad = 0;
              for (int b = 0; b < w.nbins && ok1 && ok2; ++b)
                {
                  if (!in[b])
                    {
                      // frame: untouched (zero=false), or zero (zero && n>1).  n == 1: every bin is in the subset.
                      if (Fk[b] != p[b] || Fz[b] != 0.F)
                        ++frame_bad;
                    }
                  else if (Fz[b] != F[b] || Fk[b] != F[b])
                    ++val_bad; // piece = restriction of the whole (same arithmetic, so exactly)
                }
              oracle(ok1 && ok2 && frame_bad == 0, "frame of forward_project(subset " + std::to_string(i) + "/" + std::to_string(n)
                                                        + "): " + std::to_string(frame_bad) + " bins outside the subset changed (zero=false) or not zero (zero=true) " + where);
              oracle(ok1 && ok2 && val_bad == 0, "forward_project(subset " + std::to_string(i) + "/" + std::to_string(n) + ") differs from the whole projection on "
                                                      + std::to_string(val_bad) + " bins of the subset " + where);
              // adjointness on the subset
              const std::vector<float> Bi = backward(Y, i, n);
              if (ok1)
                {
                  const double l = dotd(Fz, y) , r = dotd(x, Bi), tol = adj_tol(in, x, y);
                  // for n == 1 and zero=true the data are not zeroed but fully overwritten
                  std::snprintf(buf, sizeof buf, "adjoint subset %d/%d: <Ax,y>=%.9g <x,A'y>=%.9g tol=%.3g ", i, n, l, r, tol);
                  oracle(std::fabs(l - r) <= tol, std::string(buf) + where);
                }
              for (int v = 0; v < w.nvox; ++v)
                bsum[v] += Bi[v];
              fwd->forward_project(Pacc, *X, i, n, false);
            }
          bck->start_accumulating_in_new_target();
          for (int i = 0; i < n; ++i)
            bck->back_project(Y, i, n); // accumulates in the same target
          const std::vector<float> Facc = w.read(Pacc);
          long bad = 0;
          for (int b = 0; b < w.nbins && okF; ++b)
            if (Facc[b] != F[b])
              ++bad;
          oracle(okF && bad == 0, "forward projecting the " + std::to_string(n) + " subsets one after the other (zero=false) differs from projecting at once on "
                                      + std::to_string(bad) + " bins " + where);
          bck->get_output(*acc_img);
          const std::vector<float> Bacc = w.read_img(*acc_img);
          std::vector<double> v, m;
          std::vector<int> c;
          R.ref_bck(y, all_in, v, m, c);
          long badb = 0, badc = 0;
          for (int i = 0; i < w.nvox; ++i)
            {
              if (std::fabs(bsum[i] - B[i]) > 8 * EPS * (c[i] + n + 1) * m[i])
                ++badb;
              if (std::fabs(double(Bacc[i]) - B[i]) > 8 * EPS * (c[i] + 1) * m[i])
                ++badc;
            }
          oracle(badb == 0, "sum of the back projections of the " + std::to_string(n) + " subsets differs from back projecting at once on "
                                + std::to_string(badb) + " voxels " + where);
          oracle(badc == 0, "back projecting the " + std::to_string(n) + " subsets into one target (accumulation) differs from back projecting at once on "
                                + std::to_string(badc) + " voxels " + where);
          g_counts["subset_pairs"] += n;
        }

      // ================= differential: a sample of (subset_num, num_subsets, zero), chained without zeroing
      {
        std::vector<std::array<int, 3>> sample;
        const int n1 = V >= 2 ? rng.range(2, V) : 1;
        sample.push_back({ rng.range(0, n1 - 1), n1, 1 });
        sample.push_back({ rng.range(0, n1 - 1), n1, 0 });
        if (V >= 3)
          sample.push_back({ rng.range(0, 2), 3, (int)rng.coin() });
        sample.push_back({ 0, 1, 0 });
        for (auto& sp : sample)
          {
            std::vector<float> out;
            const bool ok = forward(p, *X, sp[0], sp[1], sp[2] != 0, out);
            std::snprintf(buf, sizeof buf, "fwd S x p %d %d %d", sp[0], sp[1], sp[2]);
            emit(buf, ok ? hexlist(out) : "err");
          }
        // chain: subsets of n2 one after the other into the same data, no zeroing
        const int n2 = V >= 2 ? 2 : 1;
        ProjDataInMemory P(w.exam, w.pdi);
        w.fill(P, p);
        std::string prev = "p";
        for (int i = 0; i < n2; ++i)
          {
            fwd->forward_project(P, *X, i, n2, false);
            const std::string name = "C" + std::to_string(i);
            std::snprintf(buf, sizeof buf, "fwd %s x %s %d %d 0", name.c_str(), prev.c_str(), i, n2);
            emit(buf, hexlist(w.read(P)));
            prev = name;
          }
        // error branches of forward_project(ProjData&, subset_num, num_subsets, zero)
        static const int bad_args[][2] = { { -1, 2 }, { 2, 2 }, { 0, 0 }, { 3, 1 }, { -1, 1 } };
        for (auto& ba : bad_args)
          {
            std::vector<float> out;
            const bool ok = forward(p, *X, ba[0], ba[1], true, out);
            std::snprintf(buf, sizeof buf, "fwd E x p %d %d 1", ba[0], ba[1]);
            emit(buf, ok ? hexlist(out) : "err");
            oracle(!ok, "forward_project accepted subset_num=" + std::to_string(ba[0]) + " num_subsets=" + std::to_string(ba[1]) + " " + where);
          }
      }

      // ================= related-viewgram groups and sub-ranges
      {
        const int ngroups = thorough ? 6 : 3;
        for (int gi = 0; gi < ngroups + 1; ++gi)
          {
            const std::pair<int, int> bs = basics[rng.range(0, (int)basics.size() - 1)];
            const int k = rng.range(w.minK, w.maxK);
            const std::vector<ViewSegmentNumbers>& rel = related[bs];
            int a0 = w.aMin(bs.second), a1 = w.aMax(bs.second), t0 = w.minT, t1 = w.maxT;
            if (gi > 0)
              { // random sub-range (gi == 0: the full range)
                a0 = rng.range(w.aMin(bs.second), w.aMax(bs.second));
                a1 = rng.range(a0, w.aMax(bs.second));
                t0 = rng.range(w.minT, w.maxT);
                t1 = rng.range(t0, w.maxT);
                if (gi == 1)
                  { // axial sub-range only: the (viewgrams, min_ax, max_ax) overloads
                    t0 = w.minT;
                    t1 = w.maxT;
                  }
              }
            auto fwd_call = [&](stir::RelatedViewgrams<float>& v) {
              if (gi == 0)
                fwd->forward_project(v);
              else if (gi == 1)
                fwd->forward_project(v, a0, a1);
              else
                fwd->forward_project(v, a0, a1, t0, t1);
            };
            auto bck_call = [&](const stir::RelatedViewgrams<float>& v) {
              if (gi == 0)
                bck->back_project(v);
              else if (gi == 1)
                bck->back_project(v, a0, a1);
              else
                bck->back_project(v, a0, a1, t0, t1);
            };
            const std::vector<char> in = group_piece(rel, k, a0, a1, t0, t1);
            // rel lists for this very range, as the projector will ask for them
            for (int t = t0; t <= t1; ++t)
              for (int a = a0; a <= a1; ++a)
                {
                  Bin bb(bs.second, bs.first, a, t, k);
                  sym->find_basic_bin(bb);
                  std::vector<AxTangPosNumbers> l;
                  sym->get_related_bins_factorised(l, bb, a0, a1, t0, t1);
                  std::ostringstream op;
                  op << "relr " << a << " " << t << relstr(l);
                  emit(op.str(), std::to_string(l.size()));
                }
            // forward: viewgrams taken from the pre-filled data, so that the frame inside the viewgrams is visible
            ProjDataInMemory P(w.exam, w.pdi);
            w.fill(P, p);
            ViewSegmentNumbers vsk(bs.first, bs.second);
            stir::RelatedViewgrams<float> vgs = P.get_related_viewgrams(vsk, symvs, false, k);
            fwd->set_input(*X);
            fwd_call(vgs);
            std::vector<float> ans;
            long frame_bad = 0, val_bad = 0;
            double lhs = 0;
            for (stir::RelatedViewgrams<float>::const_iterator it = vgs.begin(); it != vgs.end(); ++it)
              for (int a = w.aMin(it->get_segment_num()); a <= w.aMax(it->get_segment_num()); ++a)
                for (int t = w.minT; t <= w.maxT; ++t)
                  {
                    const float val = (*it)[a][t];
                    ans.push_back(val);
                    const int i = w.idx(it->get_segment_num(), it->get_view_num(), it->get_timing_pos_num(), a, t);
                    if (a < a0 || a > a1 || t < t0 || t > t1)
                      {
                        if (val != p[i])
                          ++frame_bad;
                      }
                    else
                      {
                        if (okF && val != F[i])
                          ++val_bad;
                        lhs += double(val) * y[i];
                      }
                  }
            std::snprintf(buf, sizeof buf, "fwdg G x p %d %d %d %d %d %d %d", bs.first, bs.second, k, a0, a1, t0, t1);
            emit(buf, hexlist(ans));
            std::snprintf(buf, sizeof buf, " group view=%d seg=%d tof=%d ax=%d..%d tang=%d..%d ", bs.first, bs.second, k, a0, a1, t0, t1);
            const std::string g = buf;
            oracle(frame_bad == 0, "forward_project(viewgrams, sub-range) changed " + std::to_string(frame_bad) + " bins outside the range" + g + where);
            // known-candidate class (see the whole-data check above): blocks geometry, TOF bin != 0, cache disabled:
            // the explicit-symmetries branch processes no position at all; signature = every bin of the range kept its
            // pre-filled value and nothing is back projected
            bool unprocessed = w.blocks && w.tof && !cache && k != 0;
            for (stir::RelatedViewgrams<float>::const_iterator it = vgs.begin(); unprocessed && it != vgs.end(); ++it)
              for (int a = a0; a <= a1; ++a)
                for (int t = t0; t <= t1; ++t)
                  if ((*it)[a][t] != p[w.idx(it->get_segment_num(), it->get_view_num(), it->get_timing_pos_num(), a, t)])
                    unprocessed = false;
            if (!unprocessed)
              oracle(val_bad == 0, "forward_project(viewgrams, sub-range) differs from the whole projection on " + std::to_string(val_bad) + " bins" + g + where);
            // back of the same piece, accumulated twice on top of a non-zero start (set_up clones the values)
            bck->set_up(w.pdi, Z0);
            emit("bsetup z", "ok");
            stir::RelatedViewgrams<float> yv = Y.get_related_viewgrams(vsk, symvs, false, k);
            // (the range-specific rel lists are consumed by the first op that uses them: send them again)
            auto send_relr = [&]() {
              for (int t = t0; t <= t1; ++t)
                for (int a = a0; a <= a1; ++a)
                  {
                    Bin bb(bs.second, bs.first, a, t, k);
                    sym->find_basic_bin(bb);
                    std::vector<AxTangPosNumbers> l;
                    sym->get_related_bins_factorised(l, bb, a0, a1, t0, t1);
                    std::ostringstream op;
                    op << "relr " << a << " " << t << relstr(l);
                    emit(op.str(), std::to_string(l.size()));
                  }
            };
            send_relr();
            bck_call(yv);
            std::snprintf(buf, sizeof buf, "bgrp y %d %d %d %d %d %d %d", bs.first, bs.second, k, a0, a1, t0, t1);
            emit(buf, "ok");
            shared_ptr<DiscretisedDensity<3, float>> o1(w.image->get_empty_copy());
            bck->get_output(*o1);
            emit("bout", hexlist(w.read_img(*o1)));
            bck->start_accumulating_in_new_target();
            emit("bstart", "ok");
            send_relr();
            bck_call(yv);
            emit(buf, "ok");
            shared_ptr<DiscretisedDensity<3, float>> o2(w.image->get_empty_copy());
            bck->get_output(*o2);
            const std::vector<float> G1 = w.read_img(*o2);
            emit("bout", hexlist(G1));
            send_relr();
            bck_call(yv);
            emit(buf, "ok");
            shared_ptr<DiscretisedDensity<3, float>> o3(w.image->get_empty_copy());
            bck->get_output(*o3);
            const std::vector<float> G2 = w.read_img(*o3);
            emit("bout", hexlist(G2));
            // oracle: start_accumulating resets (first output = z + piece, second = piece), accumulation doubles
            const std::vector<float> O1 = w.read_img(*o1);
            std::vector<double> v, m;
            std::vector<int> c;
            R.ref_bck(y, in, v, m, c);
            long bad1 = 0, bad2 = 0;
            for (int i = 0; i < w.nvox; ++i)
              {
                if (std::fabs(double(O1[i]) - (double(z0[i]) + G1[i])) > 8 * EPS * (c[i] + 1) * (m[i] + z0[i]))
                  ++bad1;
                if (std::fabs(double(G2[i]) - 2. * G1[i]) > 16 * EPS * (c[i] + 1) * m[i])
                  ++bad2;
              }
            oracle(bad1 == 0, "back_project without start_accumulating_in_new_target does not add to the existing target on " + std::to_string(bad1) + " voxels" + g + where);
            oracle(bad2 == 0, "second back_project into the same target does not accumulate on " + std::to_string(bad2) + " voxels" + g + where);
            const double r = dotd(x, G1), tol = adj_tol(in, x, y);
            std::snprintf(buf, sizeof buf, "adjoint: <Ax,y>=%.9g <x,A'y>=%.9g tol=%.3g", lhs, r, tol);
            for (int i = 0; i < w.nvox && unprocessed; ++i)
              if (G1[i] != 0.F)
                unprocessed = false;
            if (unprocessed)
              known_candidate("explicit-symmetries-branch-skips-bins-with-nonzero-timing-pos:BlocksOnCylindrical:cache-disabled",
                              "forward_project/back_project(viewgrams, sub-range) process no bin" + g + where);
            else
              oracle(std::fabs(lhs - r) <= tol, std::string(buf) + g + where);
            if (gi == 0 && !unprocessed)
              { // linearity on a symmetry group of viewgrams, with the arithmetic of RelatedViewgrams itself
                stir::RelatedViewgrams<float> e = vgs.get_empty_copy();
                bool okv = e.has_same_characteristics(vgs) && e.get_num_viewgrams() == vgs.get_num_viewgrams() && e.find_max() == 0.F
                           && e.find_min() == 0.F;
                stir::RelatedViewgrams<float> v1 = e, v2 = e, vl = e;
                fwd->set_input(*X);
                fwd->forward_project(v1);
                fwd->set_input(*X2);
                fwd->forward_project(v2);
                fwd->set_input(*XL);
                fwd->forward_project(vl);
                stir::RelatedViewgrams<float> comb = v1;
                comb *= 2.F;
                comb += v2;
                long badl = 0, badi = 0;
                stir::RelatedViewgrams<float>::const_iterator ic = comb.begin(), il = vl.begin(), i1 = v1.begin();
                float vmax = -1e30F, vmin = 1e30F;
                for (; ic != comb.end(); ++ic, ++il, ++i1)
                  for (int a = w.aMin(ic->get_segment_num()); a <= w.aMax(ic->get_segment_num()); ++a)
                    for (int t = w.minT; t <= w.maxT; ++t)
                      {
                        const int i = w.idx(ic->get_segment_num(), ic->get_view_num(), ic->get_timing_pos_num(), a, t);
                        if (std::fabs(double((*ic)[a][t]) - (*il)[a][t]) > 4 * EPS * (R.rows[i].size() + 2) * (2 * m1[i] + m2[i] + m3[i]))
                          ++badl;
                        if (okF && (*i1)[a][t] != F[i])
                          ++badi;
                        vmax = std::max(vmax, (*i1)[a][t]);
                        vmin = std::min(vmin, (*i1)[a][t]);
                      }
                oracle(okv, "RelatedViewgrams::get_empty_copy is not an empty copy with the same characteristics" + g + where);
                oracle(badl == 0, "related viewgrams: A(2x+x') != 2*Ax += Ax' (RelatedViewgrams arithmetic) on " + std::to_string(badl) + " bins" + g + where);
                oracle(badi == 0, "forward_project(related viewgrams) differs from the whole projection on " + std::to_string(badi) + " bins" + g + where);
                oracle(v1.find_max() == vmax && v1.find_min() == vmin, "RelatedViewgrams::find_max/find_min wrong" + g + where);
                // (A x) - (A x) = 0, (A x)*1 = A x, /=, fill, ==
                stir::RelatedViewgrams<float> z = v1;
                z -= v1;
                stir::RelatedViewgrams<float> one = e;
                one.fill(3.F);
                one /= 3.F;
                stir::RelatedViewgrams<float> q = v1;
                q *= one;
                stir::RelatedViewgrams<float> q2 = v1;
                q2 += 1.F;
                q2 -= 1.F; // small integers + float: exact only up to rounding, compare with tolerance below
                double dmax = 0;
                stir::RelatedViewgrams<float>::const_iterator iq = q2.begin();
                for (i1 = v1.begin(); i1 != v1.end(); ++i1, ++iq)
                  for (int a = w.aMin(i1->get_segment_num()); a <= w.aMax(i1->get_segment_num()); ++a)
                    for (int t = w.minT; t <= w.maxT; ++t)
                      dmax = std::max(dmax, std::fabs(double((*iq)[a][t]) - (*i1)[a][t]));
                stir::RelatedViewgrams<float> h = v1;
                h /= one;
                oracle(z.find_max() == 0.F && z.find_min() == 0.F && q == v1 && !(q != v1) && h == v1 && one.find_max() == 1.F && one.find_min() == 1.F
                           && dmax <= 4 * EPS * (std::max(std::fabs(vmax), std::fabs(vmin)) + 1),
                       "RelatedViewgrams arithmetic (-=, fill, /=, *=, +=float, ==) inconsistent" + g + where);
                if (vmax != vmin)
                  {
                    stir::RelatedViewgrams<float> dfr = v1;
                    dfr *= 2.F;
                    oracle(dfr != v1 && !(dfr == v1), "RelatedViewgrams::operator== does not see a difference" + g + where);
                  }
              }
            g_counts[gi == 0 ? "groups_full_range" : "groups_sub_range"]++;
          }
        // every related group x timing position, full range: adjointness + additivity over groups (oracle only)
        {
          std::vector<double> bsum(w.nvox, 0.);
          double lsum = 0;
          for (auto& bs : basics)
            for (int k = w.minK; k <= w.maxK; ++k)
              {
                const std::vector<ViewSegmentNumbers>& rel = related[bs];
                const std::vector<char> in = group_piece(rel, k, w.aMin(bs.second), w.aMax(bs.second), w.minT, w.maxT);
                ViewSegmentNumbers vsk(bs.first, bs.second);
                stir::RelatedViewgrams<float> yv = Y.get_related_viewgrams(vsk, symvs, false, k);
                bck->start_accumulating_in_new_target();
                bck->back_project(yv);
                shared_ptr<DiscretisedDensity<3, float>> o(w.image->get_empty_copy());
                bck->get_output(*o);
                const std::vector<float> G = w.read_img(*o);
                double l = 0;
                for (int b = 0; b < w.nbins && okF; ++b)
                  if (in[b])
                    l += double(F[b]) * y[b];
                const double r = dotd(x, G), tol = adj_tol(in, x, y);
                std::snprintf(buf, sizeof buf, "adjoint related viewgrams view=%d seg=%d tof=%d: <Ax,y>=%.9g <x,A'y>=%.9g tol=%.3g ", bs.first,
                              bs.second, k, l, r, tol);
                oracle(okF && std::fabs(l - r) <= tol, std::string(buf) + where);
                for (int v = 0; v < w.nvox; ++v)
                  bsum[v] += G[v];
                lsum += l;
                g_counts["groups_all"]++;
              }
          std::vector<double> v, m;
          std::vector<int> c;
          R.ref_bck(y, all_in, v, m, c);
          long bad = 0;
          for (int i = 0; i < w.nvox; ++i)
            if (std::fabs(bsum[i] - B[i]) > 8 * EPS * (c[i] + basics.size() * (w.maxK - w.minK + 1) + 1) * m[i])
              ++bad;
          oracle(bad == 0, "sum of the back projections of all related-viewgram groups differs from back projecting at once on " + std::to_string(bad) + " voxels " + where);
        }
      }

      // ================= back projector state machine, differential
      {
        bck->set_up(w.pdi, Z0);
        emit("bsetup z", "ok");
        const int n = V >= 2 ? rng.range(2, std::min(V, 4)) : 1;
        const int i = rng.range(0, n - 1);
        auto out = [&]() {
          shared_ptr<DiscretisedDensity<3, float>> o(w.image->get_empty_copy());
          bck->get_output(*o);
          emit("bout", hexlist(w.read_img(*o)));
        };
        bck->back_project(Y, i, n); // no start: accumulates on top of the clone of z
        std::snprintf(buf, sizeof buf, "bsub y %d %d", i, n);
        emit(buf, "ok");
        out();
        bck->start_accumulating_in_new_target();
        emit("bstart", "ok");
        out();
        bck->back_project(Y, 0, 1);
        emit("bsub y 0 1", "ok");
        out();
        const int j = rng.range(0, n - 1);
        bck->back_project(Y, j, n);
        std::snprintf(buf, sizeof buf, "bsub y %d %d", j, n);
        emit(buf, "ok");
        out();
        shared_ptr<DiscretisedDensity<3, float>> im(w.image->get_empty_copy());
        im->fill(7.F);
        bck->back_project(*im, Y, i, n); // = start; back_project; get_output
        std::snprintf(buf, sizeof buf, "binto y %d %d", i, n);
        emit(buf, hexlist(w.read_img(*im)));
        out();
      }

      // the known class (see the whole-data check): the implementation does not compute the matrix product there;
      // checks against the rows are not repeated for it, checks of the implementation against itself are
      const bool known_class = w.blocks && w.tof && !cache;
      auto out_img = [&]() {
        shared_ptr<DiscretisedDensity<3, float>> o(w.image->get_empty_copy());
        bck->get_output(*o);
        return w.read_img(*o);
      };

      // ================= ProjData smaller than the geometry the projectors were set up with
      if (have_sub)
        {
          const std::string wsub = sw.desc.substr(w.desc.size()) + " " + where;
          auto forward_sub = [&](const std::vector<float>& start, const DiscretisedDensity<3, float>& img, int i, int n, bool zero,
                                 std::vector<float>& out) {
            ProjDataInMemory P(sw.exam, sw.pdi);
            sw.fill(P, start);
            try
              {
                fwd->forward_project(P, img, i, n, zero);
              }
            catch (...)
              {
                return false;
              }
            out = sw.read(P);
            return true;
          };
          std::vector<float> Fs;
          const bool okS = forward_sub(ps, *X, 0, 1, true, Fs);
          emit("fwd2 Fs x ps 0 1 1", okS ? hexlist(Fs) : "err");
          long bad = 0;
          for (int j = 0; j < sw.nbins && okS && okF; ++j)
            if (Fs[j] != F[big[j]])
              ++bad;
          oracle(okS, "forward_project refuses (throws for) a ProjData that is smaller than the set-up geometry although ProjDataInfo::operator>= holds" + wsub);
          oracle(!okS || (okF && bad == 0), "forward projection into a ProjData smaller than the set-up geometry differs from the restriction of the whole-data projection on "
                                                + std::to_string(bad) + " of " + std::to_string(sw.nbins) + " bins" + wsub);
          // a subset of the smaller data, with and without zeroing
          const int n = V >= 2 ? rng.range(2, std::min(V, 4)) : 1, i = rng.range(0, n - 1);
          for (int zero = 0; zero <= 1; ++zero)
            {
              std::vector<float> Ss;
              const bool ok = forward_sub(ps, *X, i, n, zero != 0, Ss);
              std::snprintf(buf, sizeof buf, "fwd2 Ss x ps %d %d %d", i, n, zero);
              emit(buf, ok ? hexlist(Ss) : "err");
              long frame_bad = 0, val_bad = 0;
              if (ok && okF)
                sw.for_bins([&](int s, int v, int k, int a, int t) {
                  const int j = sw.idx(s, v, k, a, t);
                  if ((basic_view_of(v, s) - w.minView) % n == i)
                    {
                      if (Ss[j] != F[big[j]])
                        ++val_bad;
                    }
                  else if (Ss[j] != ((zero && n > 1) ? 0.F : ps[j]))
                    ++frame_bad;
                });
              oracle(!okS || (ok && okF && frame_bad == 0 && val_bad == 0),
                     "forward_project(smaller ProjData, subset " + std::to_string(i) + "/" + std::to_string(n) + ", zero=" + std::to_string(zero)
                         + "): " + std::to_string(val_bad) + " bins of the subset differ from the whole-data projection, " + std::to_string(frame_bad)
                         + " bins outside the subset are not " + (zero && n > 1 ? "zero" : "unchanged") + wsub);
            }
          // back projection of the smaller data: = the transposed matrix product over its bins; adjoint to the forward projection
          ProjDataInMemory Ys(sw.exam, sw.pdi);
          sw.fill(Ys, ys);
          bck->set_up(w.pdi, Z0);
          emit("bsetup z", "ok");
          bck->start_accumulating_in_new_target();
          emit("bstart", "ok");
          bck->back_project(Ys, 0, 1);
          emit("bsub2 ys 0 1", "ok");
          const std::vector<float> Bs = out_img();
          emit("bout", hexlist(Bs));
          std::vector<double> v, m;
          std::vector<int> c;
          R.ref_bck(y, in_sub, v, m, c);
          long badb = 0;
          for (int q = 0; q < w.nvox; ++q)
            if (std::fabs(Bs[q] - v[q]) > 4 * EPS * (c[q] + 1) * m[q])
              ++badb;
          if (!known_class)
            oracle(badb == 0, "back projection of a ProjData smaller than the set-up geometry differs from the transposed matrix product over its bins on "
                                  + std::to_string(badb) + " voxels" + wsub);
          if (okS)
            {
              const double l = dotd(Fs, ys), r = dotd(x, Bs), tol = adj_tol(in_sub, x, y);
              std::snprintf(buf, sizeof buf, "adjoint on a smaller ProjData: <Ax,y>=%.9g <x,A'y>=%.9g tol=%.3g", l, r, tol);
              oracle(std::fabs(l - r) <= tol, std::string(buf) + wsub);
            }
          // ... a subset of it, accumulated on top
          bck->back_project(Ys, i, n);
          std::snprintf(buf, sizeof buf, "bsub2 ys %d %d", i, n);
          emit(buf, "ok");
          const std::vector<float> Bs2 = out_img();
          emit("bout", hexlist(Bs2));
          std::vector<char> in_piece(w.nbins, 0);
          const std::vector<char> in_subset = subset_piece(i, n);
          for (int b = 0; b < w.nbins; ++b)
            in_piece[b] = in_sub[b] && in_subset[b];
          std::vector<double> v2, m2;
          std::vector<int> c2;
          R.ref_bck(y, in_piece, v2, m2, c2);
          long badc = 0;
          for (int q = 0; q < w.nvox; ++q)
            if (std::fabs(double(Bs2[q]) - Bs[q] - v2[q]) > 8 * EPS * (c[q] + c2[q] + 2) * (m[q] + m2[q]))
              ++badc;
          if (!known_class)
            oracle(badc == 0, "back projecting subset " + std::to_string(i) + "/" + std::to_string(n)
                                  + " of a smaller ProjData on top of an earlier back projection does not add that subset's contribution on "
                                  + std::to_string(badc) + " voxels" + wsub);
          g_counts["smaller_projdata_runs"]++;
        }

      // ================= pre- and post- data processors (set_input / get_output)
      {
        const int nx = w.xmax - w.xmin + 1;
        std::vector<float> xabs(x);
        for (auto& q : xabs)
          q = std::fabs(q);
        for (int pk = 0; pk < 2; ++pk)
          {
            shared_ptr<HProc> P(new HProc(pk == 0 ? HProc::scale : HProc::smx, pk == 0 ? (float)rng.range(2, 3) : 1.F));
            const std::string pw = " processor=" + P->opname() + " " + where;
            fwd->set_pre_data_processor(P);
            bck->set_post_data_processor(P);
            emit("pre " + P->opname(), "ok");
            emit("post " + P->opname(), "ok");
            std::vector<float> FP;
            const bool ok = forward(p, *X, 0, 1, true, FP);
            emit("fwd FP x p 0 1 1", ok ? hexlist(FP) : "err");
            oracle(w.read_img(*X) == x, "set_input with a pre-data-processor changed the caller's image" + pw);
            oracle(P->applied == 1, "set_input applied the pre-data-processor " + std::to_string(P->applied) + " times" + pw);
            const std::vector<float> px = P->on(x, nx);
            std::vector<double> fv, fm;
            R.ref_fwd(px, fv, fm);
            long bad = 0;
            for (int b = 0; b < w.nbins && ok; ++b)
              if (std::fabs(FP[b] - fv[b]) > 4 * EPS * (R.rows[b].size() + 1) * fm[b])
                ++bad;
            if (!known_class)
              oracle(ok && bad == 0, "forward projection with a pre-data-processor differs from the matrix product with the processed image on "
                                         + std::to_string(bad) + " bins" + pw);
            if (pk == 0 && ok && okF)
              { // scaling processor: results scale
                long badsc = 0;
                const double cs = P->on(std::vector<float>(1, 1.F), 1)[0];
                for (int b = 0; b < w.nbins; ++b)
                  if (std::fabs(double(FP[b]) - cs * F[b]) > 4 * EPS * (R.rows[b].size() + 2) * cs * rfm[b])
                    ++badsc;
                oracle(badsc == 0, "forward projection with a scaling pre-data-processor is not the scaled projection on " + std::to_string(badsc) + " bins" + pw);
              }
            // back: the processor acts in get_output, on the copy handed out
            bck->set_up(w.pdi, Z0);
            emit("bsetup z", "ok");
            bck->start_accumulating_in_new_target();
            emit("bstart", "ok");
            const long applied_before = P->applied;
            bck->back_project(Y, 0, 1);
            emit("bsub y 0 1", "ok");
            oracle(P->applied == applied_before, "back_project applied the post-data-processor (it belongs to get_output)" + pw);
            const std::vector<float> O1 = out_img();
            emit("bout", hexlist(O1));
            const std::vector<float> O2 = out_img();
            emit("bout", hexlist(O2));
            oracle(O1 == O2, "get_output twice gives different images: the post-data-processor disturbs the accumulation target" + pw);
            const std::vector<float> PB = P->on(B, nx);
            std::vector<double> v, m;
            std::vector<int> c;
            R.ref_bck(y, all_in, v, m, c);
            std::vector<float> mf(m.begin(), m.end());
            const std::vector<float> pm_ = P->on(mf, nx);
            int cmax = 0;
            for (int q : c)
              cmax = std::max(cmax, q);
            long badb = 0;
            for (int q = 0; q < w.nvox; ++q)
              if (std::fabs(double(O1[q]) - PB[q]) > 8 * EPS * (cmax + 5) * pm_[q] * 1.001)
                ++badb;
            oracle(badb == 0, "get_output with a post-data-processor differs from the processed back projection on " + std::to_string(badb) + " voxels" + pw);
            if (ok)
              {
                const double l = dotd(FP, y), r = dotd(x, O1), tol = 4 * adj_tol(all_in, P->on(xabs, nx), y);
                std::snprintf(buf, sizeof buf, "adjoint with a self-adjoint pre-/post- data processor: <A P x,y>=%.9g <x,P A'y>=%.9g tol=%.3g", l, r, tol);
                oracle(std::fabs(l - r) <= tol, std::string(buf) + pw);
              }
            shared_ptr<DiscretisedDensity<3, float>> im(w.image->get_empty_copy());
            im->fill(7.F);
            bck->back_project(*im, Y, 0, 1);
            emit("binto y 0 1", hexlist(w.read_img(*im)));
            oracle(w.read_img(*im) == O1, "back_project(image, proj_data) with a post-data-processor differs from start; back_project; get_output" + pw);
            g_counts["processor_runs"]++;
          }
        // a processor that fails: set_input and get_output have to throw
        shared_ptr<HProc> Pf(new HProc(HProc::fail));
        fwd->set_pre_data_processor(Pf);
        emit("pre fail", "ok");
        std::vector<float> FE;
        const bool okE = forward(p, *X, 0, 1, true, FE);
        emit("fwd E x p 0 1 1", okE ? hexlist(FE) : "err");
        oracle(!okE, "forward_project went ahead although the pre-data-processor failed " + where);
        bck->set_post_data_processor(Pf);
        emit("post fail", "ok");
        bool threw = false;
        std::vector<float> OE;
        try
          {
            OE = out_img();
          }
        catch (...)
          {
            threw = true;
          }
        emit("bout", threw ? "err" : hexlist(OE));
        oracle(threw, "get_output went ahead although the post-data-processor failed " + where);
        fwd->set_pre_data_processor(shared_ptr<DataProcessor<DiscretisedDensity<3, float>>>());
        bck->set_post_data_processor(shared_ptr<DataProcessor<DiscretisedDensity<3, float>>>());
        emit("pre none", "ok");
        emit("post none", "ok");
        std::vector<float> F0;
        const bool ok0 = forward(p, *X, 0, 1, true, F0);
        emit("fwd F0 x p 0 1 1", ok0 ? hexlist(F0) : "err");
        oracle(ok0 && okF && F0 == F, "after removing the pre-data-processor the projection differs from the one before it was set " + where);
      }

      // ================= the other pair objects: ProjectorByBinPairUsingSeparateProjectors around a matrix forward and a matrix
      // back projector (same matrix settings: a matched pair), and PresmoothingForwardProjectorByBin /
      // PostsmoothingBackProjectorByBin around them with the self-adjoint stencil
      if (cache)
        {
          const int nx = w.xmax - w.xmin + 1;
          shared_ptr<ProjMatrixByBin> pm2 = make_matrix(ms, true, false);
          shared_ptr<ForwardProjectorByBin> f2(new ForwardProjectorByBinUsingProjMatrixByBin(pm2));
          shared_ptr<BackProjectorByBin> b2(new BackProjectorByBinUsingProjMatrixByBin(pm2));
          ProjectorByBinPairUsingSeparateProjectors sep(f2, b2);
          const bool oks = sep.set_up(w.pdi, w.image) == Succeeded::yes;
          oracle(oks && sep.get_forward_projector_sptr() == f2 && sep.get_back_projector_sptr() == b2
                     && sep.get_symmetries_used() != nullptr,
                 "ProjectorByBinPairUsingSeparateProjectors::set_up failed or does not hand out the projectors it was given " + where);
          if (oks)
            {
              ProjDataInMemory P(w.exam, w.pdi);
              w.fill(P, p);
              sep.get_forward_projector_sptr()->forward_project(P, *X, 0, 1, true);
              const std::vector<float> F2 = w.read(P);
              emit("fwd F2 x p 0 1 1", hexlist(F2));
              shared_ptr<DiscretisedDensity<3, float>> im(w.image->get_empty_copy());
              im->fill(3.F);
              sep.get_back_projector_sptr()->back_project(*im, Y, 0, 1);
              const std::vector<float> B2 = w.read_img(*im);
              oracle(okF && F2 == F && B2 == B, "ProjectorByBinPairUsingSeparateProjectors (matrix forward + matrix back projector) differs from ProjectorByBinPairUsingProjMatrixByBin with the same matrix settings " + where);
              const double l = dotd(F2, y), r = dotd(x, B2), tol = adj_tol(all_in, x, y);
              std::snprintf(buf, sizeof buf, "adjoint, ProjectorByBinPairUsingSeparateProjectors: <Ax,y>=%.9g <x,A'y>=%.9g tol=%.3g ", l, r, tol);
              oracle(std::fabs(l - r) <= tol, std::string(buf) + where);
              g_counts["separate_projector_pairs"]++;
            }
          // pre-/post-smoothing projectors
          shared_ptr<HProc> PS(new HProc(HProc::smx));
          shared_ptr<ForwardProjectorByBin> f3(new ForwardProjectorByBinUsingProjMatrixByBin(make_matrix(ms, true, false)));
          shared_ptr<BackProjectorByBin> b3(new BackProjectorByBinUsingProjMatrixByBin(make_matrix(ms, true, false)));
          PresmoothingForwardProjectorByBin pres(f3, PS);
          PostsmoothingBackProjectorByBin posts(b3, PS);
          // set up with an image full of 1s: what is projected must be the image passed to forward_project, not this one
          shared_ptr<DiscretisedDensity<3, float>> ones_img(w.image->get_empty_copy());
          ones_img->fill(1.F);
          pres.set_up(w.pdi, ones_img);
          posts.set_up(w.pdi, ones_img);
          std::vector<float> xabs(x);
          for (auto& q : xabs)
            q = std::fabs(q);
          const std::vector<float> px = PS->on(x, nx);
          std::vector<double> fv, fm;
          R.ref_fwd(px, fv, fm);
          ProjDataInMemory P(w.exam, w.pdi);
          w.fill(P, p);
          bool okp = true;
          try
            {
              pres.forward_project(P, *X, 0, 1, true);
            }
          catch (...)
            {
              okp = false;
            }
          const std::vector<float> FS = w.read(P);
          long bad = 0;
          for (int b = 0; b < w.nbins; ++b)
            if (std::fabs(FS[b] - fv[b]) > 4 * EPS * (R.rows[b].size() + 1) * fm[b])
              ++bad;
          std::vector<double> f1v, f1m;
          R.ref_fwd(PS->on(std::vector<float>(w.nvox, 1.F), nx), f1v, f1m);
          long same_as_setup_image = 0;
          for (int b = 0; b < w.nbins; ++b)
            if (std::fabs(FS[b] - f1v[b]) <= 4 * EPS * (R.rows[b].size() + 1) * f1m[b])
              ++same_as_setup_image;
          std::vector<double> f0v, f0m;
          R.ref_fwd(std::vector<float>(w.nvox, 1.F), f0v, f0m);
          long same_as_unsmoothed_setup_image = 0;
          for (int b = 0; b < w.nbins; ++b)
            if (std::fabs(FS[b] - f0v[b]) <= 4 * EPS * (R.rows[b].size() + 1) * f0m[b])
              ++same_as_unsmoothed_setup_image;
          std::snprintf(buf, sizeof buf,
                        "PresmoothingForwardProjectorByBin::forward_project(proj_data, image): %ld of %d bins differ from the projection of the smoothed "
                        "image (%ld bins equal the projection of the smoothed image given to set_up, %ld that of the image given to set_up) ",
                        bad, w.nbins, same_as_setup_image, same_as_unsmoothed_setup_image);
          if (okp && bad > 0 && same_as_unsmoothed_setup_image == w.nbins)
            known_candidate("presmoothing-forward-projector:set_input-does-not-reach-the-original-projector",
                            std::string(buf)
                                + "[ForwardProjectorByBin::set_input stores the smoothed image in the wrapper, actual_forward_project forwards to "
                                  "original_forward_projector_ptr->forward_project(viewgrams, ...), which uses the image the ORIGINAL projector got in set_up] "
                                + where);
          else
            {
              oracle(okp && bad == 0, std::string(buf) + where);
              // (repaired code) the model's forward_project with the stencil as pre-data-processor answers the same operation
              emit("pre smx", "ok");
              emit("fwd FS x p 0 1 1", okp ? hexlist(FS) : "err");
              emit("pre none", "ok");
            }
          const bool pres_ok = okp && bad == 0;
          shared_ptr<DiscretisedDensity<3, float>> im(w.image->get_empty_copy());
          im->fill(3.F);
          bool okb = true;
          try
            {
              posts.back_project(*im, Y, 0, 1);
            }
          catch (...)
            {
              okb = false;
            }
          const std::vector<float> BS = w.read_img(*im);
          const std::vector<float> PB = PS->on(B, nx);
          std::vector<double> v, m;
          std::vector<int> c;
          R.ref_bck(y, all_in, v, m, c);
          std::vector<float> mf(m.begin(), m.end());
          const std::vector<float> pmag = PS->on(mf, nx);
          int cmax = 0;
          for (int q : c)
            cmax = std::max(cmax, q);
          long badb = 0, zeros = 0;
          for (int q = 0; q < w.nvox; ++q)
            {
              if (std::fabs(double(BS[q]) - PB[q]) > 8 * EPS * (cmax + 5) * pmag[q] * 1.001)
                ++badb;
              if (BS[q] == 0.F)
                ++zeros;
            }
          std::snprintf(buf, sizeof buf,
                        "PostsmoothingBackProjectorByBin::back_project(image, proj_data): %ld of %d voxels differ from the smoothed back projection (%ld voxels are 0) ",
                        badb, w.nvox, zeros);
          if (okb && badb > 0 && zeros == w.nvox)
            known_candidate("postsmoothing-back-projector:accumulates-in-the-original-projector-and-returns-zeros",
                            std::string(buf)
                                + "[actual_back_project forwards to original_back_projector_ptr->back_project(viewgrams, ...), which accumulates in the "
                                  "ORIGINAL projector's target; start_accumulating_in_new_target/get_output of the wrapper work on the wrapper's own, "
                                  "untouched target] "
                                + where);
          else
            {
              oracle(okb && badb == 0, std::string(buf) + where);
              // (repaired code) = start; back_project; get_output with the stencil as post-data-processor
              emit("bsetup z", "ok");
              emit("post smx", "ok");
              emit("binto y 0 1", okb ? hexlist(BS) : "err");
              emit("post none", "ok");
              if (pres_ok && okb && badb == 0)
                {
                  const double l = dotd(FS, y), r = dotd(x, BS), tol = 4 * adj_tol(all_in, PS->on(xabs, nx), y);
                  std::snprintf(buf, sizeof buf, "adjoint, Presmoothing forward / Postsmoothing back projector with the same symmetric filter: <A S x,y>=%.9g <x,S A'y>=%.9g tol=%.3g ", l, r, tol);
                  oracle(std::fabs(l - r) <= tol, std::string(buf) + where);
                }
            }
          g_counts["smoothing_projector_pairs"]++;
        }
    }
}

// ------------------------------------------------------------------------------------------------ one row, directly

static std::string
rowstr(const RowT& r)
{
  std::string s;
  char buf[96];
  for (auto& e : r)
    {
      std::snprintf(buf, sizeof buf, " %d,%d,%d:%a", e.first[0], e.first[1], e.first[2], (double)e.second);
      s += buf;
    }
  return s;
}

static ProjMatrixElemsForOneBin
to_row(const RowT& r)
{
  ProjMatrixElemsForOneBin row;
  for (auto& e : r)
    row.push_back(ProjMatrixElemsForOneBin::value_type(Coordinate3D<int>(e.first[0], e.first[1], e.first[2]), e.second));
  return row;
}

// ProjMatrixElemsForOneBin::forward_project(Bin&, density) / back_project(density, Bin) called directly, with rows that
// also contain planes outside the image (the z guard) and bins that come in with a value.
static void
run_row_level(const World& w, vh::Rng& rng, bool thorough)
{
  Run R(w, rng);
  char buf[128];
  emit("grid " + std::to_string(w.zmin) + " " + std::to_string(w.zmax) + " " + std::to_string(w.ymin) + " " + std::to_string(w.ymax) + " "
           + std::to_string(w.xmin) + " " + std::to_string(w.xmax),
       "ok " + std::to_string(w.nvox));
  const std::vector<float> x = R.rand_img(-4, 4, 10);
  emit("img x" + intlist(x), "ok " + std::to_string(w.nvox));
  shared_ptr<DiscretisedDensity<3, float>> X = w.make_img(x);
  auto rand_row = [&](bool dyadic, bool out_of_range_z) {
    // distinct voxels; z may lie one or two planes outside the image
    std::set<std::array<int, 3>> used;
    RowT r;
    const int len = rng.range(0, 12);
    for (int i = 0; i < len; ++i)
      {
        std::array<int, 3> c
            = { out_of_range_z ? rng.range(w.zmin - 2, w.zmax + 2) : rng.range(w.zmin, w.zmax), rng.range(w.ymin, w.ymax), rng.range(w.xmin, w.xmax) };
        if (!used.insert(c).second)
          continue;
        const float wgt = dyadic ? rng.range(1, 32) / 8.F : (float)(rng.unit() * 2.0 + 1e-3);
        r.push_back(std::make_pair(c, wgt));
      }
    std::sort(r.begin(), r.end()); // push_back requires sorted order
    return r;
  };
  const int nrows = thorough ? 60 : 20;
  for (int k = 0; k < nrows; ++k)
    {
      const bool dyadic = k % 2 == 0;
      const RowT r = rand_row(dyadic, true);
      const ProjMatrixElemsForOneBin row = to_row(r);
      const int acc = rng.range(-3, 3), yv = (k % 5 == 4) ? 0 : rng.range(-4, 4);
      Bin b(0, 0, 0, 0, 0, (float)acc);
      row.forward_project(b, *X);
      std::snprintf(buf, sizeof buf, "rfwd x %d", acc);
      emit(buf + rowstr(r), vh::hex(b.get_bin_value()));
      shared_ptr<DiscretisedDensity<3, float>> im(X->clone());
      row.back_project(*im, Bin(0, 0, 0, 0, 0, (float)yv));
      std::snprintf(buf, sizeof buf, "rbck x %d", yv);
      emit(buf + rowstr(r), hexlist(w.read_img(*im)));
      // oracle, implementation alone (dyadic weights and small integers: float arithmetic is exact)
      if (dyadic)
        {
          Bin b0(0, 0, 0, 0, 0, 0.F);
          row.forward_project(b0, *X);
          shared_ptr<DiscretisedDensity<3, float>> z(X->get_empty_copy());
          row.back_project(*z, Bin(0, 0, 0, 0, 0, (float)yv));
          double rhs = 0;
          const std::vector<float> zv = w.read_img(*z);
          for (int i = 0; i < w.nvox; ++i)
            rhs += double(x[i]) * zv[i];
          oracle(double(b0.get_bin_value()) * yv == rhs, "row level: <row x, y> != <x, row' y> (exact arithmetic) " + w.desc);
          oracle(b.get_bin_value() == b0.get_bin_value() + acc, "row level: forward_project does not add to the value the bin comes in with " + w.desc);
          // additivity over pieces at row level: merge = sum of the rows
          const RowT r2 = rand_row(true, true);
          ProjMatrixElemsForOneBin ra = to_row(r), rb = to_row(r2);
          Bin b2(0, 0, 0, 0, 0, 0.F);
          rb.forward_project(b2, *X);
          ra.merge(rb);
          Bin bm(0, 0, 0, 0, 0, 0.F);
          ra.forward_project(bm, *X);
          std::map<std::array<int, 3>, float> un;
          for (auto& e : r)
            un[e.first] += e.second;
          for (auto& e : r2)
            un[e.first] += e.second;
          bool same = ra.size() == un.size() && ra.check_state() == Succeeded::yes;
          double sq = 0;
          for (ProjMatrixElemsForOneBin::const_iterator it = ra.begin(); it != ra.end() && same; ++it)
            {
              std::array<int, 3> c = { it->coord1(), it->coord2(), it->coord3() };
              same = un.count(c) && un[c] == it->get_value();
              sq += double(it->get_value()) * it->get_value();
            }
          oracle(same, "row level: merge() is not the element-wise sum of the two rows " + w.desc);
          oracle(bm.get_bin_value() == b0.get_bin_value() + b2.get_bin_value(), "row level: projecting the merged row != sum of projecting the rows " + w.desc);
          oracle(!same || std::fabs(ra.square_sum() - sq) <= 1e-5 * sq, "row level: square_sum wrong " + w.desc);
          // scaling
          ProjMatrixElemsForOneBin rs = to_row(r);
          rs *= 2.F;
          Bin bs(0, 0, 0, 0, 0, 0.F);
          rs.forward_project(bs, *X);
          oracle(bs.get_bin_value() == 2 * b0.get_bin_value(), "row level: operator*= does not scale the projection " + w.desc);
          ProjMatrixElemsForOneBin rh = to_row(r);
          rh *= 0.5F;
          Bin bh(0, 0, 0, 0, 0, 0.F);
          rh.forward_project(bh, *X);
          oracle(2 * bh.get_bin_value() == b0.get_bin_value(), "row level: operator*=(0.5) does not scale the projection " + w.desc);
          rh /= 0.5F;
          oracle(rh == row, "row level: operator/=(0.5) does not undo operator*=(0.5) " + w.desc);
          ProjMatrixElemsForOneBin rs1 = to_row(r);
          rs1 *= 1.F;
          rs /= 2.F;
          oracle(rs == row && !(rs != row) && rs1 == row, "row level: operator/= does not undo operator*= (or == fails) " + w.desc);
          if (r.size() > 0)
            {
              ProjMatrixElemsForOneBin rd = to_row(r);
              rd *= 1.5F;
              oracle(rd != row, "row level: operator== does not see scaled values " + w.desc);
            }
          rs.erase();
          oracle(rs.size() == 0, "row level: erase() leaves elements " + w.desc);
        }
      g_counts["row_level_rows"]++;
    }
}

// ------------------------------------------------------------------------------------------------ on-the-fly ray tracing

// Degenerate LORs: an end point of the LOR on the boundary of the (cylindrical or square) field of view lies (to rounding)
// on a voxel boundary in x or y, or the LOR only just touches a corner of the square field of view.  Which voxel gets
// the last bit of the ray then depends on float rounding in either implementation (C03 screens the same class); such
// bins are not compared.
static bool
lor_end_point_on_voxel_boundary(const World& w, bool cylfov, int seg, int view, int ax, int tang)
{
  const Bin bin(seg, view, ax, tang);
  const double s = w.pdi->get_s(bin), phi = w.pdi->get_phi(bin);
  const CartesianCoordinate3D<float> vs = w.image->get_voxel_size();
  const double fov = std::min(std::min(w.xmax, -w.xmin) * (double)vs.x(), std::min(w.ymax, -w.ymin) * (double)vs.y());
  const double cphi = std::cos(phi), sphi = std::sin(phi);
  double amin, amax;
  if (cylfov)
    {
      if (std::fabs(s) >= fov * (1 + 1e-4))
        return false; // misses the field of view in both implementations
      amax = std::sqrt(std::max(0., fov * fov - s * s));
      amin = -amax;
    }
  else
    { // the square |X| <= fov, |Y| <= fov, as in ray_trace_one_lor / proj_Siddon
      if (std::fabs(cphi) < 1e-3 || std::fabs(sphi) < 1e-3)
        {
          if (std::fabs(s) > fov * (1 + 1e-4))
            return false;
          if (std::fabs(std::fabs(s) - fov) <= 1e-4 * fov)
            return true; // along an edge of the square
          amax = fov;
          amin = -fov;
        }
      else
        {
          const double sgs = sphi < 0 ? -1 : 1, sgc = cphi < 0 ? -1 : 1;
          amax = std::min((fov * sgs - s * cphi) / sphi, (fov * sgc + s * sphi) / cphi);
          amin = std::max((-fov * sgs - s * cphi) / sphi, (-fov * sgc + s * sphi) / cphi);
          if (amin > amax + 2e-3 * vs.x())
            return false;
          if (amin > amax - 4e-3 * vs.x())
            return true; // through a corner: the library's own cut-off (1e-3 voxel) decides
        }
    }
  for (int e = 0; e < 2; ++e)
    {
      const double a = e ? amax : amin;
      const double X = (s * cphi + a * sphi) / vs.x(), Y = (s * sphi - a * cphi) / vs.y();
      const double fx = X + 0.5 - std::floor(X + 0.5), fy = Y + 0.5 - std::floor(Y + 0.5);
      if (fx < 2e-3 || fx > 1 - 2e-3 || fy < 2e-3 || fy > 1 - 2e-3)
        return true;
    }
  return false;
}

// Class C of inputs on which the on-the-fly projector is known to differ from the matrix: image grids whose first plane
// is not 0.  proj_Siddon tests `plane >= 0 && plane <= max_index` (its `assert(min_index == 0)` is compiled out), so planes
// with a negative index are ignored and, for a positive first plane, memory before the first plane is read.
// g_otf_first_plane: 1 = the projector handles such grids (repaired tree), 0 = it shows exactly that signature
// (set by otf_first_plane_probe() on a fixed small geometry; grids with a positive first plane are then not given to it).
static int g_otf_first_plane = 1;
static const char* const keyC = "on-the-fly-raytracing:image-first-plane-not-0";

// On-the-fly ForwardProjectorByBinUsingRayTracing against forward projection through ProjMatrixByBinUsingRayTracing with the
// same settings (1 tangential LOR, no detector-boundary correction, restrict_to_cylindrical_FOV = cylfov on both sides).
static void
run_on_the_fly(const World& w, vh::Rng& rng, bool thorough, bool cylfov)
{
  const std::string where = w.desc + (cylfov ? " cylfov=1" : " cylfov=0");
  if (w.blocks || w.tof || w.mashed)
    {
      g_counts["otf_skipped_geometry"]++;
      return;
    }
  const bool classC_world = w.zmin != 0 && g_otf_first_plane == 0;
  if (classC_world && w.zmin > 0)
    { // unrepaired tree: the projector would read before the first plane
      g_counts["otf_skipped_first_plane_positive_known_class"]++;
      return;
    }
  if (w.zmin != 0)
    g_counts["otf_configs_first_plane_not_0"]++;
  const int V = w.maxView - w.minView + 1;
  ForwardProjectorByBinUsingRayTracing otf;
  if (!cylfov)
    { // the setting is reachable through the parser only
      std::istringstream is("Forward Projector Using Ray Tracing Parameters :=\nrestrict to cylindrical FOV := 0\n"
                            "End Forward Projector Using Ray Tracing Parameters :=\n");
      if (!otf.parse(is))
        {
          oracle(false, "ForwardProjectorByBinUsingRayTracing does not parse `restrict to cylindrical FOV := 0` " + where);
          return;
        }
    }
  bool threw = false;
  std::string msg;
  try
    {
      otf.set_up(w.pdi, w.image);
    }
  catch (std::exception& e)
    {
      threw = true;
      msg = e.what();
    }
  catch (...)
    {
      threw = true;
    }
  if (V % 2 != 0)
    { // documented restriction: has to be refused (a projector that went ahead is compared below)
      g_counts["otf_odd_number_of_views_refused"] += threw;
      if (threw)
        return;
    }
  else if (threw)
    {
      g_counts["otf_skipped_setup_error"]++;
      std::fprintf(g_orc, "NOTE on-the-fly projector refused %s: %s\n", where.c_str(), msg.substr(0, 160).c_str());
      return;
    }
  shared_ptr<ProjMatrixByBinUsingRayTracing> pm(new ProjMatrixByBinUsingRayTracing);
  pm->set_num_tangential_LORs(1);
  pm->set_restrict_to_cylindrical_FOV(cylfov);
  pm->set_use_actual_detector_boundaries(false);
  pm->enable_cache(rng.coin());
  ForwardProjectorByBinUsingProjMatrixByBin fm(pm);
  fm.set_up(w.pdi, w.image);
  Run R(w, rng);
  char buf[320];
  // Two classes of input on which the on-the-fly projector is known to differ from the matrix (repairs proposed as
  // docs/fixes/C04-1.diff, C04-2.diff).  A differing bin is attributed to a class only if it lies exactly where that
  // defect acts; anything else stays an ORACLE-FAIL.
  //  A: x/y-anisotropic voxels (the symmetries drop the 90-degrees operations) and views num_views/4, 3 num_views/4:
  //     view+90 and 180-view coincide there and the dispatch takes the "plus_90" code, which exchanges x and y;
  //  B: voxel size in z = ring spacing (1 plane per ring; proj_Siddon hard-codes 2) - all oblique segments.
  const CartesianCoordinate3D<float> vsz = w.image->get_voxel_size();
  const bool classA_world = std::fabs(vsz.x() - vsz.y()) > 2e-3F && V % 4 == 0;
  const bool classB_world
      = std::fabs(w.pdi->get_scanner_ptr()->get_ring_spacing() / vsz.z() - 2.F) > 1e-3F;
  static const char* const keyA = "on-the-fly-raytracing:anisotropic-voxels:views-at-45-and-135-degrees";
  static const char* const keyB = "on-the-fly-raytracing:voxel-size-z-not-half-the-ring-spacing:oblique-segments";
  auto in_classA = [&](int seg, int view) { return classA_world && (4 * (view - w.minView) == V || 4 * (view - w.minView) == 3 * V); };
  auto in_classB = [&](int seg, int view) { return classB_world && seg != 0; };
  // verdict for a comparison with `bad` differing bins of which nA / nB lie in class A / B (a bin in both counts in both)
  auto verdict = [&](long bad, long nA, long nB, long nAorB, const std::string& text) {
    if (bad > 0 && nAorB == bad)
      {
        if (nA > 0)
          known_candidate(keyA, text
                                    + " [all differing bins are in views num_views/4, 3 num_views/4 of an image with voxel_size.x != voxel_size.y: "
                                      "actual_forward_project takes the plus_90 routines (view + num_views/2 == num_views - view there), which exchange x and y]");
        if (nB > 0)
          known_candidate(keyB, text
                                    + " [all differing bins are in oblique segments of an image whose voxel size in z is not half the ring spacing: "
                                      "proj_Siddon hard-codes num_planes_per_physical_ring = 2 (assert compiled out)]");
        if (nA == 0 && nB == 0)
          oracle(false, text);
      }
    else
      oracle(bad == 0, text);
  };
  g_counts[cylfov ? "otf_configs_cylindrical_fov" : "otf_configs_square_fov"]++;
  g_counts[V % 4 == 0 ? "otf_configs_views_multiple_of_4" : (V % 2 == 0 ? "otf_configs_views_4k_plus_2" : "otf_configs_views_odd")]++;

  // a smaller ProjData geometry for this world
  World sw;
  bool have_sub = false;
  try
    {
      have_sub = make_sub_world(w, rng, sw);
    }
  catch (...)
    {
    }

  for (int rep = 0; rep < (thorough ? 4 : 2); ++rep)
    {
      const std::vector<float> x = R.rand_img(rep == 0 ? 0 : -4, 4, 20);
      shared_ptr<DiscretisedDensity<3, float>> X = w.make_img(x);
      const int n = rep == 0 ? 1 : rng.range(1, V), i = rng.range(0, n - 1);
      ProjDataInMemory A1(w.exam, w.pdi), A2(w.exam, w.pdi);
      A1.fill(0.F);
      A2.fill(0.F);
      try
        {
          otf.forward_project(A1, *X, i, n, true);
          fm.forward_project(A2, *X, i, n, true);
        }
      catch (std::exception& e)
        {
          oracle(false, std::string("on-the-fly forward projection threw: ") + e.what() + " " + where);
          continue;
        }
      const std::vector<float> a1 = w.read(A1), a2 = w.read(A2);
      std::vector<float> a2m; // class C: the matrix projection of the image with the planes below 0 set to 0
      if (classC_world)
        {
          std::vector<float> xm(x);
          for (int z = w.zmin; z <= std::min(-1, w.zmax); ++z)
            for (int yy = w.ymin; yy <= w.ymax; ++yy)
              for (int xx = w.xmin; xx <= w.xmax; ++xx)
                xm[w.lin(z, yy, xx)] = 0.F;
          shared_ptr<DiscretisedDensity<3, float>> XM = w.make_img(xm);
          ProjDataInMemory A5(w.exam, w.pdi);
          A5.fill(0.F);
          fm.forward_project(A5, *XM, i, n, true);
          a2m = w.read(A5);
        }
      // scale for the tolerance floor: the largest bin of the projection of |x| (an upper bound of the magnitude of the
      // sums both projectors accumulate in float; the largest |bin| itself can be small by cancellation)
      double gmax = 0;
      {
        std::vector<float> xa(x);
        for (auto& v : xa)
          v = std::fabs(v);
        shared_ptr<DiscretisedDensity<3, float>> XA = w.make_img(xa);
        ProjDataInMemory A3(w.exam, w.pdi);
        A3.fill(0.F);
        fm.forward_project(A3, *XA, 0, 1, true);
        for (float v : w.read(A3))
          gmax = std::max(gmax, (double)std::fabs(v));
      }
      // tolerance per viewgram of the set-up geometry
      std::map<std::pair<int, int>, double> vtol;
      for (int s = w.minSeg; s <= w.maxSeg; ++s)
        for (int v = w.minView; v <= w.maxView; ++v)
          {
            double vmax = 0;
            for (int a = w.aMin(s); a <= w.aMax(s); ++a)
              for (int t = w.minT; t <= w.maxT; ++t)
                vmax = std::max(vmax, (double)std::fabs(a2[w.idx(s, v, 0, a, t)]));
            vtol[std::make_pair(s, v)] = 1e-4 * std::max(vmax, 0.05 * gmax);
          }
      long bad = 0, nA = 0, nB = 0, nAB = 0;
      double worst = 0;
      w.for_bins([&](int s, int v, int k, int a, int t) {
        const int b = w.idx(s, v, 0, a, t);
        const double d = std::fabs(double(a1[b]) - a2[b]), tol = vtol[std::make_pair(s, v)];
        if (d > tol && lor_end_point_on_voxel_boundary(w, cylfov, s, v, a, t))
          {
            g_counts["otf_bins_not_compared_lor_end_point_on_voxel_boundary"]++;
            return;
          }
        if (d > tol)
          {
            ++bad;
            nA += in_classA(s, v);
            nB += in_classB(s, v);
            nAB += in_classA(s, v) || in_classB(s, v);
          }
        if (!in_classA(s, v) && !in_classB(s, v))
          worst = std::max(worst, d);
      });
      std::snprintf(buf, sizeof buf, "on-the-fly ray tracing forward projector differs from the ray-tracing matrix on %ld bins (worst outside the known classes %.3g, data max %.3g) subset %d/%d ",
                    bad, worst, gmax, i, n);
      if (classC_world)
        {
          // attributed to class C only if the projector computes exactly "planes below 0 ignored" (up to classes A, B)
          long unexplained = 0;
          w.for_bins([&](int s, int v, int k, int a, int t) {
            const int b = w.idx(s, v, 0, a, t);
            if (std::fabs(double(a1[b]) - a2m[b]) > vtol[std::make_pair(s, v)] && !in_classA(s, v) && !in_classB(s, v)
                && !lor_end_point_on_voxel_boundary(w, cylfov, s, v, a, t))
              ++unexplained;
          });
          if (bad > 0 && unexplained == 0)
            known_candidate(keyC, std::string(buf)
                                      + "[equal to the matrix projection of the image with the planes of negative index set to 0: proj_Siddon "
                                        "tests `plane >= 0` instead of `plane >= min_index` (assert(min_index == 0) compiled out)] "
                                      + where);
          else
            oracle(bad == 0, std::string(buf) + "(" + std::to_string(unexplained) + " bins also differ from the projection without the planes of negative index) " + where);
          g_counts["otf_compared_known_class_first_plane_negative"]++;
          continue; // the remaining comparisons of this world only once the projector handles such grids
        }
      verdict(bad, nA, nB, nAB, std::string(buf) + where);
      g_counts["otf_compared"]++;
      if (gmax > 0)
        g_counts["otf_worst_deviation_ppm_of_data_max"] = std::max<long>(g_counts["otf_worst_deviation_ppm_of_data_max"], (long)(1e6 * worst / gmax));

      // the same call with a ProjData smaller than the set-up geometry: = restriction of the whole-data projection
      if (have_sub && rep < 2)
        {
          ProjDataInMemory S1(sw.exam, sw.pdi);
          S1.fill(3.F);
          bool ok = true;
          try
            {
              otf.forward_project(S1, *X, i, n, true);
            }
          catch (...)
            {
              ok = false;
            }
          long bads = 0, badm = 0, mA = 0, mB = 0, mAB = 0;
          if (ok)
            {
              const std::vector<float> s1 = sw.read(S1);
              sw.for_bins([&](int s, int v, int k, int a, int t) {
                const int j = sw.idx(s, v, k, a, t), b = w.idx(s, v, k, a, t);
                const double tol = vtol[std::make_pair(s, v)];
                // outside the subset: n > 1 zeroes, n == 1 has no bin outside
                if (std::fabs(double(s1[j]) - a1[b]) > tol)
                  ++bads;
                if (std::fabs(double(s1[j]) - a2[b]) > tol && !lor_end_point_on_voxel_boundary(w, cylfov, s, v, a, t))
                  {
                    ++badm;
                    mA += in_classA(s, v);
                    mB += in_classB(s, v);
                    mAB += in_classA(s, v) || in_classB(s, v);
                  }
              });
            }
          const std::string subw = sw.desc.substr(w.desc.size()) + " " + where;
          std::snprintf(buf, sizeof buf, "on-the-fly forward projection into a ProjData smaller than the set-up geometry (subset %d/%d): %ld bins differ from the restriction of its whole-data projection",
                        i, n, bads);
          oracle(ok && bads == 0, std::string(buf) + subw);
          std::snprintf(buf, sizeof buf, "on-the-fly forward projection into a ProjData smaller than the set-up geometry (subset %d/%d): %ld bins differ from the matrix projection",
                        i, n, badm);
          verdict(badm, mA, mB, mAB, std::string(buf) + subw);
          g_counts["otf_smaller_projdata_compared"]++;
        }
      // a scaling pre-data-processor in set_input: A(2x) = 2 A(x), exactly in float
      if (rep == 0)
        {
          shared_ptr<HProc> P(new HProc(HProc::scale, 2.F));
          otf.set_pre_data_processor(P);
          ProjDataInMemory A4(w.exam, w.pdi);
          A4.fill(0.F);
          otf.forward_project(A4, *X, i, n, true);
          otf.set_pre_data_processor(shared_ptr<DataProcessor<DiscretisedDensity<3, float>>>());
          const std::vector<float> a4 = w.read(A4);
          long badp = 0;
          for (int b = 0; b < w.nbins; ++b)
            if (a4[b] != 2 * a1[b])
              ++badp;
          oracle(badp == 0 && P->applied == 1 && w.read_img(*X) == x,
                 "on-the-fly projector with a scaling pre-data-processor (x2): " + std::to_string(badp) + " bins are not twice the unprocessed projection; applied "
                     + std::to_string(P->applied) + " times " + where);
        }

      // related viewgrams through forward_project(RelatedViewgrams&, min_ax, max_ax, min_tang, max_tang) (5-argument overload),
      // for every segment including 0
      shared_ptr<DataSymmetriesForViewSegmentNumbers> s1(otf.get_symmetries_used()->clone()), s2(fm.get_symmetries_used()->clone());
      // mode 0: full range; 1: random axial AND tangential sub-range; 2: random axial sub-range, all tangential positions;
      // 3: axial sub-range that stops before the last ring with tangential range containing 0 (class of 02c0a3d12);
      // 4: viewgrams pre-filled (full axial range)
      auto compare_group = [&](ViewSegmentNumbers vs, int mode) {
        const int sg = vs.segment_num();
        int a0 = rng.range(w.aMin(sg), w.aMax(sg)), a1_ = rng.range(a0, w.aMax(sg)), t0 = rng.range(w.minT, w.maxT), t1 = rng.range(t0, w.maxT);
        if (mode == 0)
          {
            a0 = w.aMin(sg);
            a1_ = w.aMax(sg);
            t0 = w.minT;
            t1 = w.maxT;
          }
        if (mode == 2)
          {
            t0 = w.minT;
            t1 = w.maxT;
          }
        if (mode == 3)
          {
            a0 = w.aMin(sg);
            a1_ = std::max(a0, w.aMax(sg) - 1);
            t0 = rng.range(w.minT, 0);
            t1 = rng.range(0, w.maxT);
          }
        const bool prefilled = mode == 4; // the viewgrams come in with values: they have to be overwritten
        if (prefilled)
          { // (full axial range, to keep this apart from the axial sub-range case above)
            a0 = w.aMin(sg);
            a1_ = w.aMax(sg);
          }
        stir::RelatedViewgrams<float> v1 = w.pdi->get_empty_related_viewgrams(vs, s1), v2 = w.pdi->get_empty_related_viewgrams(vs, s2);
        if (prefilled)
          {
            v1.fill(5.F);
            v2.fill(5.F);
          }
        bool okn = v1.get_num_viewgrams() == v2.get_num_viewgrams();
        long badg = 0, bad_adds = 0, bad_outside = 0, gA = 0, gB = 0, gAB = 0;
        if (okn)
          {
            otf.set_input(*X);
            fm.set_input(*X);
            otf.forward_project(v1, a0, a1_, t0, t1);
            fm.forward_project(v2, a0, a1_, t0, t1);
            stir::RelatedViewgrams<float>::const_iterator i1 = v1.begin(), i2 = v2.begin();
            for (; i1 != v1.end(); ++i1, ++i2)
              {
                okn = okn && i1->get_view_num() == i2->get_view_num() && i1->get_segment_num() == i2->get_segment_num();
                const double tol = 1e-4 * std::max((double)std::max(std::fabs(i2->find_max()), std::fabs(i2->find_min())), 0.05 * gmax);
                for (int a = w.aMin(i1->get_segment_num()); a <= w.aMax(i1->get_segment_num()); ++a)
                  for (int t = w.minT; t <= w.maxT; ++t)
                    {
                      const bool inside = a >= a0 && a <= a1_ && t >= t0 && t <= t1;
                      if (std::fabs(double((*i1)[a][t]) - (*i2)[a][t]) > tol)
                        {
                          if (lor_end_point_on_voxel_boundary(w, cylfov, i1->get_segment_num(), i1->get_view_num(), a, t))
                            {
                              g_counts["otf_bins_not_compared_lor_end_point_on_voxel_boundary"]++;
                              continue;
                            }
                          ++badg;
                          gA += in_classA(i1->get_segment_num(), i1->get_view_num());
                          gB += in_classB(i1->get_segment_num(), i1->get_view_num());
                          gAB += in_classA(i1->get_segment_num(), i1->get_view_num()) || in_classB(i1->get_segment_num(), i1->get_view_num());
                          if (!inside)
                            ++bad_outside;
                          if (prefilled && inside && std::fabs(double((*i1)[a][t]) - 5. - (*i2)[a][t]) <= tol)
                            ++bad_adds;
                        }
                    }
              }
          }
        std::snprintf(buf, sizeof buf, "on-the-fly ray tracing vs matrix on related viewgrams view=%d seg=%d (%d viewgrams) ax=%d..%d tang=%d..%d%s: %ld bins differ (same related set: %d) ",
                      vs.view_num(), vs.segment_num(), v1.get_num_viewgrams(), a0, a1_, t0, t1, prefilled ? " (viewgrams pre-filled with 5)" : "", badg, (int)okn);
        if (okn && prefilled && badg > 0 && badg == bad_adds && bad_outside == 0)
          known_candidate("on-the-fly-raytracing:forward_project(RelatedViewgrams)-adds-to-the-viewgrams-instead-of-overwriting",
                          std::string(buf)
                              + "(all equal to old value + projection): ForwardProjectorByBinUsingRayTracing accumulates with += into the viewgrams "
                                "passed in, the base-class contract and the matrix projector overwrite; masked in forward_project(ProjData&) by "
                                "get_empty_related_viewgrams "
                              + where);
        else if (!okn)
          oracle(false, std::string(buf) + where);
        else
          verdict(badg, bad_outside == 0 ? gA : 0, bad_outside == 0 ? gB : 0, bad_outside == 0 ? gAB : 0, std::string(buf) + where);
        g_counts["otf_groups_compared"]++;
        g_counts["otf_groups_of_" + std::to_string(v1.get_num_viewgrams()) + (sg == 0 ? "_viewgrams_segment_0" : "_viewgrams_oblique")]++;
      };
      for (int sg = 0; sg <= w.maxSeg; ++sg)
        {
          std::set<std::pair<int, int>> done;
          std::vector<int> views = { 0, 1, V / 4, V / 2, rng.range(w.minView, w.maxView), rng.range(w.minView, w.maxView) };
          bool first = true;
          for (int v : views)
            {
              ViewSegmentNumbers vs(std::min(std::max(v, w.minView), w.maxView), rng.coin() ? sg : -sg);
              s1->find_basic_view_segment_numbers(vs);
              if (!done.insert(std::make_pair(vs.view_num(), vs.segment_num())).second)
                continue;
              compare_group(vs, 0);
              compare_group(vs, 1);
              if (rep == 0 || first)
                compare_group(vs, 2);
              first = false;
            }
          // for >= 8 views: view 1 is in a group of 4 (segment 0: the "all symmetries 2D" code) or 8 viewgrams
          ViewSegmentNumbers vs1(std::min(1, w.maxView), sg);
          s1->find_basic_view_segment_numbers(vs1);
          compare_group(vs1, 3);
          compare_group(vs1, 4);
        }
    }
}

// ------------------------------------------------------------------------------------------------ FOV x symmetries x rays

static void
emit_geom(const World& w)
{
  std::ostringstream op;
  op << "geom " << w.minSeg << " " << w.maxSeg << " " << w.minView << " " << w.maxView << " " << w.minT << " " << w.maxT << " " << w.minK
     << " " << w.maxK;
  for (int s = w.minSeg; s <= w.maxSeg; ++s)
    op << " " << w.aMin(s) << "," << w.aMax(s);
  emit(op.str(), "ok " + std::to_string(w.nbins));
}

// a small cylindrical world with default index ranges, square voxels, 2 planes per ring (none of the known classes of the
// on-the-fly projector): N detectors, 2 rings, span 1, all N/2 views, N/2-1 tangential positions
static void
make_small_world(World& w, int N, bool tof, int nxy, float frac)
{
  w = World();
  w.tof = tof;
  const int R = 2;
  shared_ptr<Scanner> sc = vh::make_scanner(N, R, tof ? 5 : -1);
  w.pdi = vh::make_pdi(sc, 1, R - 1, N / 2, N / 2 - 1, false, tof ? 1 : 0);
  const float zoom = sc->get_default_bin_size() * nxy / (2.F * sc->get_inner_ring_radius() * frac);
  w.image = make_grid(*w.pdi, zoom, zoom, nxy, 2 * R - 1, 0);
  w.exam.reset(new ExamInfo);
  w.exam->imaging_modality = ImagingModality::PT;
  w.image->set_exam_info(*w.exam);
  w.finish();
  std::ostringstream d;
  d << "small cyl N=" << N << " R=" << R << " span=1 views=" << N / 2 << " tang=" << N / 2 - 1 << " tof=" << tof << " nxy=" << nxy
    << " nz=" << 2 * R - 1 << " voxel=" << w.image->get_voxel_size().x() << " fov fraction " << frac;
  w.desc = d.str();
}

// The FULL cross product {cylindrical, square field of view} x {32 combinations of the 5 symmetry flags} x
// {num_tangential_LORs 1, 2, 3} x {use_actual_detector_boundaries off, on} of ProjMatrixByBinUsingRayTracing on one small
// world, ALL views:
//  * every row of every matrix against the geometry (GeoOracle: non-empty, row sum = chord, columns = 2D lengths);
//  * every row against the row of the matrix without any symmetry (same field of view / rays / boundaries);
//  * 1 ray, no detector boundaries, non-TOF: forward projection through the matrix = sum over the rows, and = the on-the-fly
//    ForwardProjectorByBinUsingRayTracing with the same field of view, for every one of the 32 symmetry settings.
static void
run_fov_cross_product(const World& w, vh::Rng& rng, bool thorough)
{
  char buf[384];
  const bool legal_actual = actual_boundaries_in_use(w, true);
  Run R(w, rng);
  const std::vector<float> x = R.rand_img(0, 4, 15), xs = R.rand_img(-4, 4, 15);
  shared_ptr<DiscretisedDensity<3, float>> X = w.make_img(x), XS = w.make_img(xs);
  for (int cyl = 1; cyl >= 0; --cyl)
    {
      // on-the-fly projector with this field of view (non-TOF only: it refuses TOF data)
      shared_ptr<ForwardProjectorByBinUsingRayTracing> otf;
      std::vector<float> o1, o2;
      if (!w.tof)
        {
          otf.reset(new ForwardProjectorByBinUsingRayTracing);
          if (!cyl)
            {
              std::istringstream is("Forward Projector Using Ray Tracing Parameters :=\nrestrict to cylindrical FOV := 0\n"
                                    "End Forward Projector Using Ray Tracing Parameters :=\n");
              if (!otf->parse(is))
                {
                  oracle(false, "ForwardProjectorByBinUsingRayTracing does not parse `restrict to cylindrical FOV := 0` " + w.desc);
                  otf.reset();
                }
            }
          if (otf)
            {
              otf->set_up(w.pdi, w.image);
              ProjDataInMemory A1(w.exam, w.pdi), A2(w.exam, w.pdi);
              A1.fill(0.F);
              A2.fill(0.F);
              otf->forward_project(A1, *X, 0, 1, true);
              otf->forward_project(A2, *XS, 0, 1, true);
              o1 = w.read(A1);
              o2 = w.read(A2);
            }
        }
      for (int ntl = 1; ntl <= 3; ++ntl)
        for (int actual = 0; actual <= (legal_actual ? 1 : 0); ++actual)
          {
            const GeoOracle geo(w, ntl, cyl != 0, actual != 0, /*emit_ops*/ true);
            MSet ms;
            ms.type = 0;
            ms.ntl = ntl;
            ms.cylfov = cyl != 0;
            ms.actual = actual != 0;
            ms.s90 = ms.s180 = ms.sseg = ms.ss = ms.sz = false;
            // reference: no symmetries at all
            shared_ptr<ProjMatrixByBin> ref = make_matrix(ms, false, true);
            ref->set_up(w.pdi, w.image);
            std::vector<RowT> ref_rows(w.nbins);
            w.for_bins([&](int s, int v, int k, int a, int t) { ref_rows[w.idx(s, v, k, a, t)] = get_row(*ref, Bin(s, v, a, t, k)); });
            for (int f = 0; f < 32; ++f)
              {
                ms.s90 = f & 1;
                ms.s180 = f & 2;
                ms.sseg = f & 4;
                ms.ss = f & 8;
                ms.sz = f & 16;
                const std::string where = w.desc + " | " + ms.desc();
                shared_ptr<ProjMatrixByBin> pm = make_matrix(ms, false, false);
                pm->set_up(w.pdi, w.image);
                g_counts["cross_product_matrices"]++;
                g_counts[std::string("cross_product_matrices_") + (cyl ? "cylindrical" : "square") + "_fov"
                         + ((f & 3) == 0 ? "_no_view_symmetry" : "_with_view_symmetry")]++;
                // (1) against the geometry
                geo_oracle_report(geo.check(*pm), "every row against the geometry of its LOR", where);
                // (2) against the rows computed without symmetries
                long differ = 0, compared = 0;
                double worst = 0;
                std::string first;
                std::vector<RowT> rows(w.nbins);
                w.for_bins([&](int s, int v, int k, int a, int t) {
                  const int i = w.idx(s, v, k, a, t);
                  rows[i] = get_row(*pm, Bin(s, v, a, t, k));
                  if (geo.degen[w.idx(s, v, w.minK, a, t)])
                    return;
                  ++compared;
                  std::map<std::array<int, 3>, double> m;
                  double sum = 0, dev = 0;
                  for (auto& e : ref_rows[i])
                    {
                      m[e.first] += e.second;
                      sum += std::fabs(e.second);
                    }
                  for (auto& e : rows[i])
                    m[e.first] -= e.second;
                  for (auto& kv : m)
                    dev += std::fabs(kv.second);
                  if (dev > 0.02 * sum + 0.02)
                    {
                      if (!differ)
                        {
                          std::snprintf(buf, sizeof buf, "first: seg %d view %d ax %d tang %d tof %d: %d elements vs %d (sum %.5g) without symmetries, L1 difference %.4g",
                                        s, v, a, t, k, (int)rows[i].size(), (int)ref_rows[i].size(), sum, dev);
                          first = buf;
                        }
                      ++differ;
                    }
                  worst = std::max(worst, dev);
                });
                std::snprintf(buf, sizeof buf, "ray-tracing matrix: %ld of %ld rows differ from the rows of the same matrix without symmetries by more than 2%% (worst L1 %.3g) %s ",
                              differ, compared, worst, first.c_str());
                oracle(differ == 0, std::string(buf) + where);
                g_counts["cross_product_rows_compared_with_no_symmetry_rows"] += compared;
                // (3) forward projection through the matrix = sum over the rows; = on-the-fly projector
                if (ntl == 1 && !actual && !w.tof)
                  {
                    ForwardProjectorByBinUsingProjMatrixByBin fm(pm);
                    fm.set_up(w.pdi, w.image);
                    for (int rep = 0; rep < 2; ++rep)
                      {
                        const std::vector<float>& xv = rep ? xs : x;
                        ProjDataInMemory A(w.exam, w.pdi);
                        A.fill(0.F);
                        fm.forward_project(A, rep ? *XS : *X, 0, 1, true);
                        const std::vector<float> am = w.read(A);
                        long badrow = 0;
                        double gmax = 0;
                        std::vector<double> mag(w.nbins, 0.);
                        for (int b = 0; b < w.nbins; ++b)
                          {
                            double val = 0;
                            for (auto& e : rows[b])
                              if (e.first[0] >= w.zmin && e.first[0] <= w.zmax)
                                {
                                  const double xx = xv[w.lin(e.first[0], e.first[1], e.first[2])];
                                  val += xx * e.second;
                                  mag[b] += std::fabs(xx * e.second);
                                }
                            gmax = std::max(gmax, mag[b]);
                            if (std::fabs(am[b] - val) > 4 * EPS * (rows[b].size() + 1) * mag[b])
                              ++badrow;
                          }
                        oracle(badrow == 0, "forward projection through the matrix differs from the sum over its rows for " + std::to_string(badrow) + " bins " + where);
                        if (!otf)
                          continue;
                        const std::vector<float>& ov = rep ? o2 : o1;
                        long bad = 0, skipped = 0;
                        std::set<int> bad_views;
                        double worstd = 0;
                        for (int s = w.minSeg; s <= w.maxSeg; ++s)
                          for (int v = w.minView; v <= w.maxView; ++v)
                            {
                              double vmax = 0;
                              for (int a = w.aMin(s); a <= w.aMax(s); ++a)
                                for (int t = w.minT; t <= w.maxT; ++t)
                                  vmax = std::max(vmax, (double)std::fabs(am[w.idx(s, v, 0, a, t)]));
                              const double tol = 1e-4 * std::max(vmax, 0.05 * gmax);
                              for (int a = w.aMin(s); a <= w.aMax(s); ++a)
                                for (int t = w.minT; t <= w.maxT; ++t)
                                  {
                                    const int b = w.idx(s, v, 0, a, t);
                                    const double d = std::fabs(double(ov[b]) - am[b]);
                                    if (d <= tol)
                                      continue;
                                    if (lor_end_point_on_voxel_boundary(w, cyl != 0, s, v, a, t))
                                      {
                                        ++skipped;
                                        continue;
                                      }
                                    ++bad;
                                    bad_views.insert(v);
                                    worstd = std::max(worstd, d);
                                  }
                            }
                        std::snprintf(buf, sizeof buf, "on-the-fly ray tracing forward projector differs from forward projection through the ray-tracing matrix on %ld of %d bins (in %d of %d views, worst %.3g, data max %.3g) ",
                                      bad, w.nbins, (int)bad_views.size(), w.maxView - w.minView + 1, worstd, gmax);
                        oracle(bad == 0, std::string(buf) + where);
                        g_counts["cross_product_otf_comparisons"]++;
                        g_counts["otf_bins_not_compared_lor_end_point_on_voxel_boundary"] += skipped;
                      }
                  }
              }
          }
    }
  (void)thorough;
}

// ------------------------------------------------------------------------------------------------ object histories

// One geometry (projection data + image grid) of a history.
struct HStep
{
  shared_ptr<ProjDataInfo> pdi;
  shared_ptr<VoxelsOnCartesianGrid<float>> image;
  std::string what;
  int id = 0;
};

// A matrix + forward + back projector (or a ProjectorByBinPairUsingProjMatrixByBin) that lives through the whole history.
struct HObj
{
  std::string name;
  MSet ms;
  bool cache = true, only_basic = true, use_pair = false;
  shared_ptr<ProjMatrixByBin> pm;
  shared_ptr<ForwardProjectorByBin> fwd;
  shared_ptr<BackProjectorByBin> bck;
  shared_ptr<ProjectorByBinPairUsingProjMatrixByBin> pair;
  void build()
  {
    pm = make_matrix(ms, cache, false);
    pm->store_only_basic_bins_in_cache(only_basic);
    if (use_pair)
      {
        pair.reset(new ProjectorByBinPairUsingProjMatrixByBin(pm));
        fwd = pair->get_forward_projector_sptr();
        bck = pair->get_back_projector_sptr();
      }
    else
      {
        fwd.reset(new ForwardProjectorByBinUsingProjMatrixByBin(pm));
        bck.reset(new BackProjectorByBinUsingProjMatrixByBin(pm));
      }
  }
  void set_up(const shared_ptr<ProjDataInfo>& pdi, const shared_ptr<VoxelsOnCartesianGrid<float>>& image)
  {
    if (use_pair)
      {
        if (pair->set_up(pdi, image) != Succeeded::yes)
          throw std::runtime_error("pair set_up failed");
      }
    else
      {
        fwd->set_up(pdi, image);
        bck->set_up(pdi, image); // the matrix sees the same geometry a second time (ray tracing: skipped as already set up)
      }
  }
  std::string desc() const
  {
    return name + " " + ms.desc() + " cache=" + std::to_string(cache) + " only_basic_bins=" + std::to_string(only_basic)
           + (use_pair ? " ProjectorByBinPairUsingProjMatrixByBin" : " separate forward/back projector on one matrix");
  }
};

static shared_ptr<ForwardProjectorByBinUsingRayTracing>
make_otf(bool cylfov)
{
  shared_ptr<ForwardProjectorByBinUsingRayTracing> otf(new ForwardProjectorByBinUsingRayTracing);
  if (!cylfov)
    {
      std::istringstream is("Forward Projector Using Ray Tracing Parameters :=\nrestrict to cylindrical FOV := 0\n"
                            "End Forward Projector Using Ray Tracing Parameters :=\n");
      if (!otf->parse(is))
        throw std::runtime_error("on-the-fly projector: parse failed");
    }
  return otf;
}

// HISTORIES: one matrix / projector / projector-pair object is set_up in turn for several image grids (other voxel size,
// z origin one plane off, other size, other first plane) and several projection-data geometries (fewer segments, trimmed
// axial range, another scanner with the same numbers of views and segments), in an order drawn from the Rng, some
// geometries twice, with rows requested and projections made between the set_ups.  After every set_up the objects have to
// behave as objects set up for that geometry only:
//   * differential: the Lean model gets the rows and symmetry tables of a FRESH matrix for the geometry and answers the
//     forward / back projections that the OLD objects are asked for;
//   * oracle: old object = fresh object (rows, forward, back: bitwise), matrix product, adjointness, on-the-fly projector
//     (a fresh one and one that went through the same history) = matrix.
static void
run_history(vh::Rng& rng, bool thorough, int hid)
{
  char buf[320];
  // ---- base geometry
  const int kind = hid % 4 == 1 ? 1 : (hid % 4 == 3 ? 2 : 0); // 0 cyl, 1 cyl TOF, 2 blocks
  World base;
  base.blocks = kind == 2;
  base.tof = kind == 1;
  const int R = base.blocks ? 2 : rng.range(2, 3);
  int N, span = 1, nxy;
  shared_ptr<Scanner> sc, sc2;
  if (!base.blocks)
    {
      static const int Ns[] = { 8, 12, 16 };
      N = Ns[rng.range(0, base.tof ? 1 : 2)];
      span = (hid % 4 == 2) ? 3 : 1;
      nxy = rng.range(5, 8);
      sc = vh::make_scanner(N, R, base.tof ? 5 : -1);
      sc2 = vh::make_scanner(N, R, base.tof ? 5 : -1);
      sc2->set_inner_ring_radius(sc->get_inner_ring_radius() * 1.25F); // another scanner, same numbers of views and segments
      sc2->set_up();
    }
  else
    {
      N = 12;
      nxy = 15;
      sc = blocks_scanner(N, R, -1);
      sc2 = blocks_scanner(N, R, -1);
      sc2->set_ring_spacing(sc->get_ring_spacing()); // (same scanner: the blocks geometry is built from the crystal spacings)
    }
  base.span = span;
  const int views = N / 2, maxtang = N / 2 - 1;
  const int ntang = base.blocks ? maxtang : rng.range(std::max(3, maxtang - 2), maxtang);
  const int tofmash = base.tof ? 1 : 0;
  shared_ptr<ProjDataInfo> pdi1 = vh::make_pdi(sc, span, R - 1, views, ntang, false, tofmash);
  std::vector<std::pair<shared_ptr<ProjDataInfo>, std::string>> pdis;
  pdis.push_back(std::make_pair(pdi1, std::string("projdata 1")));
  if (pdi1->get_max_segment_num() > 0)
    { // fewer segments
      shared_ptr<ProjDataInfo> p(pdi1->clone());
      const int m = rng.range(0, pdi1->get_max_segment_num() - 1);
      p->reduce_segment_range(-m, m);
      pdis.push_back(std::make_pair(p, "fewer segments (-" + std::to_string(m) + ".." + std::to_string(m) + ")"));
    }
  if (pdi1->get_max_axial_pos_num(0) - pdi1->get_min_axial_pos_num(0) >= 2)
    { // trimmed axial range in segment 0
      shared_ptr<ProjDataInfo> p(pdi1->clone());
      const bool lo = span > 1 || rng.coin(), hi = span > 1 || !lo; // (span > 1: the library insists on a centred range)
      if (lo)
        p->set_min_axial_pos_num(pdi1->get_min_axial_pos_num(0) + 1, 0);
      if (hi)
        p->set_max_axial_pos_num(pdi1->get_max_axial_pos_num(0) - 1, 0);
      pdis.push_back(std::make_pair(p, std::string("axial range of segment 0 trimmed")));
    }
  if (!base.blocks)
    pdis.push_back(std::make_pair(vh::make_pdi(sc2, span, R - 1, views, ntang, false, tofmash), std::string("other scanner (ring radius x1.25)")));
  {
    // fewer tangential positions
    shared_ptr<ProjDataInfo> p(pdi1->clone());
    p->set_min_tangential_pos_num(pdi1->get_min_tangential_pos_num() + 1);
    p->set_max_tangential_pos_num(pdi1->get_max_tangential_pos_num() - 1);
    pdis.push_back(std::make_pair(p, std::string("tangential range trimmed")));
  }
  // ---- image grids
  static const float fracs[] = { 0.6F, 0.8F, 1.F };
  const float frac = fracs[rng.range(0, 2)];
  const float zoom = base.blocks ? 0.5F : sc->get_default_bin_size() * nxy / (2.F * sc->get_inner_ring_radius() * frac);
  const int nz = 2 * R - 1;
  auto grid = [&](const ProjDataInfo& p, float zm, int n_xy, int n_z, int zorg, const GridShape& sh) {
    return make_grid(p, zm, zm, n_xy, n_z, zorg, 1.F, sh);
  };
  GridShape shifted;
  shifted.z_first = rng.coin() ? -(nz / 2) : rng.range(1, 3);
  std::vector<HStep> geos;
  auto add = [&](const shared_ptr<ProjDataInfo>& p, const shared_ptr<VoxelsOnCartesianGrid<float>>& im, const std::string& what) {
    HStep h;
    h.pdi = p;
    h.image = im;
    h.what = what;
    h.id = (int)geos.size();
    geos.push_back(h);
  };
  add(pdi1, grid(*pdi1, zoom, nxy, nz, 0, GridShape()), "grid 1");
  add(pdi1, grid(*pdi1, zoom * (rng.coin() ? 0.8F : 1.25F), nxy, nz, 0, GridShape()), "grid 2: same size, other voxel size");
  add(pdi1, grid(*pdi1, zoom, nxy, nz, base.blocks ? 0 : (rng.coin() ? 1 : -1), base.blocks ? shifted : GridShape()),
      base.blocks ? "grid 3: other first plane" : "grid 3: z origin one plane off");
  add(pdi1, grid(*pdi1, zoom * (nxy + 2.F) / nxy, nxy + 2, base.blocks ? nz : nz + (rng.coin() ? 2 : -2) * (nz > 2), 0, GridShape()),
      "grid 4: other size");
  add(pdi1, grid(*pdi1, zoom, nxy, nz, 0, shifted), "grid 5: same size, first plane " + std::to_string(shifted.z_first));
  for (std::size_t i = 1; i < pdis.size(); ++i)
    add(pdis[i].first, grid(*pdis[i].first, zoom, nxy, nz, 0, GridShape()), "grid 1, " + pdis[i].second);
  // ---- the order: grid 1, a, grid 1, b, grid 1, c, ... so that every change of a single characteristic (voxel size only, z
  // origin only, index range only, projection data only) occurs in both directions; a = grid 2 / 3 / 5 in turn, the others
  // drawn from the Rng; at the end two of the others one after the other
  std::vector<int> others;
  for (std::size_t i = 1; i < geos.size(); ++i)
    others.push_back((int)i);
  for (int i = (int)others.size() - 1; i > 0; --i)
    std::swap(others[i], others[rng.range(0, i)]);
  {
    static const int firsts[] = { 1, 2, 4 };
    const int a = firsts[hid % 3];
    others.erase(std::find(others.begin(), others.end(), a));
    others.insert(others.begin(), a);
  }
  const int nvar = std::min<int>(others.size(), thorough ? 8 : 3);
  std::vector<int> order;
  for (int i = 0; i < nvar; ++i)
    {
      order.push_back(0);
      order.push_back(others[i]);
    }
  order.push_back(0);
  order.push_back(others[rng.range(0, (int)others.size() - 1)]);
  if (thorough)
    order.push_back(others[rng.range(0, (int)others.size() - 1)]);
  {
    std::ostringstream d;
    d << "history " << hid << " " << (base.blocks ? "blocks" : "cyl") << " N=" << N << " R=" << R << " span=" << span << " views=" << views
      << " tang=" << ntang << " tof=" << base.tof << " nxy=" << nxy << " nz=" << nz << " order=";
    for (int o : order)
      d << o << ",";
    base.desc = d.str();
  }
  // ---- the objects that live through the history
  std::vector<HObj> objs;
  {
    HObj a; // default caching; settings of the on-the-fly projector
    a.name = "A";
    a.ms = MSet{ 0, 1, true, true, true, true, true, rng.coin(), false };
    objs.push_back(a);
    HObj b; // pair object, every bin cached
    b.name = "B";
    b.ms = MSet{ 0, rng.range(1, 3), rng.coin(), rng.coin(), rng.coin(), rng.coin(), rng.coin(), rng.range(0, 3) != 0, rng.range(0, 3) == 0 };
    b.only_basic = false;
    b.use_pair = true;
    objs.push_back(b);
    HObj c; // cache disabled
    c.name = "C";
    c.ms = MSet{ 0, rng.range(1, 2), true, true, true, true, true, true, false };
    c.cache = false;
    c.use_pair = rng.coin();
    objs.push_back(c);
    if (!base.blocks)
      {
        HObj d; // interpolation matrix
        d.name = "D";
        d.ms = MSet{ 1, 1, true, true, true, true, true, true, false };
        d.only_basic = rng.coin();
        objs.push_back(d);
      }
  }
  for (std::size_t oi = 0; oi < objs.size(); ++oi)
    {
      objs[oi].build();
      emit("mnew " + std::to_string(oi) + " " + (objs[oi].cache ? "1" : "0") + " " + (objs[oi].only_basic ? "1" : "0"), "ok");
    }
  const bool otf_possible = !base.blocks && !base.tof && views % 2 == 0;
  const bool otf_cylfov = objs[0].ms.cylfov;
  shared_ptr<ForwardProjectorByBinUsingRayTracing> otf_old;
  if (otf_possible)
    otf_old = make_otf(otf_cylfov);
  g_counts["histories"]++;

  int step_no = 0;
  for (int gi : order)
    {
      ++step_no;
      const HStep& st = geos[gi];
      World w;
      w.blocks = base.blocks;
      w.tof = base.tof;
      w.span = span;
      w.pdi = st.pdi;
      w.image = st.image;
      w.exam.reset(new ExamInfo);
      w.exam->imaging_modality = ImagingModality::PT;
      w.image->set_exam_info(*w.exam);
      w.finish();
      {
        std::ostringstream d;
        d << base.desc << " step " << step_no << " geometry " << st.id << " [" << st.what << "] voxel=" << w.image->get_voxel_size().x()
          << " zorigin=" << w.image->get_origin().z() << " grid=[" << w.zmin << ".." << w.zmax << "," << w.ymin << ".." << w.ymax << ","
          << w.xmin << ".." << w.xmax << "]";
        w.desc = d.str();
      }
      Run R(w, rng);
      const std::vector<float> x = R.rand_img(-4, 4, 15), zeros_img(w.nvox, 0.F);
      const std::vector<float> y = R.rand_dat(-4, 4, 25), p = R.rand_dat(5, 9, 0), zeros_dat(w.nbins, 0.F);
      shared_ptr<DiscretisedDensity<3, float>> X = w.make_img(x);
      ProjDataInMemory Y(w.exam, w.pdi);
      w.fill(Y, y);
      const int V = w.maxView - w.minView + 1;
      const int n = V >= 2 ? rng.range(2, std::min(V, 4)) : 1, si = rng.range(0, n - 1);
      // the object whose answers go to the model at this step
      const int diff_obj = rng.range(0, (int)objs.size() - 1);
      const bool partial = rng.range(0, 2) == 0; // only a subset is projected at this step: the cache is filled in part

      for (std::size_t oi = 0; oi < objs.size(); ++oi)
        {
          HObj& o = objs[oi];
          const std::string where = o.desc() + " | " + w.desc;
          // fresh objects for this geometry
          HObj f = o;
          f.build();
          bool old_ok = true, fresh_ok = true;
          std::string msg;
          try
            {
              f.set_up(st.pdi, st.image);
            }
          catch (std::exception& e)
            {
              fresh_ok = false;
              msg = e.what();
            }
          try
            {
              o.set_up(st.pdi, st.image);
            }
          catch (std::exception& e)
            {
              old_ok = false;
              msg = e.what();
            }
          oracle(old_ok == fresh_ok, "set_up of an object that was set up for another geometry before "
                                         + std::string(old_ok ? "succeeds where a fresh object refuses: " : "fails where a fresh object succeeds: ") + msg.substr(0, 120) + " " + where);
          if (!old_ok || !fresh_ok)
            {
              g_counts["history_steps_refused"]++;
              if (!old_ok)
                {
                  o.build(); // start again with a new object
                  emit("mnew " + std::to_string(oi) + " " + (o.cache ? "1" : "0") + " " + (o.only_basic ? "1" : "0"), "ok");
                }
              continue;
            }
          g_counts["history_object_steps"]++;
          // the model's matrix object goes through the same two set_ups (forward projector, back projector)
          for (int rep2 = 0; rep2 < 2; ++rep2)
            emit("mset " + std::to_string(oi) + " " + std::to_string(st.id) + " " + (o.ms.type == 0 ? "1" : "0"), "ok");
          // ---- rows requested directly, before any projection (caches some of them)
          {
            long bad = 0;
            const int nreq = 12;
            for (int q = 0; q < nreq; ++q)
              {
                const int s = rng.range(w.minSeg, w.maxSeg);
                const Bin b(s, rng.range(w.minView, w.maxView), rng.range(w.aMin(s), w.aMax(s)), rng.range(w.minT, w.maxT), rng.range(w.minK, w.maxK));
                const RowT r_old = get_row(*o.pm, b), r_new = get_row(*f.pm, b);
                if (r_old != r_new)
                  ++bad;
                // model: MatrixObj.getRow on the object with the same history, the fresh row as data
                std::ostringstream bs;
                bs << b.segment_num() << " " << b.view_num() << " " << b.axial_pos_num() << " " << b.tangential_pos_num() << " "
                   << b.timing_pos_num();
                emit("mdef " + std::to_string(st.id) + " " + bs.str() + rowstr(r_new), std::to_string(r_new.size()));
                const std::string ro = rowstr(r_old);
                emit("mget " + std::to_string(oi) + " " + bs.str(), ro.empty() ? ro : ro.substr(1));
                g_counts["history_rows_answered_by_the_model"]++;
              }
            oracle(bad == 0, "get_proj_matrix_elems_for_one_bin of a matrix that was set up for another geometry before differs from a fresh matrix for "
                                 + std::to_string(bad) + " of " + std::to_string(nreq) + " bins " + where);
          }
          auto forward = [&](ForwardProjectorByBin& fp, const std::vector<float>& start, int i_, int n_, bool zero, std::vector<float>& out) {
            ProjDataInMemory P(w.exam, w.pdi);
            w.fill(P, start);
            try
              {
                fp.forward_project(P, *X, i_, n_, zero);
              }
            catch (...)
              {
                return false;
              }
            out = w.read(P);
            return true;
          };
          auto backward = [&](BackProjectorByBin& bp, int i_, int n_) {
            shared_ptr<DiscretisedDensity<3, float>> im(w.image->get_empty_copy());
            im->fill(3.F);
            bp.back_project(*im, Y, i_, n_);
            return w.read_img(*im);
          };
          // ---- a subset first (partial cache), then (unless `partial`) the whole data
          std::vector<float> SH, SF, FH, FF;
          const bool okS = forward(*o.fwd, p, si, n, false, SH) && forward(*f.fwd, p, si, n, false, SF);
          oracle(okS && SH == SF, "forward_project(subset " + std::to_string(si) + "/" + std::to_string(n)
                                      + ") of a projector that was set up for another geometry before differs from a fresh projector " + where);
          const std::vector<float> TH = backward(*o.bck, si, n), TF = backward(*f.bck, si, n);
          oracle(TH == TF, "back_project(subset " + std::to_string(si) + "/" + std::to_string(n)
                               + ") of a projector that was set up for another geometry before differs from a fresh projector " + where);
          bool okF = false;
          std::vector<float> BH, BF;
          if (!partial || (int)oi == diff_obj)
            {
              okF = forward(*o.fwd, p, 0, 1, true, FH) && forward(*f.fwd, p, 0, 1, true, FF);
              long nd = 0;
              double worst = 0, fmax = 0;
              for (int b = 0; okF && b < w.nbins; ++b)
                {
                  if (FH[b] != FF[b])
                    ++nd;
                  worst = std::max(worst, (double)std::fabs(FH[b] - FF[b]));
                  fmax = std::max(fmax, (double)std::fabs(FF[b]));
                }
              std::snprintf(buf, sizeof buf, "forward projection of a projector that was set up for another geometry before differs from a fresh projector on %ld of %d bins (largest difference %.3g, data max %.3g) ",
                            nd, w.nbins, worst, fmax);
              oracle(okF && nd == 0, std::string(buf) + where);
              BH = backward(*o.bck, 0, 1);
              BF = backward(*f.bck, 0, 1);
              long nb = 0;
              for (int v = 0; v < w.nvox; ++v)
                if (BH[v] != BF[v])
                  ++nb;
              oracle(nb == 0, "back projection of a projector that was set up for another geometry before differs from a fresh projector on "
                                  + std::to_string(nb) + " of " + std::to_string(w.nvox) + " voxels " + where);
            }
          const bool known_class = w.blocks && w.tof && !o.cache;
          // ---- rows of a fresh probe matrix: matrix product, adjointness; for one object per step the model answers
          if ((int)oi == diff_obj || (okF && rng.range(0, 1) == 0))
            {
              const bool differential = (int)oi == diff_obj;
              shared_ptr<ProjMatrixByBin> probe = make_matrix(o.ms, false, false);
              probe->set_up(w.pdi, w.image);
              const DataSymmetriesForBins* sym = probe->get_symmetries_ptr();
              R.rows.assign(w.nbins, RowT());
              R.maxlen = 0;
              if (differential)
                {
                  std::ostringstream op;
                  op << "geom " << w.minSeg << " " << w.maxSeg << " " << w.minView << " " << w.maxView << " " << w.minT << " " << w.maxT << " "
                     << w.minK << " " << w.maxK;
                  for (int s = w.minSeg; s <= w.maxSeg; ++s)
                    op << " " << w.aMin(s) << "," << w.aMax(s);
                  emit(op.str(), "ok " + std::to_string(w.nbins));
                  emit("cfg " + where, "ok");
                  emit("rowset", "ok");
                }
              long out_of_grid = 0;
              w.for_bins([&](int s, int v, int k, int a, int t) {
                const int i = w.idx(s, v, k, a, t);
                R.rows[i] = get_row(*probe, Bin(s, v, a, t, k));
                R.maxlen = std::max<int>(R.maxlen, R.rows[i].size());
                for (auto& e : R.rows[i])
                  if (e.first[1] < w.ymin || e.first[1] > w.ymax || e.first[2] < w.xmin || e.first[2] > w.xmax)
                    ++out_of_grid;
                if (differential)
                  emit("row " + std::to_string(s) + " " + std::to_string(v) + " " + std::to_string(a) + " " + std::to_string(t) + " " + std::to_string(k)
                           + rowstr(R.rows[i]),
                       std::to_string(i) + " " + std::to_string(R.rows[i].size()));
              });
              oracle(out_of_grid == 0, "rows contain voxels outside the image grid in y/x (" + std::to_string(out_of_grid) + ") " + where);
              if (differential)
                {
                  emit("sym", "ok");
                  for (int s = w.minSeg; s <= w.maxSeg; ++s)
                    for (int v = w.minView; v <= w.maxView; ++v)
                      {
                        const ViewSegmentNumbers vs(v, s);
                        if (!static_cast<const DataSymmetriesForViewSegmentNumbers*>(sym)->is_basic(vs))
                          continue;
                        std::vector<ViewSegmentNumbers> rel;
                        sym->get_related_view_segment_numbers(rel, vs);
                        std::ostringstream op;
                        op << "vs " << v << " " << s;
                        for (auto& r : rel)
                          op << " " << r.view_num() << "," << r.segment_num();
                        emit(op.str(), std::to_string(rel.size()));
                        for (int k = w.minK; k <= w.maxK; ++k)
                          for (int t = w.minT; t <= w.maxT; ++t)
                            for (int a = w.aMin(s); a <= w.aMax(s); ++a)
                              {
                                Bin bb(s, v, a, t, k);
                                sym->find_basic_bin(bb);
                                std::vector<AxTangPosNumbers> l;
                                sym->get_related_bins_factorised(l, bb, w.aMin(s), w.aMax(s), w.minT, w.maxT);
                                std::ostringstream o2;
                                o2 << "rel " << v << " " << s << " " << k << " " << a << " " << t << relstr(l);
                                emit(o2.str(), std::to_string(l.size()));
                              }
                      }
                  emit("grid " + std::to_string(w.zmin) + " " + std::to_string(w.zmax) + " " + std::to_string(w.ymin) + " " + std::to_string(w.ymax)
                           + " " + std::to_string(w.xmin) + " " + std::to_string(w.xmax),
                       "ok " + std::to_string(w.nvox));
                  emit("img x" + intlist(x), "ok " + std::to_string(w.nvox));
                  emit("img o" + intlist(zeros_img), "ok " + std::to_string(w.nvox));
                  emit("dat y" + intlist(y), "ok " + std::to_string(w.nbins));
                  emit("dat p" + intlist(p), "ok " + std::to_string(w.nbins));
                  emit(std::string("cache ") + (o.cache ? "1" : "0"), "ok");
                  // the OLD projectors answer; the model works from the fresh rows
                  std::snprintf(buf, sizeof buf, "fwd S x p %d %d 0", si, n);
                  emit(buf, okS ? hexlist(SH) : "err");
                  emit("fwd F x p 0 1 1", okF ? hexlist(FH) : "err");
                  // back projector: set_up cloned the (zero) image of this geometry; accumulate a subset and the whole on top
                  o.bck->set_up(w.pdi, w.image);
                  emit("bsetup o", "ok");
                  o.bck->back_project(Y, si, n);
                  std::snprintf(buf, sizeof buf, "bsub y %d %d", si, n);
                  emit(buf, "ok");
                  shared_ptr<DiscretisedDensity<3, float>> o1(w.image->get_empty_copy());
                  o1->fill(9.F);
                  o.bck->get_output(*o1);
                  emit("bout", hexlist(w.read_img(*o1)));
                  o.bck->start_accumulating_in_new_target();
                  emit("bstart", "ok");
                  o.bck->back_project(Y, 0, 1);
                  emit("bsub y 0 1", "ok");
                  o.bck->get_output(*o1);
                  emit("bout", hexlist(w.read_img(*o1)));
                  g_counts["history_steps_answered_by_the_model"]++;
                }
              if (okF && !known_class)
                {
                  std::vector<double> rf, rfm;
                  R.ref_fwd(x, rf, rfm);
                  long bad = 0;
                  for (int b = 0; b < w.nbins; ++b)
                    if (std::fabs(FH[b] - rf[b]) > 4 * EPS * (R.rows[b].size() + 1) * rfm[b])
                      ++bad;
                  oracle(bad == 0, "forward projection of a projector that was set up for another geometry before differs from the matrix product with the rows of a fresh matrix on "
                                       + std::to_string(bad) + " of " + std::to_string(w.nbins) + " bins " + where);
                  const std::vector<char> all_in(w.nbins, 1);
                  std::vector<double> v, m;
                  std::vector<int> c;
                  R.ref_bck(y, all_in, v, m, c);
                  long badb = 0;
                  double M = 0;
                  int C = 0;
                  for (int q = 0; q < w.nvox; ++q)
                    {
                      if (std::fabs(BH[q] - v[q]) > 4 * EPS * (c[q] + 1) * m[q])
                        ++badb;
                      M += std::fabs(x[q]) * m[q];
                      C = std::max(C, c[q]);
                    }
                  oracle(badb == 0, "back projection of a projector that was set up for another geometry before differs from the transposed matrix product with the rows of a fresh matrix on "
                                        + std::to_string(badb) + " of " + std::to_string(w.nvox) + " voxels " + where);
                  double l = 0, r = 0;
                  for (int b = 0; b < w.nbins; ++b)
                    l += double(FH[b]) * y[b];
                  for (int q = 0; q < w.nvox; ++q)
                    r += double(x[q]) * BH[q];
                  const double tol = 4 * EPS * (R.maxlen + C + 2) * M;
                  std::snprintf(buf, sizeof buf, "adjoint after a history of set_ups: <Ax,y>=%.9g <x,A'y>=%.9g tol=%.3g ", l, r, tol);
                  oracle(std::fabs(l - r) <= tol, std::string(buf) + where);
                }
            }
          // ---- adjointness on the subset without rows: tolerance from the projection of |x| (fresh projector)
          if (okS && !known_class)
            {
              std::vector<float> xa(x);
              for (auto& q : xa)
                q = std::fabs(q);
              shared_ptr<DiscretisedDensity<3, float>> XA = w.make_img(xa);
              ProjDataInMemory PA(w.exam, w.pdi);
              PA.fill(0.F);
              f.fwd->forward_project(PA, *XA, si, n, true);
              const std::vector<float> fa = w.read(PA);
              ProjDataInMemory PZ(w.exam, w.pdi);
              PZ.fill(0.F);
              o.fwd->forward_project(PZ, *X, si, n, true);
              const std::vector<float> sz = w.read(PZ);
              double l = 0, r = 0, M = 0;
              for (int b = 0; b < w.nbins; ++b)
                {
                  l += double(sz[b]) * y[b];
                  M += double(fa[b]) * std::fabs(y[b]);
                }
              for (int q = 0; q < w.nvox; ++q)
                r += double(x[q]) * TH[q];
              const double tol = 4 * EPS * (w.nbins + 3 * (w.xmax - w.xmin + w.ymax - w.ymin + w.zmax - w.zmin + 3) + 2) * M;
              std::snprintf(buf, sizeof buf, "adjoint on subset %d/%d after a history of set_ups: <Ax,y>=%.9g <x,A'y>=%.9g tol=%.3g ", si, n, l, r, tol);
              oracle(std::fabs(l - r) <= tol, std::string(buf) + where);
            }
          // ---- on-the-fly projector = matrix (object A has its settings): a fresh one, and one with the same history
          if (oi == 0 && otf_possible && okF)
            {
              const bool unsafe = w.zmin > 0 && g_otf_first_plane == 0;
              const bool known_c = w.zmin != 0 && g_otf_first_plane == 0;
              if (!unsafe)
                {
                  shared_ptr<ForwardProjectorByBinUsingRayTracing> otf_new = make_otf(otf_cylfov);
                  bool ok1 = true, ok2 = true;
                  try
                    {
                      otf_new->set_up(w.pdi, w.image);
                    }
                  catch (...)
                    {
                      ok1 = false;
                    }
                  try
                    {
                      otf_old->set_up(w.pdi, w.image);
                    }
                  catch (...)
                    {
                      ok2 = false;
                    }
                  oracle(ok1 == ok2, "set_up of an on-the-fly projector that was set up for another geometry before does not agree with a fresh one " + where);
                  if (ok1 && ok2)
                    {
                      ProjDataInMemory A1(w.exam, w.pdi), A2(w.exam, w.pdi);
                      A1.fill(0.F);
                      A2.fill(0.F);
                      otf_new->forward_project(A1, *X, 0, 1, true);
                      otf_old->forward_project(A2, *X, 0, 1, true);
                      const std::vector<float> a1 = w.read(A1), a2 = w.read(A2);
                      oracle(a1 == a2, "on-the-fly projector that was set up for another geometry before differs from a fresh one " + where);
                      if (!known_c)
                        {
                          double gmax = 0;
                          {
                            std::vector<float> xa(x);
                            for (auto& q : xa)
                              q = std::fabs(q);
                            shared_ptr<DiscretisedDensity<3, float>> XA = w.make_img(xa);
                            ProjDataInMemory A3(w.exam, w.pdi);
                            A3.fill(0.F);
                            f.fwd->forward_project(A3, *XA, 0, 1, true);
                            for (float v : w.read(A3))
                              gmax = std::max(gmax, (double)std::fabs(v));
                          }
                          long bad = 0;
                          double worst = 0;
                          for (int s = w.minSeg; s <= w.maxSeg; ++s)
                            for (int v = w.minView; v <= w.maxView; ++v)
                              {
                                double vmax = 0;
                                for (int a = w.aMin(s); a <= w.aMax(s); ++a)
                                  for (int t = w.minT; t <= w.maxT; ++t)
                                    vmax = std::max(vmax, (double)std::fabs(FF[w.idx(s, v, 0, a, t)]));
                                const double tol = 1e-4 * std::max(vmax, 0.05 * gmax);
                                for (int a = w.aMin(s); a <= w.aMax(s); ++a)
                                  for (int t = w.minT; t <= w.maxT; ++t)
                                    {
                                      const int b = w.idx(s, v, 0, a, t);
                                      const double d = std::fabs(double(a2[b]) - FH[b]);
                                      if (d > tol && !lor_end_point_on_voxel_boundary(w, otf_cylfov, s, v, a, t))
                                        {
                                          ++bad;
                                          worst = std::max(worst, d);
                                        }
                                    }
                              }
                          std::snprintf(buf, sizeof buf, "after a history of set_ups the on-the-fly ray tracing projector and the ray-tracing matrix projector differ on %ld of %d bins (worst %.3g, data max %.3g) ",
                                        bad, w.nbins, worst, gmax);
                          oracle(bad == 0, std::string(buf) + where);
                          g_counts["history_steps_compared_with_on_the_fly"]++;
                        }
                    }
                }
            }
        }
      g_counts["history_steps"]++;
    }
}

// larger cylindrical non-TOF geometries for the on-the-fly comparison only (no model involved): enough views for every
// symmetry case of the hand-optimised Siddon code (1, 2, 4 and 8 related viewgrams, 2D and oblique segments); numbers of
// views that are multiples of 4, of the form 4k+2, and odd (refused); odd and even image sizes; 2R-3 / 2R-1 / 2R+1 planes;
// z origin off by whole planes; x/y-anisotropic voxels; voxel z = ring spacing instead of half of it
static bool
make_otf_world(World& w, vh::Rng& rng, int k)
{
  w = World();
  static const int Ns[] = { 16, 24, 32, 20, 28, 40, 18, 12, 36, 16 };
  static const int Zs[] = { 0, 1, 0, -2, 0, 1, 0, -2, 0, 1 };
  const int c = k % 10;
  const int N = Ns[c];
  const bool coarse_z = c == 9; // voxel z = ring spacing (one plane per ring)
  const bool aniso = c == 2 || c == 7 || (k >= 10 && rng.range(0, 4) == 0);
  int R = rng.range(2, 4);
  if (coarse_z)
    R = 3; // the ray-tracing matrix wants an odd number of planes for a z origin that is a multiple of the plane spacing
  const int span = (c % 3 == 2 && !coarse_z) ? 3 : 1;
  shared_ptr<Scanner> sc = vh::make_scanner(N, R, -1);
  const int ntang = rng.range(N / 2 - 3, N / 2 - 1);
  w.pdi = vh::make_pdi(sc, span, R - 1, N / 2, ntang, false, 0);
  w.span = span;
  const int nxy = rng.range(7, 15);
  static const float fracs[] = { 0.5F, 0.7F, 0.85F, 1.F };
  const float zoom = sc->get_default_bin_size() * nxy / (2.F * sc->get_inner_ring_radius() * fracs[rng.range(0, 3)]);
  int nz = 2 * R - 1;
  if (k % 3 == 1 && R > 2)
    nz = 2 * R - 3;
  if (k % 3 == 2)
    nz = 2 * R + 1;
  if (coarse_z)
    nz = R;
  const int zorg = Zs[c];
  // index ranges: first plane negative / straddling / positive (and extra columns) in half of the worlds
  const bool shaped = c == 1 || c == 3 || c == 4 || c == 6 || c == 8;
  const GridShape shape = shaped ? random_shape(rng, nz, k % 2 == 0 && !aniso) : GridShape();
  w.image = make_grid(*w.pdi, zoom, aniso ? zoom * (rng.coin() ? 1.25F : 0.8F) : zoom, nxy, nz, zorg, coarse_z ? 0.5F : 1.F, shape);
  w.exam.reset(new ExamInfo);
  w.exam->imaging_modality = ImagingModality::PT;
  w.image->set_exam_info(*w.exam);
  w.finish();
  std::ostringstream d;
  d << "otf-world cyl N=" << N << " R=" << R << " span=" << span << " views=" << N / 2 << " tang=" << ntang << " nxy=" << nxy << " nz=" << nz
    << " voxel=" << w.image->get_voxel_size().x() << "," << w.image->get_voxel_size().y() << "," << w.image->get_voxel_size().z()
    << " zorigin_planes=" << zorg << " grid=[" << w.zmin << ".." << w.zmax << "," << w.ymin << ".." << w.ymax << "," << w.xmin << ".."
    << w.xmax << "]";
  w.desc = d.str();
  return true;
}

// Does the on-the-fly projector handle an image grid whose first plane is not 0?  Fixed geometry (16 detectors, 3 rings,
// 9x9x5 voxels, planes -2..2), image value = 1 + plane - first plane.  Sets g_otf_first_plane.
static void
otf_first_plane_probe()
{
  World w;
  shared_ptr<Scanner> sc = vh::make_scanner(16, 3, -1);
  w.pdi = vh::make_pdi(sc, 1, 2, 8, 7, false, 0);
  GridShape shape;
  shape.z_first = -2;
  const float zoom = sc->get_default_bin_size() * 9 / (2.F * sc->get_inner_ring_radius() * 0.7F);
  w.image = make_grid(*w.pdi, zoom, zoom, 9, 5, 0, 1.F, shape);
  w.exam.reset(new ExamInfo);
  w.exam->imaging_modality = ImagingModality::PT;
  w.image->set_exam_info(*w.exam);
  w.finish();
  w.desc = "probe cyl N=16 R=3 span=1 views=8 tang=7 nxy=9 nz=5 grid planes -2..2";
  std::vector<float> x(w.nvox), xm(w.nvox);
  for (int z = w.zmin; z <= w.zmax; ++z)
    for (int y = w.ymin; y <= w.ymax; ++y)
      for (int xx = w.xmin; xx <= w.xmax; ++xx)
        {
          x[w.lin(z, y, xx)] = 1.F + (z - w.zmin);
          xm[w.lin(z, y, xx)] = z < 0 ? 0.F : 1.F + (z - w.zmin);
        }
  ForwardProjectorByBinUsingRayTracing otf;
  otf.set_up(w.pdi, w.image);
  shared_ptr<ProjMatrixByBinUsingRayTracing> pm(new ProjMatrixByBinUsingRayTracing);
  pm->set_num_tangential_LORs(1);
  pm->set_restrict_to_cylindrical_FOV(true);
  pm->set_use_actual_detector_boundaries(false);
  ForwardProjectorByBinUsingProjMatrixByBin fm(pm);
  fm.set_up(w.pdi, w.image);
  ProjDataInMemory A1(w.exam, w.pdi), A2(w.exam, w.pdi), A3(w.exam, w.pdi);
  A1.fill(0.F);
  A2.fill(0.F);
  A3.fill(0.F);
  otf.forward_project(A1, *w.make_img(x), 0, 1, true);
  fm.forward_project(A2, *w.make_img(x), 0, 1, true);
  fm.forward_project(A3, *w.make_img(xm), 0, 1, true);
  const std::vector<float> a1 = w.read(A1), a2 = w.read(A2), a3 = w.read(A3);
  double gmax = 0;
  for (float v : a2)
    gmax = std::max(gmax, (double)std::fabs(v));
  long bad = 0, unexplained = 0;
  w.for_bins([&](int s, int v, int k, int a, int t) {
    const int b = w.idx(s, v, k, a, t);
    if (lor_end_point_on_voxel_boundary(w, true, s, v, a, t))
      return;
    if (std::fabs(double(a1[b]) - a2[b]) > 1e-4 * gmax)
      ++bad;
    if (std::fabs(double(a1[b]) - a3[b]) > 1e-4 * gmax)
      ++unexplained;
  });
  char buf[256];
  std::snprintf(buf, sizeof buf, "on-the-fly ray tracing forward projector differs from the ray-tracing matrix on %ld of %d bins for an image whose planes are numbered -2..2 ",
                bad, w.nbins);
  if (bad == 0)
    {
      g_otf_first_plane = 1;
      ++g_checks;
    }
  else
    {
      g_otf_first_plane = 0;
      if (unexplained == 0)
        known_candidate(keyC, std::string(buf)
                                  + "[equal to the matrix projection of the image with the planes of negative index set to 0: proj_Siddon tests "
                                    "`plane >= 0` instead of `plane >= min_index` (assert(min_index == 0) compiled out); with a positive first "
                                    "plane it reads before the first plane: such grids are not given to it] "
                                  + w.desc);
      else
        oracle(false, std::string(buf) + "(" + std::to_string(unexplained) + " bins also differ from the projection without the planes of negative index) " + w.desc);
    }
  g_counts["otf_first_plane_probe_handles_offset_grids"] = g_otf_first_plane;
}

int
main(int argc, char** argv)
{
  if (argc < 5)
    return 2;
  vh::quiet();
  vh::Rng rng(std::strtoull(argv[1], nullptr, 10) * 1315423911ULL + 4);
  const bool thorough = std::string(argv[2]) == "thorough";
  g_ops = std::fopen(argv[3], "w");
  g_out = std::fopen(argv[4], "w");
  g_orc = std::fopen((std::string(argv[4]) + ".oracle").c_str(), "w");

  otf_first_plane_probe();

  // worlds: fixed mix of kinds (0 cyl, 1 cyl TOF, 2 blocks, 3 blocks TOF)
  std::vector<int> kinds;
  if (thorough)
    {
      for (int rep = 0; rep < 10; ++rep)
        for (int k : { 0, 0, 0, 1, 1, 2, 3, 0 })
          kinds.push_back(k);
    }
  else
    kinds = { 0, 0, 0, 1, 1, 2, 3, 0 };
  int wid = 0;
  for (int kind : kinds)
    {
      World w;
      try
        {
          make_world(w, rng, kind, thorough, /*even_views*/ kind == 0 && (wid % 3 == 0), /*force_mash*/ kind == 0 && (wid % 3 == 2),
                     /*shaped*/ wid % 2 == 1 || wid % 8 == 6);
        }
      catch (std::exception& e)
        {
          std::fprintf(g_orc, "NOTE world kind %d could not be constructed: %s\n", kind, e.what());
          g_counts["worlds_failed"]++;
          continue;
        }
      ++wid;
      g_counts["worlds"]++;
      {
        std::ostringstream op;
        op << "geom " << w.minSeg << " " << w.maxSeg << " " << w.minView << " " << w.maxView << " " << w.minT << " " << w.maxT << " "
           << w.minK << " " << w.maxK;
        for (int s = w.minSeg; s <= w.maxSeg; ++s)
          op << " " << w.aMin(s) << "," << w.aMax(s);
        emit(op.str(), "ok " + std::to_string(w.nbins));
      }
      const int nset = thorough ? 3 : 2;
      for (int si = 0; si < nset; ++si)
        {
          MSet ms;
          ms.type = (!w.blocks && si == nset - 1 && (wid % 2 == 1)) ? 1 : 0;
          ms.ntl = rng.range(1, 3);
          ms.s90 = rng.coin();
          ms.s180 = rng.coin();
          ms.sseg = rng.coin();
          ms.ss = rng.coin();
          ms.sz = rng.coin();
          if (si == 0)
            ms.s90 = ms.s180 = ms.sseg = ms.ss = ms.sz = true; // the default settings
          ms.cylfov = rng.range(0, 3) != 0;
          ms.actual = rng.range(0, 3) == 0;
          try
            {
              run_setting(w, ms, rng, thorough, wid);
            }
          catch (std::exception& e)
            {
              // a setting the library refuses for this geometry: say so, do not count
              std::fprintf(g_orc, "NOTE setting skipped (%s | %s): %s\n", w.desc.c_str(), ms.desc().c_str(), e.what());
              g_counts[ms.type == 1 ? "interpolation_settings_refused" : "raytracing_settings_refused"]++;
            }
        }
      run_row_level(w, rng, thorough);
      run_on_the_fly(w, rng, thorough, true);
      run_on_the_fly(w, rng, thorough, false);
    }
  // the full cross product field of view x symmetry flags x rays x detector boundaries on small fixed worlds (non-TOF with
  // 8 and with 6 views, TOF), and the complete differential + oracles of run_setting for members of it, always including
  // the square field of view with every view symmetry switched off
  {
    static const int nxys[] = { 6, 7, 8, 9 };
    static const float fracs[] = { 0.7F, 0.85F, 1.F };
    const int nrep = thorough ? 8 : 1;
    for (int rep = 0; rep < nrep; ++rep)
      for (int kind = 0; kind < 3; ++kind)
        {
          // kind 0: 16 detectors (8 views, a multiple of 4), 1: 12 detectors (6 views), 2: TOF, 12 detectors
          World w;
          try
            {
              make_small_world(w, kind == 0 ? 16 : 12, kind == 2, nxys[rng.range(0, 3)], fracs[rng.range(0, 2)]);
              run_fov_cross_product(w, rng, thorough);
              g_counts["cross_product_worlds"]++;
              ++wid;
              emit_geom(w);
              const int nsample = thorough ? 4 : 2;
              for (int si = 0; si < nsample; ++si)
                {
                  MSet ms;
                  ms.type = 0;
                  ms.ntl = rng.range(1, 3);
                  ms.s90 = ms.s180 = false; // rows of all views computed directly
                  ms.sseg = rng.coin();
                  ms.ss = rng.coin();
                  ms.sz = rng.coin();
                  ms.cylfov = false;
                  ms.actual = false;
                  if (si > 0)
                    {
                      ms.s90 = rng.coin();
                      ms.s180 = rng.coin();
                      ms.cylfov = rng.coin();
                      ms.actual = rng.range(0, 2) == 0;
                    }
                  run_setting(w, ms, rng, thorough, wid);
                  g_counts["cross_product_members_with_full_differential"]++;
                }
            }
          catch (std::exception& e)
            {
              oracle(false, std::string("cross product world ") + w.desc + " aborted: " + e.what());
            }
        }
  }
  for (int k = 0; k < (thorough ? 120 : 10); ++k)
    {
      World w;
      try
        {
          make_otf_world(w, rng, k);
          run_on_the_fly(w, rng, thorough, true);
          run_on_the_fly(w, rng, thorough, false);
          g_counts["otf_worlds"]++;
        }
      catch (std::exception& e)
        {
          std::fprintf(g_orc, "NOTE on-the-fly world %d skipped: %s\n", k, e.what());
        }
    }
  for (int h = 0; h < (thorough ? 12 : 3); ++h)
    {
      try
        {
          run_history(rng, thorough, h);
        }
      catch (std::exception& e)
        {
          oracle(false, std::string("history ") + std::to_string(h) + " aborted: " + e.what());
        }
    }
  for (auto& kv : g_counts)
    std::fprintf(g_orc, "COUNT %s %ld\n", kv.first.c_str(), kv.second);
  std::fprintf(g_orc, "ORACLE-DONE checks=%ld fails=%ld\n", g_checks, g_fails);
  std::fclose(g_ops);
  std::fclose(g_out);
  std::fclose(g_orc);
  return 0;
}
