// C04 — implementation side: matched projector pairs are linear, adjoint and additive over pieces.
//
// Drives the REAL STIR API in-process:
//   ProjMatrixByBinUsingRayTracing / ProjMatrixByBinUsingInterpolation (rows via get_proj_matrix_elems_for_one_bin),
//   ForwardProjectorByBinUsingProjMatrixByBin, BackProjectorByBinUsingProjMatrixByBin, ProjectorByBinPairUsingProjMatrixByBin
//   (forward_project(ProjData&, image, subset_num, num_subsets, zero), forward_project(RelatedViewgrams&, sub-range),
//    set_up / start_accumulating_in_new_target / back_project(ProjData, subset) / back_project(RelatedViewgrams, sub-range) /
//    get_output / back_project(image, ProjData, subset)), ForwardProjectorByBinUsingRayTracing (on-the-fly Siddon),
//   on ProjDataInMemory, for generated cylindrical and BlocksOnCylindrical geometries, TOF and non-TOF.
//
// Usage: c04_projectors <seed> <quick|thorough> <opsfile> <implfile>
//   <opsfile>  one operation per line (protocol: see lean/Driver/C04.lean); the explicit matrix rows (hex floats), the
//              symmetry tables (related view/segments, related axial/tangential positions) and the random images/data
//              are part of the stream;
//   <implfile> the implementation's answer per operation (hex floats);
//   <implfile>.oracle  verdicts of the property oracle, evaluated on the implementation alone.
#include "stir_fixtures.h"
#include "common.h"
#include "stir/recon_buildblock/ProjMatrixByBinUsingRayTracing.h"
#include "stir/recon_buildblock/ProjMatrixByBinUsingInterpolation.h"
#include "stir/recon_buildblock/ForwardProjectorByBinUsingProjMatrixByBin.h"
#include "stir/recon_buildblock/BackProjectorByBinUsingProjMatrixByBin.h"
#include "stir/recon_buildblock/ForwardProjectorByBinUsingRayTracing.h"
#include "stir/recon_buildblock/ProjectorByBinPairUsingProjMatrixByBin.h"
#include "stir/recon_buildblock/ProjMatrixElemsForOneBin.h"
#include "stir/recon_buildblock/DataSymmetriesForBins.h"
#include "stir/ProjDataInMemory.h"
#include "stir/RelatedViewgrams.h"
#include "stir/Viewgram.h"
#include "stir/ExamInfo.h"
#include <array>
#include <map>
#include <set>
#include <cmath>
#include <algorithm>

using namespace stir;

typedef std::vector<std::pair<std::array<int, 3>, float>> RowT;
static const double EPS = 1.0 / 16777216.0; // 2^-24

static FILE *g_ops, *g_out, *g_orc;
static long g_checks = 0, g_fails = 0;
static std::map<std::string, long> g_counts;

static void
emit(const std::string& op, const std::string& ans)
{
  std::fputs(op.c_str(), g_ops);
  std::fputc('\n', g_ops);
  std::fputs(ans.c_str(), g_out);
  std::fputc('\n', g_out);
}

static void
oracle(bool ok, const std::string& what)
{
  ++g_checks;
  if (!ok)
    {
      ++g_fails;
      if (g_fails <= 40)
        std::fprintf(g_orc, "ORACLE-FAIL %s\n", what.c_str());
    }
}

static std::set<std::string> g_known_emitted;
static void
known_candidate(const std::string& key, const std::string& what)
{
  ++g_checks;
  if (g_known_emitted.insert(key).second)
    std::fprintf(g_orc, "KNOWN-CANDIDATE %s %s\n", key.c_str(), what.c_str());
}

static std::string
hexlist(const std::vector<float>& v)
{
  std::string s;
  s.reserve(v.size() * 16);
  char buf[48];
  for (std::size_t i = 0; i < v.size(); ++i)
    {
      std::snprintf(buf, sizeof buf, i ? " %a" : "%a", (double)v[i]);
      s += buf;
    }
  return s;
}

static std::string
intlist(const std::vector<float>& v)
{
  std::string s;
  char buf[32];
  for (std::size_t i = 0; i < v.size(); ++i)
    {
      std::snprintf(buf, sizeof buf, " %d", (int)v[i]);
      s += buf;
    }
  return s;
}

// ------------------------------------------------------------------------------------------------ geometry

static shared_ptr<Scanner>
blocks_scanner(int N, int R, int tof_bins)
{
  // N/2 buckets of one block of 2 crystals; radius such that the blocks form the polygon.
  // (constructed as "Cylindrical" first: with "BlocksOnCylindrical" in the constructor the TOF consistency check
  //  runs before max_FOV_radius is initialised and rejects every TOF scanner)
  const int cpb = 2, nblk = N / cpb;
  const float cs = 8.F;
  const float rad = cs * cpb / (2 * std::tan(3.14159265F / 2 / nblk)) * 0.99F;
  shared_ptr<Scanner> s(new Scanner(Scanner::User_defined_scanner, std::string("verif_blocks"), N, R, N / 2 - 1, N / 2 - 1, rad, 2.F,
                                    4.F, 4.F, 0.F, 1, 1, R, cpb, 1, 1, 1, 0.1F, 511.F, (short)tof_bins, tof_bins > 0 ? 100.F : -1.F,
                                    tof_bins > 0 ? 400.F : -1.F, "Cylindrical", 4.F, cs, 4.F * R, cs * cpb));
  s->set_scanner_geometry("BlocksOnCylindrical");
  s->set_up();
  return s;
}

struct World
{
  shared_ptr<ProjDataInfo> pdi;
  shared_ptr<VoxelsOnCartesianGrid<float>> image; // grid + a zero image
  shared_ptr<ExamInfo> exam;
  std::string desc;
  bool blocks = false, tof = false, mashed = false;
  int span = 1;
  int minSeg, maxSeg, minView, maxView, minT, maxT, minK, maxK;
  std::vector<int> axMin, axMax, segOff;
  int nbins = 0;
  int zmin, zmax, ymin, ymax, xmin, xmax, nvox;

  int aMin(int s) const { return axMin[s - minSeg]; }
  int aMax(int s) const { return axMax[s - minSeg]; }
  int idx(int s, int v, int k, int a, int t) const
  {
    const int nK = maxK - minK + 1, nA = aMax(s) - aMin(s) + 1, nT = maxT - minT + 1;
    return segOff[s - minSeg] + (((v - minView) * nK + (k - minK)) * nA + (a - aMin(s))) * nT + (t - minT);
  }
  int lin(int z, int y, int x) const { return ((z - zmin) * (ymax - ymin + 1) + (y - ymin)) * (xmax - xmin + 1) + (x - xmin); }

  void finish()
  {
    minSeg = pdi->get_min_segment_num();
    maxSeg = pdi->get_max_segment_num();
    minView = pdi->get_min_view_num();
    maxView = pdi->get_max_view_num();
    minT = pdi->get_min_tangential_pos_num();
    maxT = pdi->get_max_tangential_pos_num();
    minK = pdi->get_min_tof_pos_num();
    maxK = pdi->get_max_tof_pos_num();
    nbins = 0;
    for (int s = minSeg; s <= maxSeg; ++s)
      {
        axMin.push_back(pdi->get_min_axial_pos_num(s));
        axMax.push_back(pdi->get_max_axial_pos_num(s));
        segOff.push_back(nbins);
        nbins += (maxView - minView + 1) * (maxK - minK + 1) * (axMax.back() - axMin.back() + 1) * (maxT - minT + 1);
      }
    const IndexRange<3> r = image->get_index_range();
    zmin = r.get_min_index();
    zmax = r.get_max_index();
    ymin = r[zmin].get_min_index();
    ymax = r[zmin].get_max_index();
    xmin = r[zmin][ymin].get_min_index();
    xmax = r[zmin][ymin].get_max_index();
    nvox = (zmax - zmin + 1) * (ymax - ymin + 1) * (xmax - xmin + 1);
  }

  template <class F>
  void for_bins(F f) const
  {
    for (int s = minSeg; s <= maxSeg; ++s)
      for (int v = minView; v <= maxView; ++v)
        for (int k = minK; k <= maxK; ++k)
          for (int a = aMin(s); a <= aMax(s); ++a)
            for (int t = minT; t <= maxT; ++t)
              f(s, v, k, a, t);
  }

  void fill(ProjDataInMemory& pd, const std::vector<float>& vals) const
  {
    for (int s = minSeg; s <= maxSeg; ++s)
      for (int v = minView; v <= maxView; ++v)
        for (int k = minK; k <= maxK; ++k)
          {
            Viewgram<float> vg = pd.get_empty_viewgram(v, s, false, k);
            for (int a = aMin(s); a <= aMax(s); ++a)
              for (int t = minT; t <= maxT; ++t)
                vg[a][t] = vals[idx(s, v, k, a, t)];
            pd.set_viewgram(vg);
          }
  }
  std::vector<float> read(const ProjData& pd) const
  {
    std::vector<float> vals(nbins);
    for (int s = minSeg; s <= maxSeg; ++s)
      for (int v = minView; v <= maxView; ++v)
        for (int k = minK; k <= maxK; ++k)
          {
            Viewgram<float> vg = pd.get_viewgram(v, s, false, k);
            for (int a = aMin(s); a <= aMax(s); ++a)
              for (int t = minT; t <= maxT; ++t)
                vals[idx(s, v, k, a, t)] = vg[a][t];
          }
    return vals;
  }
  shared_ptr<DiscretisedDensity<3, float>> make_img(const std::vector<float>& vals) const
  {
    shared_ptr<DiscretisedDensity<3, float>> im(image->get_empty_copy());
    for (int z = zmin; z <= zmax; ++z)
      for (int y = ymin; y <= ymax; ++y)
        for (int x = xmin; x <= xmax; ++x)
          (*im)[z][y][x] = vals[lin(z, y, x)];
    return im;
  }
  std::vector<float> read_img(const DiscretisedDensity<3, float>& im) const
  {
    std::vector<float> vals(nvox);
    for (int z = zmin; z <= zmax; ++z)
      for (int y = ymin; y <= ymax; ++y)
        for (int x = xmin; x <= xmax; ++x)
          vals[lin(z, y, x)] = im[z][y][x];
    return vals;
  }
};

static bool
make_world(World& w, vh::Rng& rng, int kind, bool thorough, bool even_views, bool force_mash)
{
  // kind 0: cylindrical non-TOF, 1: cylindrical TOF, 2: blocks non-TOF, 3: blocks TOF
  w = World();
  w.blocks = kind >= 2;
  w.tof = kind == 1 || kind == 3;
  const int R = rng.range(2, 3);
  int N, span = 1, mash = 1, nxy;
  shared_ptr<Scanner> sc;
  if (!w.blocks)
    {
      static const int Ns[] = { 8, 10, 12, 14, 16 };
      N = Ns[rng.range(0, thorough ? 4 : 3)];
      if (w.tof && N > 12)
        N = 12;
      if (even_views && (N / 2) % 2 != 0)
        N += 2; // 8, 12, 16: even number of views, as the on-the-fly projector requires
      span = rng.range(0, 2) == 0 ? 3 : 1;
      if (force_mash && (N / 2) % 2 != 0)
        N += 2;
      if ((N / 2) % 2 == 0 && (force_mash || rng.range(0, 3) == 0) && !even_views)
        mash = 2;
      nxy = rng.range(5, 9);
      sc = vh::make_scanner(N, R, w.tof ? 5 : -1);
    }
  else
    {
      N = rng.coin() ? 12 : 16;
      if (w.tof)
        N = 12;
      nxy = rng.coin() ? 15 : 17;
      sc = blocks_scanner(N, R, w.tof ? 5 : -1);
    }
  const int views = N / 2 / mash;
  const int maxtang = N / 2 - 1;
  int ntang = rng.range(std::max(3, maxtang - 2), maxtang);
  if (w.blocks)
    ntang = maxtang;
  int tofmash = 0;
  if (w.tof)
    tofmash = (!w.blocks && rng.range(0, 3) == 0) ? 5 : 1; // 5: all TOF bins mashed into one
  w.mashed = mash != 1;
  w.span = span;
  const int nzvar = rng.range(0, 5); // 1: two planes fewer, 2: two planes more
  const bool arccorr = !w.blocks && !w.tof && rng.range(0, 3) == 0;
  w.pdi = vh::make_pdi(sc, span, R - 1, views, ntang, arccorr, w.blocks ? 0 : tofmash);
  if (w.blocks && w.tof)
    w.pdi->set_tof_mash_factor(tofmash);
  // number of planes: usually all 2R-1 planes of the scanner; sometimes fewer or more, so that rows contain planes
  // outside the image (the z guard of forward_project/back_project)
  int nz = 2 * R - 1;
  if (!w.blocks && nzvar == 1)
    nz = 2 * R - 3;
  if (!w.blocks && nzvar == 2)
    nz = 2 * R + 1;
  // voxel size chosen so that the image covers 50-100% of the scanner's transaxial field of view
  // (with zoom 1 only the central tangential positions would intersect a 5-9 voxel image)
  static const float fracs[] = { 0.5F, 0.7F, 0.85F, 1.F };
  const float frac = fracs[rng.range(0, 3)];
  const float zoom = w.blocks ? (rng.coin() ? 0.5F : 0.4F)
                              : sc->get_default_bin_size() * nxy / (2.F * sc->get_inner_ring_radius() * frac);
  w.image = vh::make_image(*w.pdi, zoom, nxy, nz);
  w.exam.reset(new ExamInfo);
  w.exam->imaging_modality = ImagingModality::PT;
  w.image->set_exam_info(*w.exam);
  w.finish();
  std::ostringstream d;
  d << (w.blocks ? "blocks" : "cyl") << " N=" << N << " R=" << R << " span=" << span << " viewmash=" << mash << " views=" << views
    << " tang=" << ntang << " tofmash=" << tofmash << " nxy=" << nxy << " nz=" << nz << " voxel=" << w.image->get_voxel_size().x() << " arccorr=" << arccorr;
  w.desc = d.str();
  return true;
}

// ------------------------------------------------------------------------------------------------ matrices

struct MSet
{
  int type; // 0 ray tracing, 1 interpolation
  int ntl;
  bool s90, s180, sseg, ss, sz;
  bool cylfov, actual;
  std::string desc() const
  {
    std::ostringstream d;
    d << (type == 0 ? "raytracing" : "interpolation") << " ntl=" << ntl << " sym=" << s90 << s180 << sseg << ss << sz
      << " cylfov=" << cylfov << " actual=" << actual;
    return d.str();
  }
};

static shared_ptr<ProjMatrixByBin>
make_matrix(const MSet& m, bool cache, bool nosym)
{
  const bool s90 = !nosym && m.s90, s180 = !nosym && m.s180, sseg = !nosym && m.sseg, ss = !nosym && m.ss, sz = !nosym && m.sz;
  if (m.type == 0)
    {
      shared_ptr<ProjMatrixByBinUsingRayTracing> pm(new ProjMatrixByBinUsingRayTracing);
      pm->set_num_tangential_LORs(m.ntl);
      pm->set_restrict_to_cylindrical_FOV(m.cylfov);
      pm->set_use_actual_detector_boundaries(m.actual);
      pm->set_do_symmetry_90degrees_min_phi(s90);
      pm->set_do_symmetry_180degrees_min_phi(s180);
      pm->set_do_symmetry_swap_segment(sseg);
      pm->set_do_symmetry_swap_s(ss);
      pm->set_do_symmetry_shift_z(sz);
      pm->enable_cache(cache);
      return pm;
    }
  shared_ptr<ProjMatrixByBinUsingInterpolation> pm(new ProjMatrixByBinUsingInterpolation);
  std::ostringstream p;
  p << "Interpolation Matrix Parameters :=\n"
    << "do_symmetry_90degrees_min_phi := " << (s90 ? 1 : 0) << "\n"
    << "do_symmetry_180degrees_min_phi := " << (s180 ? 1 : 0) << "\n"
    << "do_symmetry_swap_segment := " << (sseg ? 1 : 0) << "\n"
    << "do_symmetry_swap_s := " << (ss ? 1 : 0) << "\n"
    << "do_symmetry_shift_z := " << (sz ? 1 : 0) << "\n"
    << "End Interpolation Matrix Parameters :=\n";
  std::istringstream is(p.str());
  if (!pm->parse(is))
    throw std::runtime_error("interpolation matrix: parse failed");
  pm->enable_cache(cache);
  return pm;
}

static RowT
get_row(const ProjMatrixByBin& pm, const Bin& b)
{
  ProjMatrixElemsForOneBin r;
  pm.get_proj_matrix_elems_for_one_bin(r, b);
  RowT out;
  for (ProjMatrixElemsForOneBin::const_iterator it = r.begin(); it != r.end(); ++it)
    out.push_back(std::make_pair(std::array<int, 3>{ it->coord1(), it->coord2(), it->coord3() }, it->get_value()));
  return out;
}

// ------------------------------------------------------------------------------------------------ one matrix setting

struct Piece
{ // a set of bins given by membership flags over the canonical enumeration
  std::vector<char> in;
};

struct Run
{
  const World& w;
  vh::Rng& rng;
  std::vector<RowT> rows; // probe rows (same settings, separate object, cache off), canonical order
  int maxlen = 0;
  Run(const World& w_, vh::Rng& r_) : w(w_), rng(r_) {}

  std::vector<float> rand_img(int lo, int hi, int zero_pct)
  {
    std::vector<float> v(w.nvox);
    for (auto& x : v)
      x = rng.range(0, 99) < zero_pct ? 0.F : (float)rng.range(lo, hi);
    return v;
  }
  std::vector<float> rand_dat(int lo, int hi, int zero_pct)
  {
    std::vector<float> v(w.nbins);
    for (auto& x : v)
      x = rng.range(0, 99) < zero_pct ? 0.F : (float)rng.range(lo, hi);
    return v;
  }
  // exact-ish reference in double from the probe rows:  (A x)_b, magnitude
  void ref_fwd(const std::vector<float>& x, std::vector<double>& val, std::vector<double>& mag) const
  {
    val.assign(w.nbins, 0.);
    mag.assign(w.nbins, 0.);
    for (int b = 0; b < w.nbins; ++b)
      for (auto& e : rows[b])
        if (e.first[0] >= w.zmin && e.first[0] <= w.zmax)
          {
            const double xv = x[w.lin(e.first[0], e.first[1], e.first[2])];
            val[b] += xv * e.second;
            mag[b] += std::fabs(xv * e.second);
          }
  }
  void ref_bck(const std::vector<float>& y, const std::vector<char>& in, std::vector<double>& val, std::vector<double>& mag,
               std::vector<int>& cnt) const
  {
    val.assign(w.nvox, 0.);
    mag.assign(w.nvox, 0.);
    cnt.assign(w.nvox, 0);
    for (int b = 0; b < w.nbins; ++b)
      if (in[b] && y[b] != 0)
        for (auto& e : rows[b])
          if (e.first[0] >= w.zmin && e.first[0] <= w.zmax)
            {
              const int v = w.lin(e.first[0], e.first[1], e.first[2]);
              val[v] += double(y[b]) * e.second;
              mag[v] += std::fabs(double(y[b]) * e.second);
              ++cnt[v];
            }
  }
};

static std::string
relstr(const std::vector<AxTangPosNumbers>& l)
{
  std::ostringstream s;
  for (auto& p : l)
    s << " " << p[1] << "," << p[2];
  return s.str();
}

static void
run_setting(const World& w, const MSet& ms, vh::Rng& rng, bool thorough, int wid)
{
  Run R(w, rng);
  char buf[256];
  // ---- probe (rows + symmetries) and no-symmetry reference
  shared_ptr<ProjMatrixByBin> probe = make_matrix(ms, false, false);
  probe->set_up(w.pdi, w.image);
  shared_ptr<ProjMatrixByBin> ref = make_matrix(ms, false, true);
  ref->set_up(w.pdi, w.image);
  const DataSymmetriesForBins* sym = probe->get_symmetries_ptr();

  emit("cfg world=" + std::to_string(wid) + " " + w.desc + " | " + ms.desc(), "ok");
  emit("rowset", "ok");
  R.rows.assign(w.nbins, RowT());
  long row_out_of_grid = 0, row_dev = 0;
  double worst_dev = 0;
  w.for_bins([&](int s, int v, int k, int a, int t) {
    const Bin b(s, v, a, t, k);
    RowT r = get_row(*probe, b);
    const int i = w.idx(s, v, k, a, t);
    R.rows[i] = r;
    R.maxlen = std::max<int>(R.maxlen, r.size());
    std::string op = "row " + std::to_string(s) + " " + std::to_string(v) + " " + std::to_string(a) + " " + std::to_string(t) + " "
                     + std::to_string(k);
    for (auto& e : r)
      {
        std::snprintf(buf, sizeof buf, " %d,%d,%d:%a", e.first[0], e.first[1], e.first[2], (double)e.second);
        op += buf;
        if (e.first[1] < w.ymin || e.first[1] > w.ymax || e.first[2] < w.xmin || e.first[2] > w.xmax)
          ++row_out_of_grid; // the projectors index y and x unchecked
        if (e.first[0] < w.zmin || e.first[0] > w.zmax)
          g_counts["row_elements_outside_the_image_in_z"]++; // these exercise the z guard of forward_project/back_project
      }
    emit(op, std::to_string(i) + " " + std::to_string(r.size()));
    // the rows the projectors use must not depend on the symmetry settings (overlap with C03; library tolerance 2e-3)
    RowT r0 = get_row(*ref, b);
    std::map<std::array<int, 3>, double> m;
    double sum = 0, dev = 0;
    for (auto& e : r0)
      {
        m[e.first] += e.second;
        sum += std::fabs(e.second);
      }
    for (auto& e : r)
      m[e.first] -= e.second;
    for (auto& kv : m)
      dev += std::fabs(kv.second);
    if (dev > 1e-3 * sum + 1e-12)
      ++row_dev;
    if (sum > 0)
      worst_dev = std::max(worst_dev, dev / sum);
  });
  oracle(row_out_of_grid == 0, "rows contain voxels outside the image grid in y/x (" + std::to_string(row_out_of_grid) + ") " + w.desc
                                   + " | " + ms.desc());
  // informational only (C03's subject; LORs whose end points fall on a voxel boundary legitimately differ)
  g_counts["bins_whose_row_differs_from_the_no_symmetry_row_by_more_than_1e-3"] += row_dev;
  (void)worst_dev;

  // ---- symmetries as data
  emit("sym", "ok");
  std::vector<std::pair<int, int>> basics; // (view, seg)
  std::map<std::pair<int, int>, std::vector<ViewSegmentNumbers>> related;
  for (int s = w.minSeg; s <= w.maxSeg; ++s)
    for (int v = w.minView; v <= w.maxView; ++v)
      {
        const ViewSegmentNumbers vs(v, s);
        if (!static_cast<const DataSymmetriesForViewSegmentNumbers*>(sym)->is_basic(vs))
          continue;
        std::vector<ViewSegmentNumbers> rel;
        sym->get_related_view_segment_numbers(rel, vs);
        basics.push_back(std::make_pair(v, s));
        related[std::make_pair(v, s)] = rel;
        std::ostringstream op;
        op << "vs " << v << " " << s;
        for (auto& r : rel)
          op << " " << r.view_num() << "," << r.segment_num();
        emit(op.str(), std::to_string(rel.size()));
      }
  for (auto& bs : basics)
    for (int k = w.minK; k <= w.maxK; ++k)
      for (int t = w.minT; t <= w.maxT; ++t)
        for (int a = w.aMin(bs.second); a <= w.aMax(bs.second); ++a)
          {
            Bin bb(bs.second, bs.first, a, t, k);
            sym->find_basic_bin(bb);
            std::vector<AxTangPosNumbers> l;
            sym->get_related_bins_factorised(l, bb, w.aMin(bs.second), w.aMax(bs.second), w.minT, w.maxT);
            std::ostringstream op;
            op << "rel " << bs.first << " " << bs.second << " " << k << " " << a << " " << t << relstr(l);
            emit(op.str(), std::to_string(l.size()));
          }
  g_counts["row_sets"]++;
  g_counts["rows"] += w.nbins;

  // which subset does a (view, seg) belong to: via its basic pair (independent of find_basic_vs_nums_in_subset)
  auto basic_view_of = [&](int v, int s) {
    ViewSegmentNumbers vs(v, s);
    sym->find_basic_view_segment_numbers(vs);
    return vs.view_num();
  };
  auto subset_piece = [&](int i, int n) {
    std::vector<char> in(w.nbins, 0);
    w.for_bins([&](int s, int v, int k, int a, int t) {
      if ((basic_view_of(v, s) - w.minView) % n == i)
        in[w.idx(s, v, k, a, t)] = 1;
    });
    return in;
  };
  auto group_piece = [&](const std::vector<ViewSegmentNumbers>& rel, int k, int a0, int a1, int t0, int t1) {
    std::vector<char> in(w.nbins, 0);
    for (auto& r : rel)
      for (int a = a0; a <= a1; ++a)
        for (int t = t0; t <= t1; ++t)
          in[w.idx(r.segment_num(), r.view_num(), k, a, t)] = 1;
    return in;
  };
  const std::vector<char> all_in(w.nbins, 1);
  const int V = w.maxView - w.minView + 1;

  // ---- random inputs (shared by both cache modes)
  emit("grid " + std::to_string(w.zmin) + " " + std::to_string(w.zmax) + " " + std::to_string(w.ymin) + " " + std::to_string(w.ymax) + " "
           + std::to_string(w.xmin) + " " + std::to_string(w.xmax),
       "ok " + std::to_string(w.nvox));
  const std::vector<float> x = R.rand_img(-4, 4, 15), x2 = R.rand_img(-3, 3, 30), z0 = R.rand_img(1, 5, 0);
  const std::vector<float> y = R.rand_dat(-4, 4, 25), y2 = R.rand_dat(-3, 3, 40), p = R.rand_dat(5, 9, 0);
  emit("img x" + intlist(x), "ok " + std::to_string(w.nvox));
  emit("img z" + intlist(z0), "ok " + std::to_string(w.nvox));
  emit("dat y" + intlist(y), "ok " + std::to_string(w.nbins));
  emit("dat p" + intlist(p), "ok " + std::to_string(w.nbins));
  shared_ptr<DiscretisedDensity<3, float>> X = w.make_img(x), X2 = w.make_img(x2), Z0 = w.make_img(z0);
  std::vector<float> xl(w.nvox); // 2x + x2
  for (int i = 0; i < w.nvox; ++i)
    xl[i] = 2 * x[i] + x2[i];
  shared_ptr<DiscretisedDensity<3, float>> XL = w.make_img(xl);
  std::vector<float> yl(w.nbins);
  for (int i = 0; i < w.nbins; ++i)
    yl[i] = 2 * y[i] + y2[i];
  ProjDataInMemory Y(w.exam, w.pdi), Y2(w.exam, w.pdi), YL(w.exam, w.pdi);
  w.fill(Y, y);
  w.fill(Y2, y2);
  w.fill(YL, yl);

  std::vector<double> rf, rfm;
  R.ref_fwd(x, rf, rfm);
  std::vector<double> a1, m1, a2, m2, a3, m3; // exact-ish projections and magnitudes of x, x2 and 2x+x2
  R.ref_fwd(x, a1, m1);
  R.ref_fwd(x2, a2, m2);
  R.ref_fwd(xl, a3, m3);

  const std::string where0 = w.desc + " | " + ms.desc();

  for (int cache = 1; cache >= 0; --cache)
    {
      const std::string where = where0 + " cache=" + std::to_string(cache);
      shared_ptr<ProjMatrixByBin> pm = make_matrix(ms, cache != 0, false);
      ProjectorByBinPairUsingProjMatrixByBin pair(pm);
      if (pair.set_up(w.pdi, w.image) != Succeeded::yes)
        {
          oracle(false, "projector pair set_up failed " + where);
          continue;
        }
      shared_ptr<ForwardProjectorByBin> fwd = pair.get_forward_projector_sptr();
      shared_ptr<BackProjectorByBin> bck = pair.get_back_projector_sptr();
      shared_ptr<DataSymmetriesForViewSegmentNumbers> symvs(fwd->get_symmetries_used()->clone());
      emit(std::string("cache ") + (cache ? "1" : "0"), "ok");
      g_counts[cache ? "configs_cache_on" : "configs_cache_off"]++;

      auto forward = [&](const std::vector<float>& start, const DiscretisedDensity<3, float>& img, int i, int n, bool zero,
                         std::vector<float>& out) {
        ProjDataInMemory P(w.exam, w.pdi);
        w.fill(P, start);
        try
          {
            fwd->forward_project(P, img, i, n, zero);
          }
        catch (...)
          {
            return false;
          }
        out = w.read(P);
        return true;
      };
      auto backward = [&](const ProjData& D, int i, int n) { // fresh target
        shared_ptr<DiscretisedDensity<3, float>> im(w.image->get_empty_copy());
        im->fill(3.F); // must be overwritten
        bck->back_project(*im, D, i, n);
        return w.read_img(*im);
      };
      auto dotd = [&](const std::vector<float>& a, const std::vector<float>& b) {
        double s = 0;
        for (std::size_t i = 0; i < a.size(); ++i)
          s += double(a[i]) * b[i];
        return s;
      };
      // tolerance for <Ax,y> = <x,A'y> over a piece: float accumulation in both projections
      auto adj_tol = [&](const std::vector<char>& in, const std::vector<float>& xx, const std::vector<float>& yy) {
        double M = 0;
        std::vector<double> v, m;
        std::vector<int> c;
        R.ref_bck(yy, in, v, m, c);
        int C = 0;
        for (int i = 0; i < w.nvox; ++i)
          {
            M += std::fabs(xx[i]) * m[i];
            C = std::max(C, c[i]);
          }
        return 4 * EPS * (R.maxlen + C + 2) * M;
      };

      // ================= whole data: differential + matrix-product oracle
      std::vector<float> F;
      bool okF = forward(p, *X, 0, 1, true, F);
      emit("fwd F x p 0 1 1", okF ? hexlist(F) : "err");
      std::vector<float> B = backward(Y, 0, 1);
      {
        // matrix product, forward: every bin = sum over its row
        long bad = 0, bad_tof_zero = 0;
        for (int s = w.minSeg; s <= w.maxSeg && okF; ++s)
          for (int v = w.minView; v <= w.maxView; ++v)
            for (int k = w.minK; k <= w.maxK; ++k)
              for (int a = w.aMin(s); a <= w.aMax(s); ++a)
                for (int t = w.minT; t <= w.maxT; ++t)
                  {
                    const int i = w.idx(s, v, k, a, t);
                    if (std::fabs(F[i] - rf[i]) > 4 * EPS * (R.rows[i].size() + 1) * rfm[i])
                      {
                        ++bad;
                        if (k != 0 && F[i] == 0.F)
                          ++bad_tof_zero;
                      }
                  }
        std::snprintf(buf, sizeof buf, "forward projection differs from the sum over the matrix row for %ld of %d bins ", bad, w.nbins);
        if (bad > 0 && bad == bad_tof_zero && w.blocks && w.tof && !cache)
          known_candidate("explicit-symmetries-branch-skips-bins-with-nonzero-timing-pos:BlocksOnCylindrical:cache-disabled",
                          std::string(buf)
                              + "(all of them have timing_pos != 0 and are left 0): DataSymmetriesForBins_PET_CartesianGrid::"
                                "get_related_bins_factorised builds its comparison bin without the timing position, so "
                                "actual_forward_project/actual_back_project (cache disabled) never process TOF bins != 0; "
                              + where);
        else
          oracle(bad == 0 && okF, std::string(buf) + where);
        // matrix product, back
        std::vector<double> v, m;
        std::vector<int> c;
        R.ref_bck(y, all_in, v, m, c);
        long badb = 0;
        for (int i = 0; i < w.nvox; ++i)
          if (std::fabs(B[i] - v[i]) > 4 * EPS * (c[i] + 1) * m[i])
            ++badb;
        std::snprintf(buf, sizeof buf, "back projection differs from the transposed matrix product for %ld of %d voxels ", badb, w.nvox);
        if (badb > 0 && w.blocks && w.tof && !cache && bad == bad_tof_zero && bad > 0)
          known_candidate("explicit-symmetries-branch-skips-bins-with-nonzero-timing-pos:BlocksOnCylindrical:cache-disabled",
                          std::string(buf) + where);
        else
          oracle(badb == 0, std::string(buf) + where);
      }
      // adjointness, whole
      {
        const double l = dotd(F, y), r = dotd(x, B), tol = adj_tol(all_in, x, y);
        std::snprintf(buf, sizeof buf, "adjoint whole: <Ax,y>=%.9g <x,A'y>=%.9g tol=%.3g ", l, r, tol);
        oracle(okF && std::fabs(l - r) <= tol, std::string(buf) + where);
      }
      // linearity (forward in the image, back in the data)
      {
        std::vector<float> F2, FL;
        const std::vector<float> zeros(w.nbins, 0.F);
        bool ok = forward(zeros, *X2, 0, 1, true, F2) && forward(zeros, *XL, 0, 1, true, FL) && okF;
        long bad = 0;
        for (int i = 0; i < w.nbins && ok; ++i)
          if (std::fabs(double(FL[i]) - (2. * F[i] + F2[i])) > 4 * EPS * (R.rows[i].size() + 2) * (2 * m1[i] + m2[i] + m3[i]))
            ++bad;
        oracle(ok && bad == 0, "forward projection not linear: A(2x+x') != 2Ax + Ax' for " + std::to_string(bad) + " bins " + where);
        std::vector<float> B2 = backward(Y2, 0, 1), BL = backward(YL, 0, 1);
        std::vector<double> v1, n1, v2, n2, v3, n3;
        std::vector<int> c1, c2, c3;
        R.ref_bck(y, all_in, v1, n1, c1);
        R.ref_bck(y2, all_in, v2, n2, c2);
        R.ref_bck(yl, all_in, v3, n3, c3);
        long badb = 0;
        for (int i = 0; i < w.nvox; ++i)
          if (std::fabs(double(BL[i]) - (2. * B[i] + B2[i])) > 4 * EPS * (c1[i] + c2[i] + c3[i] + 3) * (2 * n1[i] + n2[i] + n3[i]))
            ++badb;
        oracle(badb == 0, "back projection not linear: A'(2y+y') != 2A'y + A'y' for " + std::to_string(badb) + " voxels " + where);
      }

      // ================= every (subset_num, num_subsets): oracle on the implementation
      std::vector<int> ns;
      for (int n = 1; n <= V; ++n)
        ns.push_back(n);
      if (thorough)
        ns.push_back(V + 1); // some subsets empty
      for (int n : ns)
        {
          ProjDataInMemory Pacc(w.exam, w.pdi); // successive subsets without zeroing into the same data
          w.fill(Pacc, p);
          std::vector<double> bsum(w.nvox, 0.);
          shared_ptr<DiscretisedDensity<3, float>> acc_img(w.image->get_empty_copy());
          for (int i = 0; i < n; ++i)
            {
              const std::vector<char> in = subset_piece(i, n);
              std::vector<float> Fz, Fk;
              const bool ok1 = forward(p, *X, i, n, true, Fz), ok2 = forward(p, *X, i, n, false, Fk);
              long frame_bad = 0, val_bad = 0;
              for (int b = 0; b < w.nbins && ok1 && ok2; ++b)
                {
                  if (!in[b])
                    {
                      // frame: untouched (zero=false), or zero (zero && n>1).  n == 1: every bin is in the subset.
                      if (Fk[b] != p[b] || Fz[b] != 0.F)
                        ++frame_bad;
                    }
                  else if (Fz[b] != F[b] || Fk[b] != F[b])
                    ++val_bad; // piece = restriction of the whole (same arithmetic, so exactly)
                }
              oracle(ok1 && ok2 && frame_bad == 0, "frame of forward_project(subset " + std::to_string(i) + "/" + std::to_string(n)
                                                        + "): " + std::to_string(frame_bad) + " bins outside the subset changed (zero=false) or not zero (zero=true) " + where);
              oracle(ok1 && ok2 && val_bad == 0, "forward_project(subset " + std::to_string(i) + "/" + std::to_string(n) + ") differs from the whole projection on "
                                                      + std::to_string(val_bad) + " bins of the subset " + where);
              // adjointness on the subset
              const std::vector<float> Bi = backward(Y, i, n);
              if (ok1)
                {
                  const double l = dotd(Fz, y) , r = dotd(x, Bi), tol = adj_tol(in, x, y);
                  // for n == 1 and zero=true the data are not zeroed but fully overwritten
                  std::snprintf(buf, sizeof buf, "adjoint subset %d/%d: <Ax,y>=%.9g <x,A'y>=%.9g tol=%.3g ", i, n, l, r, tol);
                  oracle(std::fabs(l - r) <= tol, std::string(buf) + where);
                }
              for (int v = 0; v < w.nvox; ++v)
                bsum[v] += Bi[v];
              fwd->forward_project(Pacc, *X, i, n, false);
            }
          bck->start_accumulating_in_new_target();
          for (int i = 0; i < n; ++i)
            bck->back_project(Y, i, n); // accumulates in the same target
          const std::vector<float> Facc = w.read(Pacc);
          long bad = 0;
          for (int b = 0; b < w.nbins && okF; ++b)
            if (Facc[b] != F[b])
              ++bad;
          oracle(okF && bad == 0, "forward projecting the " + std::to_string(n) + " subsets one after the other (zero=false) differs from projecting at once on "
                                      + std::to_string(bad) + " bins " + where);
          bck->get_output(*acc_img);
          const std::vector<float> Bacc = w.read_img(*acc_img);
          std::vector<double> v, m;
          std::vector<int> c;
          R.ref_bck(y, all_in, v, m, c);
          long badb = 0, badc = 0;
          for (int i = 0; i < w.nvox; ++i)
            {
              if (std::fabs(bsum[i] - B[i]) > 8 * EPS * (c[i] + n + 1) * m[i])
                ++badb;
              if (std::fabs(double(Bacc[i]) - B[i]) > 8 * EPS * (c[i] + 1) * m[i])
                ++badc;
            }
          oracle(badb == 0, "sum of the back projections of the " + std::to_string(n) + " subsets differs from back projecting at once on "
                                + std::to_string(badb) + " voxels " + where);
          oracle(badc == 0, "back projecting the " + std::to_string(n) + " subsets into one target (accumulation) differs from back projecting at once on "
                                + std::to_string(badc) + " voxels " + where);
          g_counts["subset_pairs"] += n;
        }

      // ================= differential: a sample of (subset_num, num_subsets, zero), chained without zeroing
      {
        std::vector<std::array<int, 3>> sample;
        const int n1 = V >= 2 ? rng.range(2, V) : 1;
        sample.push_back({ rng.range(0, n1 - 1), n1, 1 });
        sample.push_back({ rng.range(0, n1 - 1), n1, 0 });
        if (V >= 3)
          sample.push_back({ rng.range(0, 2), 3, (int)rng.coin() });
        sample.push_back({ 0, 1, 0 });
        for (auto& sp : sample)
          {
            std::vector<float> out;
            const bool ok = forward(p, *X, sp[0], sp[1], sp[2] != 0, out);
            std::snprintf(buf, sizeof buf, "fwd S x p %d %d %d", sp[0], sp[1], sp[2]);
            emit(buf, ok ? hexlist(out) : "err");
          }
        // chain: subsets of n2 one after the other into the same data, no zeroing
        const int n2 = V >= 2 ? 2 : 1;
        ProjDataInMemory P(w.exam, w.pdi);
        w.fill(P, p);
        std::string prev = "p";
        for (int i = 0; i < n2; ++i)
          {
            fwd->forward_project(P, *X, i, n2, false);
            const std::string name = "C" + std::to_string(i);
            std::snprintf(buf, sizeof buf, "fwd %s x %s %d %d 0", name.c_str(), prev.c_str(), i, n2);
            emit(buf, hexlist(w.read(P)));
            prev = name;
          }
        // error branches of forward_project(ProjData&, subset_num, num_subsets, zero)
        static const int bad_args[][2] = { { -1, 2 }, { 2, 2 }, { 0, 0 }, { 3, 1 }, { -1, 1 } };
        for (auto& ba : bad_args)
          {
            std::vector<float> out;
            const bool ok = forward(p, *X, ba[0], ba[1], true, out);
            std::snprintf(buf, sizeof buf, "fwd E x p %d %d 1", ba[0], ba[1]);
            emit(buf, ok ? hexlist(out) : "err");
            oracle(!ok, "forward_project accepted subset_num=" + std::to_string(ba[0]) + " num_subsets=" + std::to_string(ba[1]) + " " + where);
          }
      }

      // ================= related-viewgram groups and sub-ranges
      {
        const int ngroups = thorough ? 6 : 3;
        for (int gi = 0; gi < ngroups + 1; ++gi)
          {
            const std::pair<int, int> bs = basics[rng.range(0, (int)basics.size() - 1)];
            const int k = rng.range(w.minK, w.maxK);
            const std::vector<ViewSegmentNumbers>& rel = related[bs];
            int a0 = w.aMin(bs.second), a1 = w.aMax(bs.second), t0 = w.minT, t1 = w.maxT;
            if (gi > 0)
              { // random sub-range (gi == 0: the full range)
                a0 = rng.range(w.aMin(bs.second), w.aMax(bs.second));
                a1 = rng.range(a0, w.aMax(bs.second));
                t0 = rng.range(w.minT, w.maxT);
                t1 = rng.range(t0, w.maxT);
                if (gi == 1)
                  { // axial sub-range only: the (viewgrams, min_ax, max_ax) overloads
                    t0 = w.minT;
                    t1 = w.maxT;
                  }
              }
            auto fwd_call = [&](stir::RelatedViewgrams<float>& v) {
              if (gi == 0)
                fwd->forward_project(v);
              else if (gi == 1)
                fwd->forward_project(v, a0, a1);
              else
                fwd->forward_project(v, a0, a1, t0, t1);
            };
            auto bck_call = [&](const stir::RelatedViewgrams<float>& v) {
              if (gi == 0)
                bck->back_project(v);
              else if (gi == 1)
                bck->back_project(v, a0, a1);
              else
                bck->back_project(v, a0, a1, t0, t1);
            };
            const std::vector<char> in = group_piece(rel, k, a0, a1, t0, t1);
            // rel lists for this very range, as the projector will ask for them
            for (int t = t0; t <= t1; ++t)
              for (int a = a0; a <= a1; ++a)
                {
                  Bin bb(bs.second, bs.first, a, t, k);
                  sym->find_basic_bin(bb);
                  std::vector<AxTangPosNumbers> l;
                  sym->get_related_bins_factorised(l, bb, a0, a1, t0, t1);
                  std::ostringstream op;
                  op << "relr " << a << " " << t << relstr(l);
                  emit(op.str(), std::to_string(l.size()));
                }
            // forward: viewgrams taken from the pre-filled data, so that the frame inside the viewgrams is visible
            ProjDataInMemory P(w.exam, w.pdi);
            w.fill(P, p);
            ViewSegmentNumbers vsk(bs.first, bs.second);
            stir::RelatedViewgrams<float> vgs = P.get_related_viewgrams(vsk, symvs, false, k);
            fwd->set_input(*X);
            fwd_call(vgs);
            std::vector<float> ans;
            long frame_bad = 0, val_bad = 0;
            double lhs = 0;
            for (stir::RelatedViewgrams<float>::const_iterator it = vgs.begin(); it != vgs.end(); ++it)
              for (int a = w.aMin(it->get_segment_num()); a <= w.aMax(it->get_segment_num()); ++a)
                for (int t = w.minT; t <= w.maxT; ++t)
                  {
                    const float val = (*it)[a][t];
                    ans.push_back(val);
                    const int i = w.idx(it->get_segment_num(), it->get_view_num(), it->get_timing_pos_num(), a, t);
                    if (a < a0 || a > a1 || t < t0 || t > t1)
                      {
                        if (val != p[i])
                          ++frame_bad;
                      }
                    else
                      {
                        if (okF && val != F[i])
                          ++val_bad;
                        lhs += double(val) * y[i];
                      }
                  }
            std::snprintf(buf, sizeof buf, "fwdg G x p %d %d %d %d %d %d %d", bs.first, bs.second, k, a0, a1, t0, t1);
            emit(buf, hexlist(ans));
            std::snprintf(buf, sizeof buf, " group view=%d seg=%d tof=%d ax=%d..%d tang=%d..%d ", bs.first, bs.second, k, a0, a1, t0, t1);
            const std::string g = buf;
            oracle(frame_bad == 0, "forward_project(viewgrams, sub-range) changed " + std::to_string(frame_bad) + " bins outside the range" + g + where);
            // known-candidate class (see the whole-data check above): blocks geometry, TOF bin != 0, cache disabled:
            // the explicit-symmetries branch processes no position at all; signature = every bin of the range kept its
            // pre-filled value and nothing is back projected
            bool unprocessed = w.blocks && w.tof && !cache && k != 0;
            for (stir::RelatedViewgrams<float>::const_iterator it = vgs.begin(); unprocessed && it != vgs.end(); ++it)
              for (int a = a0; a <= a1; ++a)
                for (int t = t0; t <= t1; ++t)
                  if ((*it)[a][t] != p[w.idx(it->get_segment_num(), it->get_view_num(), it->get_timing_pos_num(), a, t)])
                    unprocessed = false;
            if (!unprocessed)
              oracle(val_bad == 0, "forward_project(viewgrams, sub-range) differs from the whole projection on " + std::to_string(val_bad) + " bins" + g + where);
            // back of the same piece, accumulated twice on top of a non-zero start (set_up clones the values)
            bck->set_up(w.pdi, Z0);
            emit("bsetup z", "ok");
            stir::RelatedViewgrams<float> yv = Y.get_related_viewgrams(vsk, symvs, false, k);
            // (the range-specific rel lists are consumed by the first op that uses them: send them again)
            auto send_relr = [&]() {
              for (int t = t0; t <= t1; ++t)
                for (int a = a0; a <= a1; ++a)
                  {
                    Bin bb(bs.second, bs.first, a, t, k);
                    sym->find_basic_bin(bb);
                    std::vector<AxTangPosNumbers> l;
                    sym->get_related_bins_factorised(l, bb, a0, a1, t0, t1);
                    std::ostringstream op;
                    op << "relr " << a << " " << t << relstr(l);
                    emit(op.str(), std::to_string(l.size()));
                  }
            };
            send_relr();
            bck_call(yv);
            std::snprintf(buf, sizeof buf, "bgrp y %d %d %d %d %d %d %d", bs.first, bs.second, k, a0, a1, t0, t1);
            emit(buf, "ok");
            shared_ptr<DiscretisedDensity<3, float>> o1(w.image->get_empty_copy());
            bck->get_output(*o1);
            emit("bout", hexlist(w.read_img(*o1)));
            bck->start_accumulating_in_new_target();
            emit("bstart", "ok");
            send_relr();
            bck_call(yv);
            emit(buf, "ok");
            shared_ptr<DiscretisedDensity<3, float>> o2(w.image->get_empty_copy());
            bck->get_output(*o2);
            const std::vector<float> G1 = w.read_img(*o2);
            emit("bout", hexlist(G1));
            send_relr();
            bck_call(yv);
            emit(buf, "ok");
            shared_ptr<DiscretisedDensity<3, float>> o3(w.image->get_empty_copy());
            bck->get_output(*o3);
            const std::vector<float> G2 = w.read_img(*o3);
            emit("bout", hexlist(G2));
            // oracle: start_accumulating resets (first output = z + piece, second = piece), accumulation doubles
            const std::vector<float> O1 = w.read_img(*o1);
            std::vector<double> v, m;
            std::vector<int> c;
            R.ref_bck(y, in, v, m, c);
            long bad1 = 0, bad2 = 0;
            for (int i = 0; i < w.nvox; ++i)
              {
                if (std::fabs(double(O1[i]) - (double(z0[i]) + G1[i])) > 8 * EPS * (c[i] + 1) * (m[i] + z0[i]))
                  ++bad1;
                if (std::fabs(double(G2[i]) - 2. * G1[i]) > 16 * EPS * (c[i] + 1) * m[i])
                  ++bad2;
              }
            oracle(bad1 == 0, "back_project without start_accumulating_in_new_target does not add to the existing target on " + std::to_string(bad1) + " voxels" + g + where);
            oracle(bad2 == 0, "second back_project into the same target does not accumulate on " + std::to_string(bad2) + " voxels" + g + where);
            const double r = dotd(x, G1), tol = adj_tol(in, x, y);
            std::snprintf(buf, sizeof buf, "adjoint: <Ax,y>=%.9g <x,A'y>=%.9g tol=%.3g", lhs, r, tol);
            for (int i = 0; i < w.nvox && unprocessed; ++i)
              if (G1[i] != 0.F)
                unprocessed = false;
            if (unprocessed)
              known_candidate("explicit-symmetries-branch-skips-bins-with-nonzero-timing-pos:BlocksOnCylindrical:cache-disabled",
                              "forward_project/back_project(viewgrams, sub-range) process no bin" + g + where);
            else
              oracle(std::fabs(lhs - r) <= tol, std::string(buf) + g + where);
            if (gi == 0 && !unprocessed)
              { // linearity on a symmetry group of viewgrams, with the arithmetic of RelatedViewgrams itself
                stir::RelatedViewgrams<float> e = vgs.get_empty_copy();
                bool okv = e.has_same_characteristics(vgs) && e.get_num_viewgrams() == vgs.get_num_viewgrams() && e.find_max() == 0.F
                           && e.find_min() == 0.F;
                stir::RelatedViewgrams<float> v1 = e, v2 = e, vl = e;
                fwd->set_input(*X);
                fwd->forward_project(v1);
                fwd->set_input(*X2);
                fwd->forward_project(v2);
                fwd->set_input(*XL);
                fwd->forward_project(vl);
                stir::RelatedViewgrams<float> comb = v1;
                comb *= 2.F;
                comb += v2;
                long badl = 0, badi = 0;
                stir::RelatedViewgrams<float>::const_iterator ic = comb.begin(), il = vl.begin(), i1 = v1.begin();
                float vmax = -1e30F, vmin = 1e30F;
                for (; ic != comb.end(); ++ic, ++il, ++i1)
                  for (int a = w.aMin(ic->get_segment_num()); a <= w.aMax(ic->get_segment_num()); ++a)
                    for (int t = w.minT; t <= w.maxT; ++t)
                      {
                        const int i = w.idx(ic->get_segment_num(), ic->get_view_num(), ic->get_timing_pos_num(), a, t);
                        if (std::fabs(double((*ic)[a][t]) - (*il)[a][t]) > 4 * EPS * (R.rows[i].size() + 2) * (2 * m1[i] + m2[i] + m3[i]))
                          ++badl;
                        if (okF && (*i1)[a][t] != F[i])
                          ++badi;
                        vmax = std::max(vmax, (*i1)[a][t]);
                        vmin = std::min(vmin, (*i1)[a][t]);
                      }
                oracle(okv, "RelatedViewgrams::get_empty_copy is not an empty copy with the same characteristics" + g + where);
                oracle(badl == 0, "related viewgrams: A(2x+x') != 2*Ax += Ax' (RelatedViewgrams arithmetic) on " + std::to_string(badl) + " bins" + g + where);
                oracle(badi == 0, "forward_project(related viewgrams) differs from the whole projection on " + std::to_string(badi) + " bins" + g + where);
                oracle(v1.find_max() == vmax && v1.find_min() == vmin, "RelatedViewgrams::find_max/find_min wrong" + g + where);
                // (A x) - (A x) = 0, (A x)*1 = A x, /=, fill, ==
                stir::RelatedViewgrams<float> z = v1;
                z -= v1;
                stir::RelatedViewgrams<float> one = e;
                one.fill(3.F);
                one /= 3.F;
                stir::RelatedViewgrams<float> q = v1;
                q *= one;
                stir::RelatedViewgrams<float> q2 = v1;
                q2 += 1.F;
                q2 -= 1.F; // small integers + float: exact only up to rounding, compare with tolerance below
                double dmax = 0;
                stir::RelatedViewgrams<float>::const_iterator iq = q2.begin();
                for (i1 = v1.begin(); i1 != v1.end(); ++i1, ++iq)
                  for (int a = w.aMin(i1->get_segment_num()); a <= w.aMax(i1->get_segment_num()); ++a)
                    for (int t = w.minT; t <= w.maxT; ++t)
                      dmax = std::max(dmax, std::fabs(double((*iq)[a][t]) - (*i1)[a][t]));
                stir::RelatedViewgrams<float> h = v1;
                h /= one;
                oracle(z.find_max() == 0.F && z.find_min() == 0.F && q == v1 && !(q != v1) && h == v1 && one.find_max() == 1.F && one.find_min() == 1.F
                           && dmax <= 4 * EPS * (std::max(std::fabs(vmax), std::fabs(vmin)) + 1),
                       "RelatedViewgrams arithmetic (-=, fill, /=, *=, +=float, ==) inconsistent" + g + where);
                if (vmax != vmin)
                  {
                    stir::RelatedViewgrams<float> dfr = v1;
                    dfr *= 2.F;
                    oracle(dfr != v1 && !(dfr == v1), "RelatedViewgrams::operator== does not see a difference" + g + where);
                  }
              }
            g_counts[gi == 0 ? "groups_full_range" : "groups_sub_range"]++;
          }
        // every related group x timing position, full range: adjointness + additivity over groups (oracle only)
        {
          std::vector<double> bsum(w.nvox, 0.);
          double lsum = 0;
          for (auto& bs : basics)
            for (int k = w.minK; k <= w.maxK; ++k)
              {
                const std::vector<ViewSegmentNumbers>& rel = related[bs];
                const std::vector<char> in = group_piece(rel, k, w.aMin(bs.second), w.aMax(bs.second), w.minT, w.maxT);
                ViewSegmentNumbers vsk(bs.first, bs.second);
                stir::RelatedViewgrams<float> yv = Y.get_related_viewgrams(vsk, symvs, false, k);
                bck->start_accumulating_in_new_target();
                bck->back_project(yv);
                shared_ptr<DiscretisedDensity<3, float>> o(w.image->get_empty_copy());
                bck->get_output(*o);
                const std::vector<float> G = w.read_img(*o);
                double l = 0;
                for (int b = 0; b < w.nbins && okF; ++b)
                  if (in[b])
                    l += double(F[b]) * y[b];
                const double r = dotd(x, G), tol = adj_tol(in, x, y);
                std::snprintf(buf, sizeof buf, "adjoint related viewgrams view=%d seg=%d tof=%d: <Ax,y>=%.9g <x,A'y>=%.9g tol=%.3g ", bs.first,
                              bs.second, k, l, r, tol);
                oracle(okF && std::fabs(l - r) <= tol, std::string(buf) + where);
                for (int v = 0; v < w.nvox; ++v)
                  bsum[v] += G[v];
                lsum += l;
                g_counts["groups_all"]++;
              }
          std::vector<double> v, m;
          std::vector<int> c;
          R.ref_bck(y, all_in, v, m, c);
          long bad = 0;
          for (int i = 0; i < w.nvox; ++i)
            if (std::fabs(bsum[i] - B[i]) > 8 * EPS * (c[i] + basics.size() * (w.maxK - w.minK + 1) + 1) * m[i])
              ++bad;
          oracle(bad == 0, "sum of the back projections of all related-viewgram groups differs from back projecting at once on " + std::to_string(bad) + " voxels " + where);
        }
      }

      // ================= back projector state machine, differential
      {
        bck->set_up(w.pdi, Z0);
        emit("bsetup z", "ok");
        const int n = V >= 2 ? rng.range(2, std::min(V, 4)) : 1;
        const int i = rng.range(0, n - 1);
        auto out = [&]() {
          shared_ptr<DiscretisedDensity<3, float>> o(w.image->get_empty_copy());
          bck->get_output(*o);
          emit("bout", hexlist(w.read_img(*o)));
        };
        bck->back_project(Y, i, n); // no start: accumulates on top of the clone of z
        std::snprintf(buf, sizeof buf, "bsub y %d %d", i, n);
        emit(buf, "ok");
        out();
        bck->start_accumulating_in_new_target();
        emit("bstart", "ok");
        out();
        bck->back_project(Y, 0, 1);
        emit("bsub y 0 1", "ok");
        out();
        const int j = rng.range(0, n - 1);
        bck->back_project(Y, j, n);
        std::snprintf(buf, sizeof buf, "bsub y %d %d", j, n);
        emit(buf, "ok");
        out();
        shared_ptr<DiscretisedDensity<3, float>> im(w.image->get_empty_copy());
        im->fill(7.F);
        bck->back_project(*im, Y, i, n); // = start; back_project; get_output
        std::snprintf(buf, sizeof buf, "binto y %d %d", i, n);
        emit(buf, hexlist(w.read_img(*im)));
        out();
      }
    }
}

// ------------------------------------------------------------------------------------------------ one row, directly

static std::string
rowstr(const RowT& r)
{
  std::string s;
  char buf[96];
  for (auto& e : r)
    {
      std::snprintf(buf, sizeof buf, " %d,%d,%d:%a", e.first[0], e.first[1], e.first[2], (double)e.second);
      s += buf;
    }
  return s;
}

static ProjMatrixElemsForOneBin
to_row(const RowT& r)
{
  ProjMatrixElemsForOneBin row;
  for (auto& e : r)
    row.push_back(ProjMatrixElemsForOneBin::value_type(Coordinate3D<int>(e.first[0], e.first[1], e.first[2]), e.second));
  return row;
}

// ProjMatrixElemsForOneBin::forward_project(Bin&, density) / back_project(density, Bin) called directly, with rows that
// also contain planes outside the image (the z guard) and bins that come in with a value.
static void
run_row_level(const World& w, vh::Rng& rng, bool thorough)
{
  Run R(w, rng);
  char buf[128];
  emit("grid " + std::to_string(w.zmin) + " " + std::to_string(w.zmax) + " " + std::to_string(w.ymin) + " " + std::to_string(w.ymax) + " "
           + std::to_string(w.xmin) + " " + std::to_string(w.xmax),
       "ok " + std::to_string(w.nvox));
  const std::vector<float> x = R.rand_img(-4, 4, 10);
  emit("img x" + intlist(x), "ok " + std::to_string(w.nvox));
  shared_ptr<DiscretisedDensity<3, float>> X = w.make_img(x);
  auto rand_row = [&](bool dyadic, bool out_of_range_z) {
    // distinct voxels; z may lie one or two planes outside the image
    std::set<std::array<int, 3>> used;
    RowT r;
    const int len = rng.range(0, 12);
    for (int i = 0; i < len; ++i)
      {
        std::array<int, 3> c
            = { out_of_range_z ? rng.range(w.zmin - 2, w.zmax + 2) : rng.range(w.zmin, w.zmax), rng.range(w.ymin, w.ymax), rng.range(w.xmin, w.xmax) };
        if (!used.insert(c).second)
          continue;
        const float wgt = dyadic ? rng.range(1, 32) / 8.F : (float)(rng.unit() * 2.0 + 1e-3);
        r.push_back(std::make_pair(c, wgt));
      }
    std::sort(r.begin(), r.end()); // push_back requires sorted order
    return r;
  };
  const int nrows = thorough ? 60 : 20;
  for (int k = 0; k < nrows; ++k)
    {
      const bool dyadic = k % 2 == 0;
      const RowT r = rand_row(dyadic, true);
      const ProjMatrixElemsForOneBin row = to_row(r);
      const int acc = rng.range(-3, 3), yv = (k % 5 == 4) ? 0 : rng.range(-4, 4);
      Bin b(0, 0, 0, 0, 0, (float)acc);
      row.forward_project(b, *X);
      std::snprintf(buf, sizeof buf, "rfwd x %d", acc);
      emit(buf + rowstr(r), vh::hex(b.get_bin_value()));
      shared_ptr<DiscretisedDensity<3, float>> im(X->clone());
      row.back_project(*im, Bin(0, 0, 0, 0, 0, (float)yv));
      std::snprintf(buf, sizeof buf, "rbck x %d", yv);
      emit(buf + rowstr(r), hexlist(w.read_img(*im)));
      // oracle, implementation alone (dyadic weights and small integers: float arithmetic is exact)
      if (dyadic)
        {
          Bin b0(0, 0, 0, 0, 0, 0.F);
          row.forward_project(b0, *X);
          shared_ptr<DiscretisedDensity<3, float>> z(X->get_empty_copy());
          row.back_project(*z, Bin(0, 0, 0, 0, 0, (float)yv));
          double rhs = 0;
          const std::vector<float> zv = w.read_img(*z);
          for (int i = 0; i < w.nvox; ++i)
            rhs += double(x[i]) * zv[i];
          oracle(double(b0.get_bin_value()) * yv == rhs, "row level: <row x, y> != <x, row' y> (exact arithmetic) " + w.desc);
          oracle(b.get_bin_value() == b0.get_bin_value() + acc, "row level: forward_project does not add to the value the bin comes in with " + w.desc);
          // additivity over pieces at row level: merge = sum of the rows
          const RowT r2 = rand_row(true, true);
          ProjMatrixElemsForOneBin ra = to_row(r), rb = to_row(r2);
          Bin b2(0, 0, 0, 0, 0, 0.F);
          rb.forward_project(b2, *X);
          ra.merge(rb);
          Bin bm(0, 0, 0, 0, 0, 0.F);
          ra.forward_project(bm, *X);
          std::map<std::array<int, 3>, float> un;
          for (auto& e : r)
            un[e.first] += e.second;
          for (auto& e : r2)
            un[e.first] += e.second;
          bool same = ra.size() == un.size() && ra.check_state() == Succeeded::yes;
          double sq = 0;
          for (ProjMatrixElemsForOneBin::const_iterator it = ra.begin(); it != ra.end() && same; ++it)
            {
              std::array<int, 3> c = { it->coord1(), it->coord2(), it->coord3() };
              same = un.count(c) && un[c] == it->get_value();
              sq += double(it->get_value()) * it->get_value();
            }
          oracle(same, "row level: merge() is not the element-wise sum of the two rows " + w.desc);
          oracle(bm.get_bin_value() == b0.get_bin_value() + b2.get_bin_value(), "row level: projecting the merged row != sum of projecting the rows " + w.desc);
          oracle(!same || std::fabs(ra.square_sum() - sq) <= 1e-5 * sq, "row level: square_sum wrong " + w.desc);
          // scaling
          ProjMatrixElemsForOneBin rs = to_row(r);
          rs *= 2.F;
          Bin bs(0, 0, 0, 0, 0, 0.F);
          rs.forward_project(bs, *X);
          oracle(bs.get_bin_value() == 2 * b0.get_bin_value(), "row level: operator*= does not scale the projection " + w.desc);
          ProjMatrixElemsForOneBin rh = to_row(r);
          rh *= 0.5F;
          Bin bh(0, 0, 0, 0, 0, 0.F);
          rh.forward_project(bh, *X);
          oracle(2 * bh.get_bin_value() == b0.get_bin_value(), "row level: operator*=(0.5) does not scale the projection " + w.desc);
          rh /= 0.5F;
          oracle(rh == row, "row level: operator/=(0.5) does not undo operator*=(0.5) " + w.desc);
          ProjMatrixElemsForOneBin rs1 = to_row(r);
          rs1 *= 1.F;
          rs /= 2.F;
          oracle(rs == row && !(rs != row) && rs1 == row, "row level: operator/= does not undo operator*= (or == fails) " + w.desc);
          if (r.size() > 0)
            {
              ProjMatrixElemsForOneBin rd = to_row(r);
              rd *= 1.5F;
              oracle(rd != row, "row level: operator== does not see scaled values " + w.desc);
            }
          rs.erase();
          oracle(rs.size() == 0, "row level: erase() leaves elements " + w.desc);
        }
      g_counts["row_level_rows"]++;
    }
}

// ------------------------------------------------------------------------------------------------ on-the-fly ray tracing

// Degenerate LORs: an end point of the LOR on the boundary of the cylindrical field of view lies (to rounding) on a voxel
// boundary in x or y.  Which voxel gets the last bit of the ray then depends on float rounding in either implementation
// (C03 screens the same class); such bins are not compared.
static bool
lor_end_point_on_voxel_boundary(const World& w, int seg, int view, int ax, int tang)
{
  const Bin bin(seg, view, ax, tang);
  const double s = w.pdi->get_s(bin), phi = w.pdi->get_phi(bin);
  const CartesianCoordinate3D<float> vs = w.image->get_voxel_size();
  const double fov = std::min(std::min(w.xmax, -w.xmin) * (double)vs.x(), std::min(w.ymax, -w.ymin) * (double)vs.y());
  if (std::fabs(s) >= fov * (1 + 1e-4))
    return false; // misses the field of view in both implementations
  const double a = std::sqrt(std::max(0., fov * fov - s * s));
  for (int sign = -1; sign <= 1; sign += 2)
    {
      const double X = (s * std::cos(phi) + sign * a * std::sin(phi)) / vs.x(), Y = (s * std::sin(phi) - sign * a * std::cos(phi)) / vs.y();
      const double fx = X + 0.5 - std::floor(X + 0.5), fy = Y + 0.5 - std::floor(Y + 0.5);
      if (fx < 2e-3 || fx > 1 - 2e-3 || fy < 2e-3 || fy > 1 - 2e-3)
        return true;
    }
  return false;
}

static void
run_on_the_fly(const World& w, vh::Rng& rng, bool thorough)
{
  const std::string where = w.desc;
  if (w.blocks || w.tof || w.mashed)
    {
      g_counts["otf_skipped_geometry"]++;
      return;
    }
  ForwardProjectorByBinUsingRayTracing otf;
  try
    {
      otf.set_up(w.pdi, w.image);
    }
  catch (...)
    {
      g_counts["otf_skipped_setup_error"]++;
      return;
    }
  // same settings: 1 tangential LOR, cylindrical FOV, default symmetries, no detector-boundary correction
  shared_ptr<ProjMatrixByBinUsingRayTracing> pm(new ProjMatrixByBinUsingRayTracing);
  pm->set_num_tangential_LORs(1);
  pm->set_restrict_to_cylindrical_FOV(true);
  pm->set_use_actual_detector_boundaries(false);
  pm->enable_cache(rng.coin());
  ForwardProjectorByBinUsingProjMatrixByBin fm(pm);
  fm.set_up(w.pdi, w.image);
  Run R(w, rng);
  char buf[256];
  const int V = w.maxView - w.minView + 1;
  for (int rep = 0; rep < (thorough ? 4 : 2); ++rep)
    {
      const std::vector<float> x = R.rand_img(rep == 0 ? 0 : -4, 4, 20);
      shared_ptr<DiscretisedDensity<3, float>> X = w.make_img(x);
      const int n = rep == 0 ? 1 : rng.range(1, V), i = rng.range(0, n - 1);
      ProjDataInMemory A1(w.exam, w.pdi), A2(w.exam, w.pdi);
      A1.fill(0.F);
      A2.fill(0.F);
      try
        {
          otf.forward_project(A1, *X, i, n, true);
          fm.forward_project(A2, *X, i, n, true);
        }
      catch (std::exception& e)
        {
          oracle(false, std::string("on-the-fly forward projection threw: ") + e.what() + " " + where);
          continue;
        }
      const std::vector<float> a1 = w.read(A1), a2 = w.read(A2);
      // scale for the tolerance floor: the largest bin of the projection of |x| (an upper bound of the magnitude of the
      // sums both projectors accumulate in float; the largest |bin| itself can be small by cancellation)
      double gmax = 0;
      {
        std::vector<float> xa(x);
        for (auto& v : xa)
          v = std::fabs(v);
        shared_ptr<DiscretisedDensity<3, float>> XA = w.make_img(xa);
        ProjDataInMemory A3(w.exam, w.pdi);
        A3.fill(0.F);
        fm.forward_project(A3, *XA, 0, 1, true);
        for (float v : w.read(A3))
          gmax = std::max(gmax, (double)std::fabs(v));
      }
      long bad = 0;
      double worst = 0;
      for (int s = w.minSeg; s <= w.maxSeg; ++s)
        for (int v = w.minView; v <= w.maxView; ++v)
          {
            double vmax = 0;
            for (int a = w.aMin(s); a <= w.aMax(s); ++a)
              for (int t = w.minT; t <= w.maxT; ++t)
                vmax = std::max(vmax, (double)std::fabs(a2[w.idx(s, v, 0, a, t)]));
            const double tol = 1e-4 * std::max(vmax, 0.05 * gmax);
            for (int a = w.aMin(s); a <= w.aMax(s); ++a)
              for (int t = w.minT; t <= w.maxT; ++t)
                {
                  const int b = w.idx(s, v, 0, a, t);
                  const double d = std::fabs(double(a1[b]) - a2[b]);
                  if (d > tol && lor_end_point_on_voxel_boundary(w, s, v, a, t))
                    {
                      g_counts["otf_bins_not_compared_lor_end_point_on_voxel_boundary"]++;
                      continue;
                    }
                  worst = std::max(worst, d);
                  if (d > tol)
                    ++bad;
                }
          }
      std::snprintf(buf, sizeof buf, "on-the-fly ray tracing forward projector differs from the ray-tracing matrix on %ld bins (worst %.3g, data max %.3g) subset %d/%d ",
                    bad, worst, gmax, i, n);
      oracle(bad == 0, std::string(buf) + where);
      g_counts["otf_compared"]++;
      if (gmax > 0)
        g_counts["otf_worst_deviation_ppm_of_data_max"] = std::max<long>(g_counts["otf_worst_deviation_ppm_of_data_max"], (long)(1e6 * worst / gmax));
      // related viewgrams over a random sub-range, through forward_project(RelatedViewgrams&, ranges)
      shared_ptr<DataSymmetriesForViewSegmentNumbers> s1(otf.get_symmetries_used()->clone()), s2(fm.get_symmetries_used()->clone());
      for (int g = 0; g < 5; ++g)
        {
          ViewSegmentNumbers vs(rng.range(w.minView, w.maxView), rng.range(w.minSeg, w.maxSeg));
          if (g >= 3)
            vs = ViewSegmentNumbers(1, 0); // for >= 8 views: a segment-0 group of 4 viewgrams (the "all symmetries 2D" code)
          s1->find_basic_view_segment_numbers(vs);
          const int sg = vs.segment_num();
          int a0 = rng.range(w.aMin(sg), w.aMax(sg)), a1 = rng.range(a0, w.aMax(sg)), t0 = rng.range(w.minT, w.maxT), t1 = rng.range(t0, w.maxT);
          if (g == 0)
            {
              a0 = w.aMin(sg);
              a1 = w.aMax(sg);
              t0 = w.minT;
              t1 = w.maxT;
            }
          if (g == 3)
            { // axial sub-range that stops before the last ring, tangential range containing 0: the class of the defect repaired
              // in /repo by 02c0a3d12 (half-plane term above the last requested axial position) - checked strictly
              a0 = w.aMin(sg);
              a1 = std::max(a0, w.aMax(sg) - 1);
              t0 = rng.range(w.minT, 0);
              t1 = rng.range(0, w.maxT);
            }
          const bool prefilled = g == 4; // the viewgrams come in with values: they have to be overwritten
          if (prefilled)
            { // (full axial range, to keep this apart from the axial sub-range case above)
              a0 = w.aMin(sg);
              a1 = w.aMax(sg);
            }
          stir::RelatedViewgrams<float> v1 = w.pdi->get_empty_related_viewgrams(vs, s1), v2 = w.pdi->get_empty_related_viewgrams(vs, s2);
          if (prefilled)
            {
              v1.fill(5.F);
              v2.fill(5.F);
            }
          bool okn = v1.get_num_viewgrams() == v2.get_num_viewgrams();
          long badg = 0, bad_adds = 0, bad_outside = 0;
          if (okn)
            {
              otf.set_input(*X);
              fm.set_input(*X);
              otf.forward_project(v1, a0, a1, t0, t1);
              fm.forward_project(v2, a0, a1, t0, t1);
              stir::RelatedViewgrams<float>::const_iterator i1 = v1.begin(), i2 = v2.begin();
              for (; i1 != v1.end(); ++i1, ++i2)
                {
                  okn = okn && i1->get_view_num() == i2->get_view_num() && i1->get_segment_num() == i2->get_segment_num();
                  const double tol = 1e-4 * std::max((double)std::max(std::fabs(i2->find_max()), std::fabs(i2->find_min())), 0.05 * gmax);
                  for (int a = w.aMin(i1->get_segment_num()); a <= w.aMax(i1->get_segment_num()); ++a)
                    for (int t = w.minT; t <= w.maxT; ++t)
                      {
                        const bool inside = a >= a0 && a <= a1 && t >= t0 && t <= t1;
                        if (std::fabs(double((*i1)[a][t]) - (*i2)[a][t]) > tol)
                          {
                            if (lor_end_point_on_voxel_boundary(w, i1->get_segment_num(), i1->get_view_num(), a, t))
                              {
                                g_counts["otf_bins_not_compared_lor_end_point_on_voxel_boundary"]++;
                                continue;
                              }
                            ++badg;
                            if (!inside)
                              ++bad_outside;
                            if (prefilled && inside && std::fabs(double((*i1)[a][t]) - 5. - (*i2)[a][t]) <= tol)
                              ++bad_adds;
                          }
                      }
                }
            }
          std::snprintf(buf, sizeof buf, "on-the-fly ray tracing vs matrix on related viewgrams view=%d seg=%d ax=%d..%d tang=%d..%d%s: %ld bins differ (same related set: %d) ",
                        vs.view_num(), vs.segment_num(), a0, a1, t0, t1, prefilled ? " (viewgrams pre-filled with 5)" : "", badg, (int)okn);
          if (okn && prefilled && badg > 0 && badg == bad_adds && bad_outside == 0)
            known_candidate("on-the-fly-raytracing:forward_project(RelatedViewgrams)-adds-to-the-viewgrams-instead-of-overwriting",
                            std::string(buf)
                                + "(all equal to old value + projection): ForwardProjectorByBinUsingRayTracing accumulates with += into the viewgrams "
                                  "passed in, the base-class contract and the matrix projector overwrite; masked in forward_project(ProjData&) by "
                                  "get_empty_related_viewgrams "
                                + where);
          else
            oracle(okn && badg == 0, std::string(buf) + where);
          g_counts["otf_groups_compared"]++;
        }
    }
}

// larger cylindrical non-TOF geometries for the on-the-fly comparison only (no model involved): enough views for every
// symmetry case of the hand-optimised Siddon code (1, 2, 4 and 8 related viewgrams, 2D and oblique segments)
static bool
make_otf_world(World& w, vh::Rng& rng, int k)
{
  w = World();
  static const int Ns[] = { 16, 24, 32, 20, 28, 40 };
  const int N = Ns[k % 6];
  const int R = rng.range(2, 4);
  const int span = (k % 3 == 2) ? 3 : 1;
  shared_ptr<Scanner> sc = vh::make_scanner(N, R, -1);
  const int ntang = rng.range(N / 2 - 3, N / 2 - 1);
  w.pdi = vh::make_pdi(sc, span, R - 1, N / 2, ntang, false, 0);
  w.span = span;
  const int nxy = rng.range(7, 15);
  static const float fracs[] = { 0.5F, 0.7F, 0.85F, 1.F };
  const float zoom = sc->get_default_bin_size() * nxy / (2.F * sc->get_inner_ring_radius() * fracs[rng.range(0, 3)]);
  w.image = vh::make_image(*w.pdi, zoom, nxy, 2 * R - 1);
  w.exam.reset(new ExamInfo);
  w.exam->imaging_modality = ImagingModality::PT;
  w.image->set_exam_info(*w.exam);
  w.finish();
  std::ostringstream d;
  d << "otf-world cyl N=" << N << " R=" << R << " span=" << span << " views=" << N / 2 << " tang=" << ntang << " nxy=" << nxy
    << " voxel=" << w.image->get_voxel_size().x();
  w.desc = d.str();
  return true;
}

int
main(int argc, char** argv)
{
  if (argc < 5)
    return 2;
  vh::quiet();
  vh::Rng rng(std::strtoull(argv[1], nullptr, 10) * 1315423911ULL + 4);
  const bool thorough = std::string(argv[2]) == "thorough";
  g_ops = std::fopen(argv[3], "w");
  g_out = std::fopen(argv[4], "w");
  g_orc = std::fopen((std::string(argv[4]) + ".oracle").c_str(), "w");

  // worlds: fixed mix of kinds (0 cyl, 1 cyl TOF, 2 blocks, 3 blocks TOF)
  std::vector<int> kinds;
  if (thorough)
    {
      for (int rep = 0; rep < 5; ++rep)
        for (int k : { 0, 0, 0, 1, 1, 2, 3, 0 })
          kinds.push_back(k);
    }
  else
    kinds = { 0, 0, 0, 1, 1, 2, 3, 0 };
  int wid = 0;
  for (int kind : kinds)
    {
      World w;
      try
        {
          make_world(w, rng, kind, thorough, /*even_views*/ kind == 0 && (wid % 3 == 0), /*force_mash*/ kind == 0 && (wid % 3 == 2));
        }
      catch (std::exception& e)
        {
          std::fprintf(g_orc, "NOTE world kind %d could not be constructed: %s\n", kind, e.what());
          g_counts["worlds_failed"]++;
          continue;
        }
      ++wid;
      g_counts["worlds"]++;
      {
        std::ostringstream op;
        op << "geom " << w.minSeg << " " << w.maxSeg << " " << w.minView << " " << w.maxView << " " << w.minT << " " << w.maxT << " "
           << w.minK << " " << w.maxK;
        for (int s = w.minSeg; s <= w.maxSeg; ++s)
          op << " " << w.aMin(s) << "," << w.aMax(s);
        emit(op.str(), "ok " + std::to_string(w.nbins));
      }
      const int nset = thorough ? 3 : 2;
      for (int si = 0; si < nset; ++si)
        {
          MSet ms;
          ms.type = (!w.blocks && si == nset - 1 && (wid % 2 == 1)) ? 1 : 0;
          ms.ntl = rng.range(1, 3);
          ms.s90 = rng.coin();
          ms.s180 = rng.coin();
          ms.sseg = rng.coin();
          ms.ss = rng.coin();
          ms.sz = rng.coin();
          if (si == 0)
            ms.s90 = ms.s180 = ms.sseg = ms.ss = ms.sz = true; // the default settings
          ms.cylfov = rng.range(0, 3) != 0;
          ms.actual = rng.range(0, 3) == 0;
          try
            {
              run_setting(w, ms, rng, thorough, wid);
            }
          catch (std::exception& e)
            {
              // a setting the library refuses for this geometry: say so, do not count
              std::fprintf(g_orc, "NOTE setting skipped (%s | %s): %s\n", w.desc.c_str(), ms.desc().c_str(), e.what());
              g_counts[ms.type == 1 ? "interpolation_settings_refused" : "raytracing_settings_refused"]++;
            }
        }
      run_row_level(w, rng, thorough);
      run_on_the_fly(w, rng, thorough);
    }
  for (int k = 0; k < (thorough ? 36 : 6); ++k)
    {
      World w;
      try
        {
          make_otf_world(w, rng, k);
          run_on_the_fly(w, rng, thorough);
          g_counts["otf_worlds"]++;
        }
      catch (std::exception& e)
        {
          std::fprintf(g_orc, "NOTE on-the-fly world %d skipped: %s\n", k, e.what());
        }
    }
  for (auto& kv : g_counts)
    std::fprintf(g_orc, "COUNT %s %ld\n", kv.first.c_str(), kv.second);
  std::fprintf(g_orc, "ORACLE-DONE checks=%ld fails=%ld\n", g_checks, g_fails);
  std::fclose(g_ops);
  std::fclose(g_out);
  std::fclose(g_orc);
  return 0;
}
