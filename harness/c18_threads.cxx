// C18 — implementation side, linked against the OpenMP build of STIR (build/stir-omp).
// Defines the UCL_STIR_VERIF schedule-point call-out: records (thread, site, key, value) events and perturbs the
// schedule there (seeded yields / sleeps).  Scenarios (fresh objects each time so that first-use races are re-armed):
//   tables   : lazily built geometry tables used concurrently from the first call on
//   cache    : system-matrix cache requested concurrently with repeats
//   project  : forward / back projection of whole data sets with T threads vs 1 thread
//   loglik   : Poisson log-likelihood value / gradient / sensitivity / Hessian product with T threads vs 1 thread
//   loglik_full     : the same objective function with 1..3 subsets, normalisation, additive term, end-plane zeroing: per subset
//                     value, sub-gradient, sub-gradient + sensitivity, add_subset_sensitivity, accumulate_sub_Hessian_times_input,
//                     add_multiplication_with_approximate_sub_Hessian, T threads vs 1 thread (one trace per objective function, and
//                     the work items of every distributable pass as a trace of their own); the value repeated 150 times on a small data set
//   projdata_stream : projection data held in ProjDataInterfile / ProjDataFromStream on real files (written by this harness under
//                     <dir of opsfile>/c18_files_<tier>) and in ProjDataInMemory:
//                       .io      concurrent get_/set_ viewgram / sinogram / segment / bin value from the harness' own parallel loop
//                                (disjoint regions written, every region read back; reads compared with an in-memory copy),
//                       .project forward projection into a file and back projection from a file, T threads vs 1 thread,
//                       .loglik  log-likelihood value / gradient / sensitivity / Hessian products with data, additive term and
//                                normalisation factors read from files
//   scatter  : SingleScatterSimulation::process_data on a small scanner / phantom, line-integral cache enabled and disabled,
//              T threads vs 1 thread (all bins bitwise, total scatter up to reassociation of the per-thread partial sums)
//   rethread : ONE live object used with N, then M, then N threads (stir::set_num_threads; set_up again when the count grows):
//              rethread.project (+ `acc` operations answered by the model of the per-thread images), rethread.loglik, rethread.listmode
//   scatter.history : ONE scatter simulation: process_data, a setter called again, set_up, process_data, with threads / one thread / fresh objects
//   listmode : PoissonLogLikelihoodWithLinearModelForMeanAndListModeDataWithProjMatrixByBin on synthetic in-memory list-mode data,
//              with and without cache files, T threads vs 1 thread
//   tiny     : 16 threads on fewer work items than threads (loglik, loglik_full, scatter, scatter.history, listmode)
//   clear_cache : ProjMatrixByBin::clear_cache() against readers of the cache, in child processes
//   default_threads : get_default_num_threads / set_num_threads() / set_default_num_threads and OMP_NUM_THREADS (`nt` operations)
// Output: the event trace of every scenario in the line protocol (validated by lean/Driver/C18.lean) and
// ORACLE verdicts comparing multi-threaded with single-threaded results.
// Usage: c18_threads <seed> <quick|thorough> <opsfile> <implfile>
#include "stir_fixtures.h"
#include "common.h"
#include "stir/Bin.h"
#include "stir/DetectionPositionPair.h"
#include "stir/ProjDataInMemory.h"
#include "stir/ProjDataInterfile.h"
#include "stir/ProjDataFromStream.h"
#include "stir/Viewgram.h"
#include "stir/Sinogram.h"
#include "stir/SegmentByView.h"
#include "stir/SegmentBySinogram.h"
#include "stir/recon_buildblock/BinNormalisationFromProjData.h"
#include "stir/scatter/SingleScatterSimulation.h"
#include "stir/ProjDataInfoCylindricalNoArcCorr.h"
#include "stir/recon_buildblock/ProjMatrixByBinUsingRayTracing.h"
#include "stir/recon_buildblock/ProjMatrixElemsForOneBin.h"
#include "stir/recon_buildblock/ProjectorByBinPairUsingProjMatrixByBin.h"
#include "stir/recon_buildblock/ForwardProjectorByBinUsingProjMatrixByBin.h"
#include "stir/recon_buildblock/BackProjectorByBinUsingProjMatrixByBin.h"
#include "stir/recon_buildblock/PoissonLogLikelihoodWithLinearModelForMeanAndProjData.h"
#include "stir/recon_buildblock/find_basic_vs_nums_in_subsets.h"
#include "stir/Succeeded.h"
#include "stir/num_threads.h"
#include "stir/listmode/ListModeData.h"
#include "stir/listmode/CListRecord.h"
#include "stir/listmode/ListTime.h"
#include "stir/listmode/CListEventCylindricalScannerWithDiscreteDetectors.h"
#include "stir/TimeFrameDefinitions.h"
#include "stir/recon_buildblock/PoissonLogLikelihoodWithLinearModelForMeanAndListModeDataWithProjMatrixByBin.h"
#include <omp.h>
#include <spawn.h>
#include <signal.h>
#include <sys/wait.h>
#include <mutex>
#include <map>
#include <cmath>
#include <sched.h>
#include <unistd.h>
#include <algorithm>
#include <atomic>
#include <functional>
#include <sys/stat.h>
#include <fcntl.h>
#include <dirent.h>

using namespace stir;
typedef DiscretisedDensity<3, float> Image;
extern char** environ;

struct Event
{
  int tid;
  std::string site;
  long key;
  int val;
};
static std::mutex g_mx;
static std::vector<Event> g_log;
static bool g_logging = false;
static bool g_perturb_only = false; // child process of `clear_cache`: perturb at the schedule points, record nothing
static uint64_t g_seed = 1;
static int g_round = 0;
// events of the scatter cache are far too many to be listed one by one (and no validator reads them): they are counted
static std::atomic<long> g_sc_reads(0), g_sc_hits(0);

// seeded perturbation of the schedule of the calling thread: `light` = yields only (used inside tight loops)
static void
perturb(bool light)
{
  const int tid = omp_get_thread_num();
  static thread_local vh::Rng rng(0);
  static thread_local int round = -1;
  if (round != g_round)
    {
      round = g_round;
      rng = vh::Rng(g_seed * 977 + tid * 7919 + g_round * 104729 + 13);
    }
  const int r = rng.range(0, 9);
  if (r < 3)
    sched_yield();
  else if (r < 5 && !light)
    usleep(rng.range(1, 120));
  else if (r < 4 && light)
    usleep(rng.range(1, 20));
}

extern "C" void
stir_verif_sched_point(const char* site, long key, int value)
{
  if (!g_logging)
    {
      if (g_perturb_only)
        perturb(false);
      return;
    }
  if (site[0] == 's' && site[1] == 'c' && site[2] == '.')
    {
      ++g_sc_reads;
      if (value)
        ++g_sc_hits;
      perturb(true);
      return;
    }
  const int tid = omp_get_thread_num();
  {
    std::lock_guard<std::mutex> lk(g_mx);
    g_log.push_back(Event{ tid, site, key, value });
  }
  perturb(false);
}

static FILE *ops, *out, *orc;
static long oracle_checks = 0, oracle_fails = 0;
static long n_events = 0;

// `threads <T>` lines of the trace being recorded: (position in g_log, number of threads in force from there on).  The driver checks
// that no event after the line comes from a thread >= T and counts the work items of every such segment on their own.
static std::vector<std::pair<std::size_t, int>> g_marks;
// The events of the lazily built geometry tables identify their object by its address.  The list-mode objective function creates and
// destroys ProjDataInfo objects while it runs (clones per record / per set_up), and so does a setter history of the scatter simulation,
// so that an address names several objects in turn and
// "built twice" would be reported for what are two objects: the table events are left out of the traces of those scenarios.
static bool g_drop_table_events = false;
// The events of the matrix cache identify a row by (view, segment, key) but not the matrix object.  For TOF data the list-mode objective
// function uses two matrices (its own and the clone inside the non-TOF back projector of the sensitivity) whose events would be taken
// for one cache: the cache events are left out of those traces.
static bool g_drop_cache_events = false;

static void
start_trace()
{
  std::lock_guard<std::mutex> lk(g_mx);
  g_log.clear();
  g_marks.clear();
  ++g_round;
  g_logging = true;
}

static void
mark_threads(int T)
{
  std::lock_guard<std::mutex> lk(g_mx);
  g_marks.push_back(std::make_pair(g_log.size(), T));
}

// an operation outside the traces (answered by the executable model)
static void
op(const std::string& o, const std::string& answer)
{
  std::fprintf(ops, "%s\n", o.c_str());
  std::fprintf(out, "%s\n", answer.c_str());
}

// Prints the recorded events [from, to) as one trace.  only_site != "": only the events of that site (a view of a part of a
// longer trace, used to have the work items of one pass checked on their own).
static void
emit_trace(const std::string& name, int expected_bp, int expected_fp, int expected_dist, std::size_t from = 0, std::size_t to = static_cast<std::size_t>(-1),
           const std::string& only_site = "")
{
  g_logging = false;
  std::fprintf(ops, "begin %s %d %d %d\n", name.c_str(), expected_bp, expected_fp, expected_dist);
  std::fprintf(out, "begin\n");
  // canonicalise pointer-valued keys (object identities) by order of first appearance
  std::map<long, long> ids;
  to = std::min(to, g_log.size());
  const bool whole = from == 0 && to == g_log.size() && only_site.empty();
  std::size_t next_mark = 0;
  for (std::size_t i = from; i <= to; ++i)
    {
      while (whole && next_mark < g_marks.size() && g_marks[next_mark].first <= i)
        {
          std::fprintf(ops, "threads %d\n", g_marks[next_mark].second);
          std::fprintf(out, ".\n");
          ++next_mark;
        }
      if (i == to)
        break;
      const Event& e = g_log[i];
      if (!only_site.empty() && e.site != only_site)
        continue;
      if (g_drop_table_events && e.site.compare(0, 4, "pdi.") == 0)
        continue;
      if (g_drop_cache_events && e.site.compare(0, 9, "pm.cache.") == 0)
        continue;
      long k = e.key;
      if (e.site.compare(0, 4, "pdi.") == 0 || e.site.compare(0, 9, "bp.local.") == 0 || e.site == "bp.reduce")
        {
          if (!ids.count(k))
            {
              const long n = static_cast<long>(ids.size()) + 1;
              ids[k] = n;
            }
          k = ids[k];
        }
      std::fprintf(ops, "ev %d %s %ld %d\n", e.tid, e.site.c_str(), k, e.val);
      std::fprintf(out, ".\n");
      ++n_events;
    }
  std::fprintf(ops, "end\n");
  std::fprintf(out, "ok\n");
  // a crash of the library in a later scenario must not leave the two files cut at different places
  std::fflush(ops);
  std::fflush(out);
}

static void
fail(const std::string& what)
{
  ++oracle_fails;
  if (oracle_fails < 40)
    std::fprintf(orc, "ORACLE-FAIL %s\n", what.c_str());
}

// ---------------------------------------------------------------- scenario: lazily built geometry tables
static void
scenario_tables(vh::Rng& rng, int T)
{
  const int N = 2 * rng.range(6, 14), R = rng.range(2, 4);
  shared_ptr<Scanner> scanner = vh::make_scanner(N, R);
  const int span = rng.coin() ? 1 : 3;
  if (span == 3 && R < 2)
    return;
  shared_ptr<ProjDataInfo> p0 = vh::make_pdi(scanner, span, R - 1, N / 2, N / 2 - 1, false, 0);
  shared_ptr<ProjDataInfo> p1 = vh::make_pdi(scanner, span, R - 1, N / 2, N / 2 - 1, false, 0);
  auto* ref = dynamic_cast<ProjDataInfoCylindricalNoArcCorr*>(p0.get());
  auto* par = dynamic_cast<ProjDataInfoCylindricalNoArcCorr*>(p1.get());
  // work list
  std::vector<DetectionPositionPair<>> dps;
  for (int k = 0; k < 400; ++k)
    {
      DetectionPositionPair<> dp;
      int d1 = rng.range(0, N - 1), d2 = rng.range(0, N - 1);
      if (d1 == d2)
        d2 = (d2 + 1) % N;
      dp.pos1().tangential_coord() = d1;
      dp.pos2().tangential_coord() = d2;
      dp.pos1().axial_coord() = rng.range(0, R - 1);
      dp.pos2().axial_coord() = rng.range(0, R - 1);
      dps.push_back(dp);
    }
  std::vector<Bin> refb(dps.size()), parb(dps.size());
  std::vector<int> refok(dps.size()), parok(dps.size());
  std::vector<float> refm(dps.size(), 0.F), parm(dps.size(), 0.F);
  std::vector<int> refd(dps.size(), -1), pard(dps.size(), -1);
  stir::set_num_threads(1);
  for (std::size_t i = 0; i < dps.size(); ++i)
    {
      refok[i] = ref->get_bin_for_det_pos_pair(refb[i], dps[i]) == Succeeded::yes;
      if (refok[i])
        {
          refm[i] = ref->get_m(refb[i]);
          int a, b;
          ref->get_det_num_pair_for_view_tangential_pos_num(a, b, refb[i].view_num(), refb[i].tangential_pos_num());
          refd[i] = a * 1000 + b;
        }
    }
  stir::set_num_threads(T);
  start_trace();
#pragma omp parallel for schedule(dynamic)
  for (int i = 0; i < static_cast<int>(dps.size()); ++i)
    {
      parok[i] = par->get_bin_for_det_pos_pair(parb[i], dps[i]) == Succeeded::yes;
      if (parok[i])
        {
          parm[i] = par->get_m(parb[i]);
          int a, b;
          par->get_det_num_pair_for_view_tangential_pos_num(a, b, parb[i].view_num(), parb[i].tangential_pos_num());
          pard[i] = a * 1000 + b;
        }
    }
  emit_trace("tables", 0, 0, 0);
  ++oracle_checks;
  for (std::size_t i = 0; i < dps.size(); ++i)
    if (refok[i] != parok[i] || (refok[i] && (!(refb[i] == parb[i]) || refm[i] != parm[i] || refd[i] != pard[i])))
      {
        fail("tables: concurrent first use of the geometry tables gave a different bin/coordinate than the single-thread run, threads=" + std::to_string(T));
        break;
      }
}

// ---------------------------------------------------------------- shared small reconstruction problem
struct Problem
{
  shared_ptr<ProjDataInfo> pdi;
  shared_ptr<Image> image;
  shared_ptr<ExamInfo> exam;
  int flags;
  bool tof;
};

static Problem
make_problem(vh::Rng& rng, bool tiny)
{
  Problem p;
  p.tof = rng.range(0, 3) == 0;
  const int N = tiny ? 8 : 2 * rng.range(6, 10), R = tiny ? 1 : rng.range(2, 3);
  shared_ptr<Scanner> scanner = vh::make_scanner(N, R, p.tof ? 5 : -1);
  p.pdi = vh::make_pdi(scanner, 1, R - 1, tiny ? 2 : N / 2, N / 2 - 1, false, p.tof ? 1 : 0);
  p.image = vh::make_image(*p.pdi, 1.F, 7, 2 * R - 1);
  p.exam.reset(new ExamInfo);
  p.exam->imaging_modality = ImagingModality::PT;
  p.flags = rng.range(0, 7);
  return p;
}

static shared_ptr<ProjMatrixByBinUsingRayTracing>
make_matrix(const Problem& p, bool cache)
{
  shared_ptr<ProjMatrixByBinUsingRayTracing> pm(new ProjMatrixByBinUsingRayTracing);
  pm->set_do_symmetry_90degrees_min_phi(p.flags & 1);
  pm->set_do_symmetry_180degrees_min_phi(p.flags & 2);
  pm->set_do_symmetry_swap_segment(p.flags & 4);
  pm->set_num_tangential_LORs(1 + (p.flags & 1));
  pm->enable_cache(cache);
  pm->set_up(p.pdi, p.image);
  return pm;
}

static void
fill_image(Image& im, vh::Rng& rng, bool positive)
{
  for (auto it = im.begin_all(); it != im.end_all(); ++it)
    *it = positive ? static_cast<float>(rng.range(1, 9)) : static_cast<float>(rng.range(-5, 5));
}

static void
fill_data(ProjData& d, vh::Rng& rng, int lo, int hi)
{
  for (int t = d.get_min_tof_pos_num(); t <= d.get_max_tof_pos_num(); ++t)
    for (int s = d.get_min_segment_num(); s <= d.get_max_segment_num(); ++s)
      {
        SegmentByView<float> seg = d.get_empty_segment_by_view(s, false, t);
        for (auto it = seg.begin_all(); it != seg.end_all(); ++it)
          *it = static_cast<float>(rng.range(lo, hi));
        d.set_segment(seg);
      }
}

static bool
images_close(const Image& a, const Image& b, double rel, std::string& why)
{
  double mx = 0;
  for (auto it = b.begin_all_const(); it != b.end_all_const(); ++it)
    mx = std::max(mx, std::fabs(static_cast<double>(*it)));
  auto ia = a.begin_all_const();
  for (auto ib = b.begin_all_const(); ib != b.end_all_const(); ++ib, ++ia)
    if (!(std::fabs(static_cast<double>(*ia) - *ib) <= rel * mx + 1e-30))
      {
        why = "value " + vh::hex(*ia) + " vs single-thread " + vh::hex(*ib) + " (max " + vh::hex(mx) + ")";
        return false;
      }
  return true;
}

// ---------------------------------------------------------------- scenario: cache
static void
scenario_cache(vh::Rng& rng, int T)
{
  Problem p = make_problem(rng, false);
  shared_ptr<ProjMatrixByBinUsingRayTracing> ref = make_matrix(p, false);
  shared_ptr<ProjMatrixByBinUsingRayTracing> par = make_matrix(p, true);
  if (rng.coin())
    par->store_only_basic_bins_in_cache(rng.coin());
  std::vector<Bin> bins;
  for (int s = p.pdi->get_min_segment_num(); s <= p.pdi->get_max_segment_num(); ++s)
    for (int a = p.pdi->get_min_axial_pos_num(s); a <= p.pdi->get_max_axial_pos_num(s); ++a)
      for (int v = 0; v < p.pdi->get_num_views(); ++v)
        for (int tp = -2; tp <= 2; ++tp)
          bins.push_back(Bin(s, v, a, tp, p.tof ? rng.range(p.pdi->get_min_tof_pos_num(), p.pdi->get_max_tof_pos_num()) : 0));
  std::vector<Bin> work;
  for (int rep = 0; rep < 3; ++rep)
    work.insert(work.end(), bins.begin(), bins.end());
  for (std::size_t i = work.size(); i > 1; --i)
    std::swap(work[i - 1], work[rng.range(0, static_cast<int>(i) - 1)]);
  if (work.size() > 900)
    work.resize(900);
  std::vector<ProjMatrixElemsForOneBin> refrows(work.size()), parrows(work.size());
  stir::set_num_threads(1);
  for (std::size_t i = 0; i < work.size(); ++i)
    {
      ref->get_proj_matrix_elems_for_one_bin(refrows[i], work[i]);
      refrows[i].sort();
    }
  stir::set_num_threads(T);
  start_trace();
#pragma omp parallel for schedule(dynamic)
  for (int i = 0; i < static_cast<int>(work.size()); ++i)
    {
      par->get_proj_matrix_elems_for_one_bin(parrows[i], work[i]);
      parrows[i].sort();
    }
  emit_trace("cache", 0, 0, 0);
  ++oracle_checks;
  for (std::size_t i = 0; i < work.size(); ++i)
    {
      bool same = refrows[i].size() == parrows[i].size();
      if (same)
        {
          auto a = refrows[i].begin();
          for (auto b = parrows[i].begin(); b != parrows[i].end(); ++b, ++a)
            if (a->get_coords() != b->get_coords() || std::fabs(a->get_value() - b->get_value()) > 1e-4F * std::fabs(a->get_value()) + 1e-7F)
              same = false;
        }
      if (!same)
        {
          fail("cache: row obtained concurrently through the cache differs from the directly computed row, threads=" + std::to_string(T));
          break;
        }
    }
}

// ---------------------------------------------------------------- scenario: forward / back projection
static void
scenario_project(vh::Rng& rng, int T, bool tiny)
{
  Problem p = make_problem(rng, tiny);
  const int n_items = [&]() {
    shared_ptr<ProjMatrixByBinUsingRayTracing> pm = make_matrix(p, true);
    shared_ptr<DataSymmetriesForViewSegmentNumbers> sym(pm->get_symmetries_ptr()->clone());
    return static_cast<int>(detail::find_basic_vs_nums_in_subset(*p.pdi, *sym, p.pdi->get_min_segment_num(), p.pdi->get_max_segment_num(), 0, 1).size())
           * p.pdi->get_num_tof_poss();
  }();
  Image& x = *p.image;
  fill_image(x, rng, false);
  ProjDataInMemory y(p.exam, p.pdi);
  fill_data(y, rng, -4, 4);
  // single thread reference
  stir::set_num_threads(1);
  ProjDataInMemory fwd_ref(p.exam, p.pdi), fwd_par(p.exam, p.pdi);
  shared_ptr<Image> bck_ref(x.get_empty_copy()), bck_par(x.get_empty_copy());
  {
    shared_ptr<ProjMatrixByBin> pm = make_matrix(p, true);
    ForwardProjectorByBinUsingProjMatrixByBin fp(pm);
    BackProjectorByBinUsingProjMatrixByBin bp(pm);
    fp.set_up(p.pdi, p.image);
    bp.set_up(p.pdi, p.image);
    fp.forward_project(fwd_ref, x);
    bp.back_project(*bck_ref, y);
  }
  stir::set_num_threads(T);
  {
    shared_ptr<ProjMatrixByBin> pm = make_matrix(p, true);
    ForwardProjectorByBinUsingProjMatrixByBin fp(pm);
    BackProjectorByBinUsingProjMatrixByBin bp(pm);
    fp.set_up(p.pdi, p.image);
    bp.set_up(p.pdi, p.image);
    start_trace();
    fp.forward_project(fwd_par, x);
    bp.back_project(*bck_par, y);
    emit_trace("project", n_items, n_items, 0);
  }
  ++oracle_checks;
  // forward projection: every bin is computed by exactly one thread from the same row -> compare tightly
  double mx = 0;
  for (auto it = fwd_ref.begin_all(); it != fwd_ref.end_all(); ++it)
    mx = std::max(mx, std::fabs(static_cast<double>(*it)));
  auto ip = fwd_par.begin_all();
  for (auto it = fwd_ref.begin_all(); it != fwd_ref.end_all(); ++it, ++ip)
    if (std::fabs(static_cast<double>(*it) - *ip) > 1e-5 * mx)
      {
        fail("project: forward projection with " + std::to_string(T) + " threads differs from single-thread result (" + vh::hex(*ip) + " vs " + vh::hex(*it) + ")");
        break;
      }
  std::string why;
  ++oracle_checks;
  if (!images_close(*bck_par, *bck_ref, 2e-5, why))
    fail("project: back projection with " + std::to_string(T) + " threads differs from single-thread result beyond reassociation: " + why);
}

// ---------------------------------------------------------------- scenario: log-likelihood
static void
scenario_loglik(vh::Rng& rng, int T, bool tiny = false)
{
  Problem p = make_problem(rng, tiny);
  Image& x = *p.image;
  fill_image(x, rng, true);
  shared_ptr<ProjData> y(new ProjDataInMemory(p.exam, p.pdi));
  fill_data(*y, rng, 0, 6);
  shared_ptr<ProjData> add(new ProjDataInMemory(p.exam, p.pdi));
  fill_data(*add, rng, 1, 2);
  shared_ptr<Image> dir(x.get_empty_copy());
  fill_image(*dir, rng, true); // the Hessian product requires a non-negative forward projection of its input
  struct Res
  {
    double value;
    shared_ptr<Image> grad, sens, hess;
  };
  const bool with_add = rng.coin();
  auto run = [&](int threads, bool trace, int& n_items) {
    stir::set_num_threads(threads);
    shared_ptr<ProjMatrixByBin> pm = make_matrix(p, true);
    shared_ptr<ProjectorByBinPair> pair(new ProjectorByBinPairUsingProjMatrixByBin(pm));
    PoissonLogLikelihoodWithLinearModelForMeanAndProjData<Image> obj;
    obj.set_proj_data_sptr(y);
    obj.set_projector_pair_sptr(pair);
    if (with_add)
      obj.set_additive_proj_data_sptr(add);
    obj.set_num_subsets(1);
    obj.set_recompute_sensitivity(true);
    obj.set_use_subset_sensitivities(true);
    if (trace)
      start_trace();
    shared_ptr<Image> target(x.clone());
    obj.set_up(target);
    Res r;
    r.value = obj.compute_objective_function(x);
    r.grad.reset(x.get_empty_copy());
    obj.compute_sub_gradient(*r.grad, x, 0);
    r.sens.reset(obj.get_subset_sensitivity(0).clone());
    r.hess.reset(x.get_empty_copy());
    obj.accumulate_sub_Hessian_times_input(*r.hess, x, *dir, 0);
    if (trace)
      {
        shared_ptr<DataSymmetriesForViewSegmentNumbers> sym(pm->get_symmetries_ptr()->clone());
        n_items = static_cast<int>(detail::find_basic_vs_nums_in_subset(*p.pdi, *sym, p.pdi->get_min_segment_num(), p.pdi->get_max_segment_num(), 0, 1).size())
                  * p.pdi->get_num_tof_poss();
        emit_trace("loglik", 0, 0, 0);
      }
    return r;
  };
  int n_items = 0;
  Res ref = run(1, false, n_items);
  Res par = run(T, true, n_items);
  std::string why;
  ++oracle_checks;
  if (std::fabs(ref.value - par.value) > 1e-6 * std::fabs(ref.value) + 1e-9)
    fail("loglik: value with " + std::to_string(T) + " threads " + vh::hex(par.value) + " vs single-thread " + vh::hex(ref.value));
  ++oracle_checks;
  if (!images_close(*par.grad, *ref.grad, 5e-5, why))
    fail("loglik: gradient differs from single-thread result: " + why);
  ++oracle_checks;
  if (!images_close(*par.sens, *ref.sens, 5e-5, why))
    fail("loglik: sensitivity differs from single-thread result: " + why);
  ++oracle_checks;
  if (!images_close(*par.hess, *ref.hess, 5e-5, why))
    fail("loglik: Hessian-times-vector differs from single-thread result: " + why);
}

// ---------------------------------------------------------------- helpers for the scenarios on files / objective function
static std::string g_dir;
static int g_file_counter = 0;

// remove what an earlier (possibly crashed) run left behind
static void
wipe_dir()
{
  if (DIR* d = opendir(g_dir.c_str()))
    {
      while (dirent* e = readdir(d))
        if (e->d_name[0] == 'f')
          unlink((g_dir + "/" + e->d_name).c_str());
      closedir(d);
    }
}

static std::string
new_file(const char* tag)
{
  return g_dir + "/f" + std::to_string(++g_file_counter) + "_" + tag;
}

static void
remove_files(const std::string& base)
{
  unlink((base + ".hs").c_str());
  unlink((base + ".s").c_str());
}

static shared_ptr<ProjData>
make_file(const Problem& p, const std::string& base, ProjDataFromStream::StorageOrder order)
{
  return shared_ptr<ProjData>(new ProjDataInterfile(p.exam, p.pdi, base + ".hs", std::ios::in | std::ios::out | std::ios::trunc, order));
}

template <class A, class B>
static bool
same_values(const A& a, const B& b)
{
  if (a.size_all() != b.size_all())
    return false;
  auto ib = b.begin_all();
  for (auto ia = a.begin_all(); ia != a.end_all(); ++ia, ++ib)
    if (!(*ia == *ib))
      return false;
  return true;
}

// all viewgrams of `a` against `b` (read single-threaded): |a-b| <= rel * max|b|
static bool
projdata_close(const ProjData& a, const ProjData& b, double rel, std::string& why)
{
  double mx = 0;
  for (int t = b.get_min_tof_pos_num(); t <= b.get_max_tof_pos_num(); ++t)
    for (int s = b.get_min_segment_num(); s <= b.get_max_segment_num(); ++s)
      for (int v = b.get_min_view_num(); v <= b.get_max_view_num(); ++v)
        {
          const Viewgram<float> vb = b.get_viewgram(v, s, false, t);
          for (auto it = vb.begin_all(); it != vb.end_all(); ++it)
            mx = std::max(mx, std::fabs(static_cast<double>(*it)));
        }
  for (int t = b.get_min_tof_pos_num(); t <= b.get_max_tof_pos_num(); ++t)
    for (int s = b.get_min_segment_num(); s <= b.get_max_segment_num(); ++s)
      for (int v = b.get_min_view_num(); v <= b.get_max_view_num(); ++v)
        {
          const Viewgram<float> va = a.get_viewgram(v, s, false, t);
          const Viewgram<float> vb = b.get_viewgram(v, s, false, t);
          auto ia = va.begin_all();
          for (auto ib = vb.begin_all(); ib != vb.end_all(); ++ib, ++ia)
            if (!(std::fabs(static_cast<double>(*ia) - *ib) <= rel * mx))
              {
                why = "viewgram (view " + std::to_string(v) + ", segment " + std::to_string(s) + ", tof " + std::to_string(t) + "): "
                      + vh::hex(*ia) + " vs single-thread " + vh::hex(*ib) + " (max " + vh::hex(mx) + ")";
                return false;
              }
        }
  return true;
}

static int
num_items_in_subset(const Problem& p, const ProjMatrixByBin& pm, int subset, int nsub)
{
  shared_ptr<DataSymmetriesForViewSegmentNumbers> sym(pm.get_symmetries_ptr()->clone());
  return static_cast<int>(detail::find_basic_vs_nums_in_subset(*p.pdi, *sym, p.pdi->get_min_segment_num(), p.pdi->get_max_segment_num(), subset, nsub).size())
         * p.pdi->get_num_tof_poss();
}

// everything the objective function can be asked, per subset
struct LLConfig
{
  int nsub;
  bool zero_ends;
  shared_ptr<Image> x, dir;
};
struct LLResult
{
  bool ok = false;
  std::string error;
  std::vector<std::string> names; // of images
  std::vector<shared_ptr<Image>> images;
  std::vector<double> scales; // extra magnitude (sum of cancelling parts) the tolerance of an image refers to
  std::vector<double> values;
};

typedef PoissonLogLikelihoodWithLinearModelForMeanAndProjData<Image> LLObj;

static double
max_abs(const Image& im)
{
  double mx = 0;
  for (auto it = im.begin_all_const(); it != im.end_all_const(); ++it)
    mx = std::max(mx, std::fabs(static_cast<double>(*it)));
  return mx;
}

// Everything the objective function can be asked, subset by subset, at c.x (with c.dir as the vector of the Hessian products).
static void
ask_everything(LLObj& obj, const Problem& p, const ProjMatrixByBin& pm, const LLConfig& c, LLResult& r, const std::function<void()>& begin_pass,
               const std::function<void(const std::string&, int)>& end_pass)
{
  const Image& x = *c.x;
  for (int s = 0; s < c.nsub; ++s)
    {
      const int n = num_items_in_subset(p, pm, s, c.nsub);
      const std::string tag = "[subset " + std::to_string(s) + "/" + std::to_string(c.nsub) + "]";
      auto add_image = [&](const std::string& name, shared_ptr<Image> im, double scale) {
        r.names.push_back(name + tag);
        r.images.push_back(im);
        r.scales.push_back(scale);
      };
      // value
      begin_pass();
      r.values.push_back(obj.compute_objective_function(x, s));
      end_pass("value", n);
      // sensitivity of the subset, computed afresh
      shared_ptr<Image> sens(x.get_empty_copy());
      begin_pass();
      obj.add_subset_sensitivity(*sens, s);
      end_pass("sens", p.pdi->is_tof_data() ? 0 : n); // (TOF data: the sensitivity uses the non-TOF geometry)
      const double sens_max = max_abs(*sens);
      add_image("add_subset_sensitivity", sens, 0);
      add_image("subset sensitivity computed by set_up", shared_ptr<Image>(obj.get_subset_sensitivity(s).clone()), 0);
      // gradient + sensitivity, gradient
      shared_ptr<Image> gps(x.get_empty_copy());
      begin_pass();
      obj.compute_sub_gradient_without_penalty_plus_sensitivity(*gps, x, s);
      end_pass("gradps", n);
      add_image("sub-gradient plus sensitivity", gps, 0);
      shared_ptr<Image> grad(x.get_empty_copy());
      begin_pass();
      obj.compute_sub_gradient(*grad, x, s);
      end_pass("grad", n);
      // the gradient is (back projection of the quotient) - sensitivity: its rounding error is that of the two parts
      add_image("sub-gradient", grad, max_abs(*gps) + sens_max);
      // Hessian products
      shared_ptr<Image> hess(x.get_empty_copy());
      if (obj.accumulate_sub_Hessian_times_input(*hess, x, *c.dir, s) != Succeeded::yes)
        r.error = "accumulate_sub_Hessian_times_input failed";
      add_image("accumulate_sub_Hessian_times_input", hess, 0);
      shared_ptr<Image> ahess(x.get_empty_copy());
      if (obj.add_multiplication_with_approximate_sub_Hessian(*ahess, *c.dir, s) != Succeeded::yes)
        r.error = "add_multiplication_with_approximate_sub_Hessian failed";
      add_image("add_multiplication_with_approximate_sub_Hessian", ahess, 0);
    }
}

// One fresh objective function (fresh matrix, projectors, normalisation object) asked for everything with `threads` threads.
static LLResult
run_ll(const Problem& p, const LLConfig& c, shared_ptr<ProjData> y, shared_ptr<ProjData> add, shared_ptr<ProjData> normdata,
       int threads, bool trace, const std::string& scen)
{
  LLResult r;
  stir::set_num_threads(threads);
  try
    {
      shared_ptr<ProjMatrixByBinUsingRayTracing> pm = make_matrix(p, true);
      shared_ptr<ProjectorByBinPair> pair(new ProjectorByBinPairUsingProjMatrixByBin(pm));
      LLObj obj;
      obj.set_proj_data_sptr(y);
      obj.set_projector_pair_sptr(pair);
      if (add)
        obj.set_additive_proj_data_sptr(add);
      if (normdata)
        obj.set_normalisation_sptr(shared_ptr<BinNormalisation>(new BinNormalisationFromProjData(normdata)));
      obj.set_zero_seg0_end_planes(c.zero_ends);
      obj.set_num_subsets(c.nsub);
      obj.set_recompute_sensitivity(true);
      obj.set_use_subset_sensitivities(true);
      const Image& x = *c.x;
      // one trace for the whole life of the objective function (the cache validator needs the whole history of the cache); the passes of
      // distributable_computation whose number of work items is known are also listed on their own (work items only) afterwards
      struct Pass
      {
        std::string name;
        std::size_t from, to;
        int expected;
      };
      std::vector<Pass> passes;
      std::size_t mark = 0;
      auto begin_pass = [&]() { mark = g_log.size(); }; // (no parallel region is active here)
      auto end_pass = [&](const std::string& name, int expected) {
        if (trace && expected > 0)
          passes.push_back(Pass{ scen + "." + name, mark, g_log.size(), expected });
      };
      if (trace)
        start_trace();
      shared_ptr<Image> target(x.clone());
      if (obj.set_up(target) != Succeeded::yes)
        {
          r.error = "set_up failed";
          g_logging = false;
          return r;
        }
      ask_everything(obj, p, *pm, c, r, begin_pass, end_pass);
      if (trace)
        {
          emit_trace(scen, 0, 0, 0);
          for (auto& ps : passes)
            emit_trace(ps.name, 0, 0, ps.expected, ps.from, ps.to, "dist.work");
        }
      r.ok = r.error.empty();
    }
  catch (std::exception& e)
    {
      g_logging = false;
      r.error = std::string("exception: ") + e.what();
    }
  catch (...)
    {
      g_logging = false;
      r.error = "exception";
    }
  return r;
}

static void
compare_ll(const std::string& scen, int T, const LLResult& ref, const LLResult& par)
{
  ++oracle_checks;
  if (!par.ok)
    {
      fail(scen + ": with " + std::to_string(T) + " threads the objective function failed (" + par.error + ") where the single-thread run succeeded");
      return;
    }
  if (par.values.size() != ref.values.size() || par.images.size() != ref.images.size())
    {
      fail(scen + ": different number of results");
      return;
    }
  for (std::size_t i = 0; i < ref.values.size(); ++i)
    {
      ++oracle_checks;
      // sum of T partial sums of doubles instead of one: relative error far below 1e-9 of the sum of the magnitudes; the terms
      // y log(ybar) - ybar have mixed signs, so the bound is relative to a magnitude at least |value|
      if (!(std::fabs(ref.values[i] - par.values[i]) <= 1e-6 * std::fabs(ref.values[i]) + 1e-9))
        fail(scen + ": value of subset " + std::to_string(i) + " with " + std::to_string(T) + " threads " + vh::hex(par.values[i]) + " vs single-thread "
             + vh::hex(ref.values[i]));
    }
  for (std::size_t i = 0; i < ref.images.size(); ++i)
    {
      ++oracle_checks;
      const double mx = std::max(max_abs(*ref.images[i]), ref.scales[i]);
      auto ia = par.images[i]->begin_all_const();
      for (auto ib = ref.images[i]->begin_all_const(); ib != ref.images[i]->end_all_const(); ++ib, ++ia)
        if (!(std::fabs(static_cast<double>(*ia) - *ib) <= 5e-5 * mx + 1e-30))
          {
            fail(scen + ": " + ref.names[i] + " with " + std::to_string(T) + " threads differs from the single-thread result beyond reassociation: " + vh::hex(*ia)
                 + " vs " + vh::hex(*ib) + " (scale " + vh::hex(mx) + ")");
            break;
          }
    }
}

// The reduction of the per-thread log-likelihood terms happens once per viewgram: a per-thread accumulator that became shared loses a
// term only if two threads finish a viewgram within nanoseconds of each other.  Such a window is reached by repetition, not by delays:
// a small data set (a few bins per viewgram), one objective function, the value asked many times without perturbation.
static void
value_hammer(vh::Rng& rng, int T)
{
  Problem p;
  p.tof = rng.range(0, 3) == 0;
  const int N = 2 * rng.range(6, 8);
  shared_ptr<Scanner> scanner = vh::make_scanner(N, 1, p.tof ? 5 : -1);
  p.pdi = vh::make_pdi(scanner, 1, 0, N / 2, 3, false, p.tof ? 1 : 0);
  p.image = vh::make_image(*p.pdi, 1.F, 5, 1);
  p.exam.reset(new ExamInfo);
  p.exam->imaging_modality = ImagingModality::PT;
  p.flags = rng.range(0, 1) * 4; // few symmetries: as many work items as views
  Image& x = *p.image;
  fill_image(x, rng, true);
  shared_ptr<ProjData> y(new ProjDataInMemory(p.exam, p.pdi));
  fill_data(*y, rng, 0, 6);
  const int repeats = 150;
  auto run = [&](int threads, std::vector<double>& values) {
    stir::set_num_threads(threads);
    shared_ptr<ProjMatrixByBinUsingRayTracing> pm = make_matrix(p, true);
    shared_ptr<ProjectorByBinPair> pair(new ProjectorByBinPairUsingProjMatrixByBin(pm));
    LLObj obj;
    obj.set_proj_data_sptr(y);
    obj.set_projector_pair_sptr(pair);
    obj.set_num_subsets(1);
    obj.set_recompute_sensitivity(true);
    obj.set_use_subset_sensitivities(true);
    shared_ptr<Image> target(x.clone());
    if (obj.set_up(target) != Succeeded::yes)
      return false;
    for (int k = 0; k < (threads == 1 ? 1 : repeats); ++k)
      values.push_back(obj.compute_objective_function(x));
    return true;
  };
  std::vector<double> ref, par;
  ++oracle_checks;
  try
    {
      if (!run(1, ref))
        {
          fail("loglik_full: single-thread reference run (small data set) failed");
          return;
        }
      if (!run(T, par))
        {
          fail("loglik_full: set_up with " + std::to_string(T) + " threads failed where the single-thread run succeeded (small data set)");
          return;
        }
    }
  catch (std::exception& e)
    {
      fail(std::string("loglik_full: exception (small data set, repeated value), threads=") + std::to_string(T) + ": " + e.what());
      return;
    }
  stir::set_num_threads(1);
  for (std::size_t k = 0; k < par.size(); ++k)
    if (!(std::fabs(par[k] - ref[0]) <= 1e-6 * std::fabs(ref[0]) + 1e-9))
      {
        fail("loglik_full: repetition " + std::to_string(k) + " of the log-likelihood value on a small data set with " + std::to_string(T) + " threads: " + vh::hex(par[k])
             + " vs single-thread " + vh::hex(ref[0]));
        break;
      }
}

// ---------------------------------------------------------------- scenario: loglik_full
static void
scenario_loglik_full(vh::Rng& rng, int T, bool tiny = false)
{
  Problem p = make_problem(rng, tiny);
  LLConfig c;
  c.x = p.image;
  fill_image(*c.x, rng, true);
  c.dir.reset(c.x->get_empty_copy());
  fill_image(*c.dir, rng, true); // the Hessian products require a non-negative forward projection of their input
  shared_ptr<ProjData> y(new ProjDataInMemory(p.exam, p.pdi));
  fill_data(*y, rng, 0, 6);
  shared_ptr<ProjData> add, norm;
  if (rng.range(0, 2) != 0)
    {
      add.reset(new ProjDataInMemory(p.exam, p.pdi));
      fill_data(*add, rng, 1, 3);
    }
  if (rng.coin())
    {
      norm.reset(new ProjDataInMemory(p.exam, p.pdi));
      fill_data(*norm, rng, 1, 3);
    }
  c.zero_ends = rng.range(0, 3) == 0;
  c.nsub = rng.range(1, 3);
  LLResult ref = run_ll(p, c, y, add, norm, 1, false, "loglik_full");
  if (!ref.ok && c.nsub != 1)
    {
      // the library refuses some subset numbers for some symmetries: not this property's subject
      c.nsub = 1;
      ref = run_ll(p, c, y, add, norm, 1, false, "loglik_full");
    }
  if (!ref.ok)
    {
      fail("loglik_full: single-thread reference run failed: " + ref.error);
      ++oracle_checks;
      return;
    }
  LLResult par = run_ll(p, c, y, add, norm, T, true, "loglik_full");
  compare_ll("loglik_full", T, ref, par);
  if (!tiny)
    value_hammer(rng, T);
}

// ---------------------------------------------------------------- scenario: projdata_stream
struct IoItem
{
  int kind; // 0 get_viewgram 1 get_sinogram 2 get_bin_value 3 get_segment_by_view 4 get_segment_by_sinogram
            // 10 set_viewgram 11 set_sinogram 12 set_segment (by view) 13 set_segment (by sinogram) 14 set_bin_value for one sinogram
  int seg, view, ax, tang, tof;
};

// The harness' own parallel loop over `items`: reads from `rd` are compared with `rd_copy` (an in-memory copy), writes take the
// values of `src` and go to disjoint regions of `dst`; afterwards `dst` must equal `src` everywhere.
static void
io_hammer(const std::string& what, int T, ProjData& rd, ProjDataInMemory& rd_copy, ProjData& dst, ProjDataInMemory& src, const std::vector<IoItem>& items)
{
  std::atomic<int> bad_reads(0), bad_writes(0), exceptions(0);
  auto* rd_s = dynamic_cast<ProjDataFromStream*>(&rd);
  auto* rd_m = dynamic_cast<ProjDataInMemory*>(&rd);
  auto* dst_s = dynamic_cast<ProjDataFromStream*>(&dst);
  auto* dst_m = dynamic_cast<ProjDataInMemory*>(&dst);
  stir::set_num_threads(T);
  start_trace();
#pragma omp parallel for schedule(dynamic)
  for (int i = 0; i < static_cast<int>(items.size()); ++i)
    {
      const IoItem& it = items[i];
      try
        {
          if (i % 4 == 0)
            perturb(true);
          switch (it.kind)
            {
            case 0:
              if (!same_values(rd.get_viewgram(it.view, it.seg, false, it.tof), rd_copy.get_viewgram(it.view, it.seg, false, it.tof)))
                ++bad_reads;
              break;
            case 1:
              if (!same_values(rd.get_sinogram(it.ax, it.seg, false, it.tof), rd_copy.get_sinogram(it.ax, it.seg, false, it.tof)))
                ++bad_reads;
              break;
            case 2: {
              Bin b(it.seg, it.view, it.ax, it.tang, it.tof);
              Bin b2 = b;
              const float got = rd_s ? rd_s->get_bin_value(b) : rd_m->get_bin_value(b);
              if (got != rd_copy.get_bin_value(b2))
                ++bad_reads;
              break;
            }
            case 3:
              if (!same_values(rd.get_segment_by_view(it.seg, it.tof), rd_copy.get_segment_by_view(it.seg, it.tof)))
                ++bad_reads;
              break;
            case 4:
              if (!same_values(rd.get_segment_by_sinogram(it.seg, it.tof), rd_copy.get_segment_by_sinogram(it.seg, it.tof)))
                ++bad_reads;
              break;
            case 10:
              if (dst.set_viewgram(src.get_viewgram(it.view, it.seg, false, it.tof)) != Succeeded::yes)
                ++bad_writes;
              break;
            case 11:
              if (dst.set_sinogram(src.get_sinogram(it.ax, it.seg, false, it.tof)) != Succeeded::yes)
                ++bad_writes;
              break;
            case 12:
              if (dst.set_segment(src.get_segment_by_view(it.seg, it.tof)) != Succeeded::yes)
                ++bad_writes;
              break;
            case 13:
              if (dst.set_segment(src.get_segment_by_sinogram(it.seg, it.tof)) != Succeeded::yes)
                ++bad_writes;
              break;
            case 14: {
              const Sinogram<float> sino = src.get_sinogram(it.ax, it.seg, false, it.tof);
              for (int v = sino.get_min_view_num(); v <= sino.get_max_view_num(); ++v)
                for (int tp = sino.get_min_tangential_pos_num(); tp <= sino.get_max_tangential_pos_num(); ++tp)
                  {
                    Bin b(it.seg, v, it.ax, tp, it.tof, sino[v][tp]);
                    if (dst_s)
                      dst_s->set_bin_value(b);
                    else
                      dst_m->set_bin_value(b);
                  }
              break;
            }
            }
        }
      catch (...)
        {
          ++exceptions;
        }
    }
  emit_trace("projdata_stream.io", 0, 0, 0);
  stir::set_num_threads(1);
  ++oracle_checks;
  if (exceptions)
    fail("projdata_stream: " + what + ": " + std::to_string(exceptions.load()) + " concurrent get_/set_ calls threw, threads=" + std::to_string(T));
  ++oracle_checks;
  if (bad_reads)
    fail("projdata_stream: " + what + ": " + std::to_string(bad_reads.load()) + " concurrent reads returned data different from what is stored, threads="
         + std::to_string(T));
  ++oracle_checks;
  if (bad_writes)
    fail("projdata_stream: " + what + ": " + std::to_string(bad_writes.load()) + " concurrent set_ calls reported failure, threads=" + std::to_string(T));
  ++oracle_checks;
  std::string why;
  try
    {
      if (!projdata_close(dst, src, 0., why))
        fail("projdata_stream: " + what + ": after concurrent writes to disjoint regions the data differ from what was written, threads=" + std::to_string(T) + ": " + why);
    }
  catch (...)
    {
      fail("projdata_stream: " + what + ": reading back after concurrent writes threw, threads=" + std::to_string(T));
    }
}

// with_bin_values = false: the same list without the items of kind 2 / 14 (single-bin accessors), whose positions become reads /
// writes of the sinogram (so that the list still covers every region)
static std::vector<IoItem>
without_bin_values(std::vector<IoItem> items)
{
  for (auto& it : items)
    if (it.kind == 2)
      it.kind = 1;
    else if (it.kind == 14)
      it.kind = 11;
  return items;
}

static std::vector<IoItem>
make_io_items(const Problem& p, vh::Rng& rng, int n_reads)
{
  const ProjDataInfo& pdi = *p.pdi;
  std::vector<IoItem> items;
  for (int t = pdi.get_min_tof_pos_num(); t <= pdi.get_max_tof_pos_num(); ++t)
    for (int s = pdi.get_min_segment_num(); s <= pdi.get_max_segment_num(); ++s)
      {
        const int mode = rng.range(0, 4);
        if (mode == 0)
          for (int v = pdi.get_min_view_num(); v <= pdi.get_max_view_num(); ++v)
            items.push_back(IoItem{ 10, s, v, 0, 0, t });
        else if (mode == 1)
          for (int a = pdi.get_min_axial_pos_num(s); a <= pdi.get_max_axial_pos_num(s); ++a)
            items.push_back(IoItem{ 11, s, 0, a, 0, t });
        else if (mode == 2)
          items.push_back(IoItem{ 12, s, 0, 0, 0, t });
        else if (mode == 3)
          items.push_back(IoItem{ 13, s, 0, 0, 0, t });
        else
          for (int a = pdi.get_min_axial_pos_num(s); a <= pdi.get_max_axial_pos_num(s); ++a)
            items.push_back(IoItem{ 14, s, 0, a, 0, t });
      }
  for (int k = 0; k < n_reads; ++k)
    {
      IoItem it;
      const int r = rng.range(0, 19);
      it.kind = r < 9 ? 0 : r < 13 ? 1 : r < 17 ? 2 : r < 19 ? 3 : 4;
      it.tof = rng.range(pdi.get_min_tof_pos_num(), pdi.get_max_tof_pos_num());
      it.seg = rng.range(pdi.get_min_segment_num(), pdi.get_max_segment_num());
      it.view = rng.range(pdi.get_min_view_num(), pdi.get_max_view_num());
      it.ax = rng.range(pdi.get_min_axial_pos_num(it.seg), pdi.get_max_axial_pos_num(it.seg));
      it.tang = rng.range(pdi.get_min_tangential_pos_num(), pdi.get_max_tangential_pos_num());
      items.push_back(it);
    }
  for (std::size_t i = items.size(); i > 1; --i)
    std::swap(items[i - 1], items[rng.range(0, static_cast<int>(i) - 1)]);
  return items;
}

static void
scenario_projdata_stream(vh::Rng& rng, int T)
{
  Problem p = make_problem(rng, false);
  // (the Interfile header writer knows only the by-view order for TOF data)
  const ProjDataFromStream::StorageOrder order
      = (rng.coin() || p.tof) ? ProjDataFromStream::Segment_View_AxialPos_TangPos : ProjDataFromStream::Segment_AxialPos_View_TangPos;
  std::vector<std::string> files;
  auto fresh = [&](const char* tag) {
    files.push_back(new_file(tag));
    return files.back();
  };
  stir::set_num_threads(1);
  // ---- .io: concurrent use of one object from user code
  {
    ProjDataInMemory src(p.exam, p.pdi), rd_copy(p.exam, p.pdi);
    fill_data(src, rng, 1, 9);
    fill_data(rd_copy, rng, 1, 9);
    const std::vector<IoItem> items = make_io_items(p, rng, 400);
    {
      const std::string frd = fresh("rd"), fdst = fresh("dst");
      shared_ptr<ProjData> rd = make_file(p, frd, order);
      rd->fill(rd_copy);
      shared_ptr<ProjData> dst = make_file(p, fdst, order);
      dst->fill(0.F);
      // half of the time the reader is a second object on the same file (as a reconstruction reading data written earlier)
      shared_ptr<ProjData> reader = rng.coin() ? rd : ProjData::read_from_file(frd + ".hs");
      // (ProjDataFromStream::get_bin_value / set_bin_value are not inside critical(PROJDATAFROMSTREAMIO) and no computation of the property
      //  calls them from a parallel region: they are not used on file-backed objects here)
      io_hammer("ProjDataInterfile/ProjDataFromStream on a file", T, *reader, rd_copy, *dst, src, without_bin_values(items));
    }
    {
      ProjDataInMemory rd(p.exam, p.pdi), dst(p.exam, p.pdi);
      rd.fill(rd_copy);
      dst.fill(0.F);
      io_hammer("ProjDataInMemory", T, rd, rd_copy, dst, src, items);
    }
  }
  // ---- .project: forward projection into a file, back projection from a file
  Image& x = *p.image;
  fill_image(x, rng, false);
  const std::string fy = fresh("y");
  {
    shared_ptr<ProjData> y = make_file(p, fy, order);
    ProjDataInMemory tmp(p.exam, p.pdi);
    fill_data(tmp, rng, -4, 4);
    y->fill(tmp);
  }
  int n_items = 0;
  auto project = [&](int threads, bool trace, const std::string& ffwd, shared_ptr<Image> bck) {
    stir::set_num_threads(threads);
    shared_ptr<ProjMatrixByBinUsingRayTracing> pm = make_matrix(p, true);
    n_items = num_items_in_subset(p, *pm, 0, 1);
    ForwardProjectorByBinUsingProjMatrixByBin fp(pm);
    BackProjectorByBinUsingProjMatrixByBin bp(pm);
    fp.set_up(p.pdi, p.image);
    bp.set_up(p.pdi, p.image);
    shared_ptr<ProjData> fwd = make_file(p, ffwd, order);
    shared_ptr<ProjData> y = ProjData::read_from_file(fy + ".hs");
    if (trace)
      start_trace();
    fp.forward_project(*fwd, x);
    bp.back_project(*bck, *y);
    if (trace)
      emit_trace("projdata_stream.project", n_items, n_items, 0);
  };
  {
    const std::string fref = fresh("fwd1"), fpar = fresh("fwdT");
    shared_ptr<Image> bck_ref(x.get_empty_copy()), bck_par(x.get_empty_copy());
    project(1, false, fref, bck_ref);
    project(T, true, fpar, bck_par);
    stir::set_num_threads(1);
    std::string why;
    ++oracle_checks;
    // every bin of the forward projection is computed by exactly one thread from one matrix row: no reassociation at all
    if (!projdata_close(*ProjData::read_from_file(fpar + ".hs"), *ProjData::read_from_file(fref + ".hs"), 1e-5, why))
      fail("projdata_stream: forward projection into a file with " + std::to_string(T) + " threads differs from the file written by the single-thread run: " + why);
    ++oracle_checks;
    if (!images_close(*bck_par, *bck_ref, 2e-5, why))
      fail("projdata_stream: back projection of data in a file with " + std::to_string(T) + " threads differs from single-thread result beyond reassociation: " + why);
  }
  // ---- .loglik: objective function on data / additive term / normalisation factors in files
  {
    LLConfig c;
    c.x = p.image;
    fill_image(*c.x, rng, true);
    c.dir.reset(c.x->get_empty_copy());
    fill_image(*c.dir, rng, true);
    c.zero_ends = false;
    c.nsub = rng.range(1, 2);
    const std::string fc = fresh("counts"), fa = fresh("add"), fn = fresh("norm");
    const bool with_add = rng.range(0, 3) != 0, with_norm = rng.coin();
    {
      ProjDataInMemory tmp(p.exam, p.pdi);
      fill_data(tmp, rng, 0, 6);
      make_file(p, fc, order)->fill(tmp);
      fill_data(tmp, rng, 1, 3);
      make_file(p, fa, order)->fill(tmp);
      fill_data(tmp, rng, 1, 3);
      make_file(p, fn, order)->fill(tmp);
    }
    auto open = [&](const std::string& f, bool wanted) { return wanted ? ProjData::read_from_file(f + ".hs") : shared_ptr<ProjData>(); };
    LLResult ref = run_ll(p, c, open(fc, true), open(fa, with_add), open(fn, with_norm), 1, false, "projdata_stream.loglik");
    if (!ref.ok && c.nsub != 1)
      {
        c.nsub = 1;
        ref = run_ll(p, c, open(fc, true), open(fa, with_add), open(fn, with_norm), 1, false, "projdata_stream.loglik");
      }
    ++oracle_checks;
    if (!ref.ok)
      fail("projdata_stream: single-thread reference run of the objective function failed: " + ref.error);
    else
      {
        LLResult par = run_ll(p, c, open(fc, true), open(fa, with_add), open(fn, with_norm), T, true, "projdata_stream.loglik");
        compare_ll("projdata_stream.loglik", T, ref, par);
      }
  }
  stir::set_num_threads(1);
  for (auto& f : files)
    remove_files(f);
}

// ---------------------------------------------------------------- scenario: scatter
typedef VoxelsOnCartesianGrid<float> Vox;

// access to the protected per-viewgram step (no behaviour added): records what it returns; the per-bin step (called inside the
// library's parallel loop) is a schedule point
struct ScatterSim : public SingleScatterSimulation
{
  std::vector<double> totals;
  double scatter_estimate(const Bin& bin) override
  {
    if (g_logging)
      perturb(true);
    return SingleScatterSimulation::scatter_estimate(bin);
  }
  double process_data_for_view_segment_num(const ViewSegmentNumbers& vs) override
  {
    const double t = SingleScatterSimulation::process_data_for_view_segment_num(vs);
    totals.push_back(t);
    return t;
  }
};

static shared_ptr<Vox>
blank_image(int nz, int nxy, float vz, float vxy)
{
  shared_ptr<Vox> im(new Vox(IndexRange3D(0, nz - 1, -(nxy / 2), -(nxy / 2) + nxy - 1, -(nxy / 2), -(nxy / 2) + nxy - 1),
                             CartesianCoordinate3D<float>(0, 0, 0),
                             CartesianCoordinate3D<float>(vz, vxy, vxy)));
  im->fill(0.F);
  return im;
}

// scanner, energy window, activity / attenuation / scatter-point images of one scatter simulation
struct ScatterCfg
{
  int N, R;
  shared_ptr<ProjDataInfo> pdi;
  shared_ptr<ExamInfo> exam;
  shared_ptr<Vox> act, att, sp;
};

// tiny: 12 detectors x 1 ring, i.e. 5 bins per viewgram (the library's parallel loop runs over the bins of one viewgram)
static ScatterCfg
make_scatter_cfg(vh::Rng& rng, bool tiny)
{
  ScatterCfg c;
  static const int Ns[] = { 12, 16, 20, 24 };
  const int N = tiny ? 12 : Ns[rng.range(0, 3)], R = tiny ? 1 : rng.range(1, 3);
  c.N = N;
  c.R = R;
  shared_ptr<Scanner> scanner = vh::make_scanner(N, R);
  scanner->set_energy_resolution(0.10F + 0.02F * rng.range(0, 3));
  shared_ptr<ProjDataInfo> pdi = vh::make_pdi(scanner, 1, R - 1, N / 2, N / 2 - 1);
  shared_ptr<ExamInfo> exam(new ExamInfo);
  exam->set_low_energy_thres(350.F + 25 * rng.range(0, 4));
  exam->set_high_energy_thres(650.F);
  exam->imaging_modality = ImagingModality::PT;
  const int anxy = rng.coin() ? 5 : 7;
  const float avxy = anxy == 5 ? 11.F : 8.F;
  shared_ptr<Vox> act = blank_image(3, anxy, 4.F, avxy), att = blank_image(3, anxy, 4.F, avxy);
  for (auto it = act->begin_all(); it != act->end_all(); ++it)
    *it = rng.unit() < 0.25 ? 0.F : static_cast<float>(0.5 + 5.5 * rng.unit());
  for (auto it = att->begin_all(); it != att->end_all(); ++it)
    *it = rng.unit() < 0.6 ? static_cast<float>(0.012 + 0.02 * rng.unit()) : static_cast<float>(0.10 + 0.06 * rng.unit());
  // scatter points: a coarse grid with the same z-middle, 4..9 voxels above the threshold
  const int cnxy = 3, cnz = 2;
  shared_ptr<Vox> sp = blank_image(cnz, cnxy, 8.F, avxy * anxy / cnxy);
  {
    int n = 0;
    const int wanted = rng.range(4, 9);
    for (auto it = sp->begin_all(); it != sp->end_all(); ++it)
      if (n < wanted && rng.range(0, 2) != 0)
        {
          *it = static_cast<float>(0.02 + 0.13 * rng.unit());
          ++n;
        }
  }
  c.pdi = pdi;
  c.exam = exam;
  c.act = act;
  c.att = att;
  c.sp = sp;
  return c;
}

static void
scenario_scatter(vh::Rng& rng, int T, bool tiny = false)
{
  const ScatterCfg cfg = make_scatter_cfg(rng, tiny);
  const shared_ptr<ProjDataInfo> pdi = cfg.pdi;
  const shared_ptr<ExamInfo> exam = cfg.exam;
  const shared_ptr<Vox> act = cfg.act, att = cfg.att, sp = cfg.sp;
  struct Out
  {
    bool ok = false;
    std::string error;
    std::vector<float> bins;
    std::vector<double> totals;
  };
  auto run = [&](int threads, bool cache, bool trace) {
    Out o;
    stir::set_num_threads(threads);
    try
      {
        ScatterSim s;
        s.set_randomly_place_scatter_points(false);
        s.set_attenuation_threshold(0.01F);
        s.set_use_cache(cache);
        s.set_template_proj_data_info(*pdi);
        s.set_exam_info(*exam);
        s.set_activity_image_sptr(act);
        s.set_density_image_sptr(att);
        s.set_density_image_for_scatter_points_sptr(sp);
        if (trace)
          {
            g_sc_reads = 0;
            g_sc_hits = 0;
            start_trace();
          }
        if (s.set_up() != Succeeded::yes)
          {
            g_logging = false;
            o.error = "set_up failed";
            return o;
          }
        shared_ptr<ProjDataInMemory> out(new ProjDataInMemory(s.get_exam_info_sptr(), s.get_template_proj_data_info_sptr()->create_shared_clone()));
        s.set_output_proj_data_sptr(out);
        const bool fine = s.process_data() == Succeeded::yes;
        if (trace)
          {
            // the cache reads are summarised as one event (number of reads, number of hits)
            g_logging = false;
            g_log.push_back(Event{ 0, cache ? "sc.act.reads" : "sc.nocache", g_sc_reads.load(), static_cast<int>(g_sc_hits.load()) });
            emit_trace(cache ? "scatter.cache" : "scatter.nocache", 0, 0, 0);
          }
        if (!fine)
          {
            o.error = "process_data did not succeed";
            return o;
          }
        auto* m = dynamic_cast<ProjDataInMemory*>(s.get_output_proj_data_sptr().get());
        if (!m)
          {
            o.error = "no output";
            return o;
          }
        o.bins.assign(m->begin_all(), m->end_all());
        o.totals = s.totals;
        o.ok = true;
      }
    catch (std::exception& e)
      {
        g_logging = false;
        o.error = std::string("exception: ") + e.what();
      }
    catch (...)
      {
        g_logging = false;
        o.error = "exception";
      }
    return o;
  };
  for (int rep = 0; rep < 3; ++rep)
    for (int cache = 0; cache < 2; ++cache)
      {
        const Out ref = run(1, cache, false);
        ++oracle_checks;
        if (!ref.ok)
          {
            fail(std::string("scatter: single-thread reference run failed: ") + ref.error);
            continue;
          }
        const Out par = run(T, cache, true);
        const std::string ctx = std::string(cache ? "cache enabled" : "cache disabled") + ", threads=" + std::to_string(T);
        ++oracle_checks;
        if (!par.ok)
          {
            fail("scatter: " + ctx + ": " + par.error + " where the single-thread run succeeded");
            continue;
          }
        // every bin is computed by one thread as a sequential sum over the scatter points, and a cached integral is the value the same
        // function returns uncached: no reassociation, the bins must be bitwise those of the single-thread run
        ++oracle_checks;
        if (par.bins.size() != ref.bins.size())
          fail("scatter: " + ctx + ": output size differs");
        else
          for (std::size_t i = 0; i < ref.bins.size(); ++i)
            if (!(par.bins[i] == ref.bins[i]))
              {
                fail("scatter: " + ctx + ": bin " + std::to_string(i) + " = " + vh::hex(par.bins[i]) + " vs single-thread " + vh::hex(ref.bins[i]));
                break;
              }
        // total scatter per viewgram: reduction(+) of per-thread partial sums of non-negative doubles
        ++oracle_checks;
        if (par.totals.size() != ref.totals.size())
          fail("scatter: " + ctx + ": number of viewgrams processed differs");
        else
          for (std::size_t i = 0; i < ref.totals.size(); ++i)
            if (!(std::fabs(par.totals[i] - ref.totals[i]) <= 1e-12 * std::fabs(ref.totals[i])))
              {
                fail("scatter: " + ctx + ": total scatter of viewgram " + std::to_string(i) + " = " + vh::hex(par.totals[i]) + " vs single-thread "
                     + vh::hex(ref.totals[i]));
                break;
              }
      }
  stir::set_num_threads(1);
}

// ================================================================================================================================
// scenario family `rethread`: the number of threads is changed (stir::set_num_threads) during the life of an object.
// An object that was set up and used with N threads and is then used with M threads must still give the single-thread result:
// accumulators of threads that no longer run must not contribute stale data; for more threads than the object was set up
// with, set_up() is called again (the call that sizes the per-thread buffers) before the object is used.
// ================================================================================================================================
static const int g_pairs[4][2] = { { 7, 2 }, { 2, 7 }, { 16, 1 }, { 4, 4 } };

static std::string
ints(const std::vector<int>& v)
{
  std::string s;
  for (int x : v)
    s += " " + std::to_string(x);
  return s;
}

// ---------------------------------------------------------------- rethread.project
// One forward and one back projector, used three times (N, M, N threads), every time on other data.  The per-thread images of the
// back projector are also followed in the executable model (`acc` operations: which slots exist, which threads filled one, which are
// summed by get_output).
static void
scenario_rethread_project(vh::Rng& rng, int N, int M)
{
  Problem p = make_problem(rng, false);
  Image& x = *p.image;
  fill_image(x, rng, false);
  const int thr[3] = { N, M, N };
  std::vector<shared_ptr<ProjDataInMemory>> y;
  for (int k = 0; k < 3; ++k)
    {
      y.push_back(shared_ptr<ProjDataInMemory>(new ProjDataInMemory(p.exam, p.pdi)));
      fill_data(*y[k], rng, -4, 4);
    }
  const std::string ctx = "rethread.project (" + std::to_string(N) + "->" + std::to_string(M) + "->" + std::to_string(N) + " threads)";
  // single-thread references from a fresh pair of projectors
  stir::set_num_threads(1);
  std::vector<shared_ptr<Image>> ref;
  ProjDataInMemory fwd_ref(p.exam, p.pdi);
  int n_items = 0;
  {
    shared_ptr<ProjMatrixByBinUsingRayTracing> pm = make_matrix(p, true);
    n_items = num_items_in_subset(p, *pm, 0, 1);
    ForwardProjectorByBinUsingProjMatrixByBin fp(pm);
    BackProjectorByBinUsingProjMatrixByBin bp(pm);
    fp.set_up(p.pdi, p.image);
    bp.set_up(p.pdi, p.image);
    for (int k = 0; k < 3; ++k)
      {
        ref.push_back(shared_ptr<Image>(x.get_empty_copy()));
        bp.back_project(*ref[k], *y[k]);
      }
    fp.forward_project(fwd_ref, x);
  }
  double fwd_max = 0;
  for (auto it = fwd_ref.begin_all(); it != fwd_ref.end_all(); ++it)
    fwd_max = std::max(fwd_max, std::fabs(static_cast<double>(*it)));
  // the live objects
  stir::set_num_threads(N);
  shared_ptr<ProjMatrixByBinUsingRayTracing> pm = make_matrix(p, true);
  ForwardProjectorByBinUsingProjMatrixByBin fp(pm);
  BackProjectorByBinUsingProjMatrixByBin bp(pm);
  start_trace(); // one trace for the whole life of the objects (the cache validator needs the whole history of the cache)
  fp.set_up(p.pdi, p.image);
  bp.set_up(p.pdi, p.image);
  std::vector<std::pair<std::string, std::string>> acc; // operations on the model of the per-thread images, with the implementation's answers
  acc.push_back(std::make_pair("acc new", "."));
  acc.push_back(std::make_pair("acc setup " + std::to_string(N), "."));
  int slots = N;
  for (int k = 0; k < 3; ++k)
    {
      const int T = thr[k];
      stir::set_num_threads(T);
      // more threads than per-thread images: set_up() again (required); otherwise only now and then (it would drop the images of the
      // threads that no longer run, which is exactly what must not be needed)
      const bool again = T > slots || (k > 0 && T != slots && rng.range(0, 3) == 0);
      if (again)
        {
          fp.set_up(p.pdi, p.image);
          bp.set_up(p.pdi, p.image);
          slots = T;
          acc.push_back(std::make_pair("acc setup " + std::to_string(T), "."));
        }
      mark_threads(T);
      const std::size_t from = g_log.size();
      shared_ptr<Image> bck(x.get_empty_copy());
      ProjDataInMemory fwd(p.exam, p.pdi);
      bp.back_project(*bck, *y[k]);
      fp.forward_project(fwd, x);
      const std::size_t to = g_log.size();
      {
        std::vector<int> workers, reduced;
        for (std::size_t i = from; i < to; ++i)
          if (g_log[i].site == "bp.work")
            workers.push_back(g_log[i].val);
          else if (g_log[i].site == "bp.reduce")
            reduced.push_back(g_log[i].val);
        acc.push_back(std::make_pair("acc pass" + ints(workers), "."));
        acc.push_back(std::make_pair("acc output", "slots" + ints(reduced)));
      }
      const std::string phase = ctx + ", use " + std::to_string(k + 1) + " with " + std::to_string(T) + " threads" + (again ? " after a new set_up" : "");
      std::string why;
      ++oracle_checks;
      if (!images_close(*bck, *ref[k], 2e-5, why))
        fail(phase + ": back projection differs from the single-thread result of fresh projectors beyond reassociation: " + why);
      ++oracle_checks;
      auto ip = fwd.begin_all();
      for (auto it = fwd_ref.begin_all(); it != fwd_ref.end_all(); ++it, ++ip)
        if (!(std::fabs(static_cast<double>(*it) - *ip) <= 1e-5 * fwd_max))
          {
            fail(phase + ": forward projection differs from the single-thread result (" + vh::hex(*ip) + " vs " + vh::hex(*it) + ")");
            break;
          }
    }
  emit_trace("rethread.project", n_items, n_items, 0);
  for (auto& a : acc)
    op(a.first, a.second);
  stir::set_num_threads(1);
}

// ---------------------------------------------------------------- rethread.loglik
// One objective function (one matrix, one projector pair), asked for everything three times (N, M, N threads), every time at another image.
static void
scenario_rethread_loglik(vh::Rng& rng, int N, int M)
{
  Problem p = make_problem(rng, false);
  const int thr[3] = { N, M, N };
  std::vector<LLConfig> cs(3);
  shared_ptr<Image> dir(p.image->get_empty_copy());
  fill_image(*dir, rng, true);
  for (int k = 0; k < 3; ++k)
    {
      cs[k].x.reset(p.image->clone());
      fill_image(*cs[k].x, rng, true);
      cs[k].dir = dir;
    }
  shared_ptr<ProjData> y(new ProjDataInMemory(p.exam, p.pdi));
  fill_data(*y, rng, 0, 6);
  shared_ptr<ProjData> add, norm;
  if (rng.range(0, 2) != 0)
    {
      add.reset(new ProjDataInMemory(p.exam, p.pdi));
      fill_data(*add, rng, 1, 3);
    }
  if (rng.coin())
    {
      norm.reset(new ProjDataInMemory(p.exam, p.pdi));
      fill_data(*norm, rng, 1, 3);
    }
  const bool zero_ends = rng.range(0, 3) == 0;
  int nsub = rng.range(1, 3);
  for (int k = 0; k < 3; ++k)
    {
      cs[k].zero_ends = zero_ends;
      cs[k].nsub = nsub;
    }
  const std::string scen = "rethread.loglik";
  const std::string ctx = scen + " (" + std::to_string(N) + "->" + std::to_string(M) + "->" + std::to_string(N) + " threads)";
  std::vector<LLResult> refs(3);
  refs[0] = run_ll(p, cs[0], y, add, norm, 1, false, scen);
  if (!refs[0].ok && nsub != 1)
    {
      nsub = 1;
      for (int k = 0; k < 3; ++k)
        cs[k].nsub = 1;
      refs[0] = run_ll(p, cs[0], y, add, norm, 1, false, scen);
    }
  ++oracle_checks;
  if (!refs[0].ok)
    {
      fail(scen + ": single-thread reference run failed: " + refs[0].error);
      return;
    }
  for (int k = 1; k < 3; ++k)
    refs[k] = run_ll(p, cs[k], y, add, norm, 1, false, scen);
  // the live object
  stir::set_num_threads(N);
  std::vector<LLResult> par(3);
  int k_now = 0;
  try
    {
      shared_ptr<ProjMatrixByBinUsingRayTracing> pm = make_matrix(p, true);
      shared_ptr<ProjectorByBinPair> pair(new ProjectorByBinPairUsingProjMatrixByBin(pm));
      LLObj obj;
      obj.set_proj_data_sptr(y);
      obj.set_projector_pair_sptr(pair);
      if (add)
        obj.set_additive_proj_data_sptr(add);
      if (norm)
        obj.set_normalisation_sptr(shared_ptr<BinNormalisation>(new BinNormalisationFromProjData(norm)));
      obj.set_zero_seg0_end_planes(zero_ends);
      obj.set_num_subsets(nsub);
      obj.set_recompute_sensitivity(true);
      obj.set_use_subset_sensitivities(true);
      start_trace();
      mark_threads(N);
      shared_ptr<Image> target(p.image->clone());
      if (obj.set_up(target) != Succeeded::yes)
        throw std::runtime_error("set_up failed");
      int slots = N;
      for (int k = 0; k < 3; ++k)
        {
          k_now = k;
          const int T = thr[k];
          stir::set_num_threads(T);
          mark_threads(T);
          const bool again = T > slots || (k > 0 && T != slots && rng.range(0, 3) == 0);
          if (again)
            {
              if (obj.set_up(target) != Succeeded::yes)
                throw std::runtime_error("second set_up failed");
              slots = T;
            }
          ask_everything(obj, p, *pm, cs[k], par[k], []() {}, [](const std::string&, int) {});
          par[k].ok = par[k].error.empty();
        }
      emit_trace(scen, 0, 0, 0);
    }
  catch (std::exception& e)
    {
      g_logging = false;
      par[k_now].ok = false;
      par[k_now].error = std::string("exception: ") + e.what();
    }
  for (int k = 0; k < 3; ++k)
    compare_ll(ctx + ", use " + std::to_string(k + 1), thr[k], refs[k], par[k]);
  stir::set_num_threads(1);
}

// ---------------------------------------------------------------- scatter.history (setter histories under threads, thread-count changes)
// ONE simulation object: process_data with T1 threads, a setter is called again (kind), set_up, process_data with T2 threads.
// With threads the detectors are numbered in the order in which the threads meet them, so a cache that survives a setter which
// restarts the numbering is wrong only in multi-threaded runs.  Compared (bitwise) with fresh single-thread objects, and the same
// history is also run with one thread.
//   kind 0: nothing in between (the thread count only)          kind 1: set_template_proj_data_info with the same template
//   kind 2: the same activity / attenuation / scatter-point images (equal copies) set again
//   kind 3: another scatter-point image with the same number of scatter points elsewhere
//   kind 4: set_exam_info with the same energy window           kind 5: set_use_cache(!cache), set_use_cache(cache)
static const int n_scatter_history_kinds = 6;

static void
scenario_scatter_history(vh::Rng& rng, int T1, int T2, int kind, bool tiny = false)
{
  const ScatterCfg cfg = make_scatter_cfg(rng, tiny);
  // another placement of the same scatter-point values
  shared_ptr<Vox> sp2(new Vox(*cfg.sp));
  {
    std::vector<float> v(sp2->begin_all(), sp2->end_all());
    bool changed = false;
    for (int attempt = 0; attempt < 20 && !changed; ++attempt)
      {
        for (std::size_t i = v.size(); i > 1; --i)
          std::swap(v[i - 1], v[rng.range(0, static_cast<int>(i) - 1)]);
        changed = !std::equal(v.begin(), v.end(), cfg.sp->begin_all());
      }
    std::copy(v.begin(), v.end(), sp2->begin_all());
  }
  const bool cache = rng.range(0, kind == 1 ? 7 : 4) != 0;
  struct Out
  {
    bool ok = false;
    std::string error;
    std::vector<float> bins[2];
    std::vector<double> totals[2];
  };
  auto configure = [&](ScatterSim& s, const shared_ptr<Vox>& sp) {
    s.set_randomly_place_scatter_points(false);
    s.set_attenuation_threshold(0.01F);
    s.set_use_cache(cache);
    s.set_template_proj_data_info(*cfg.pdi);
    s.set_exam_info(*cfg.exam);
    s.set_activity_image_sptr(cfg.act);
    s.set_density_image_sptr(cfg.att);
    s.set_density_image_for_scatter_points_sptr(sp);
  };
  auto process = [&](ScatterSim& s, std::vector<float>& bins, std::vector<double>& totals) {
    shared_ptr<ProjDataInMemory> o(new ProjDataInMemory(s.get_exam_info_sptr(), s.get_template_proj_data_info_sptr()->create_shared_clone()));
    s.set_output_proj_data_sptr(o);
    s.totals.clear();
    if (s.process_data() != Succeeded::yes)
      throw std::runtime_error("process_data did not succeed");
    bins.assign(o->begin_all(), o->end_all());
    totals = s.totals;
  };
  // with == false: a fresh object with the final configuration, used once (result in slot 1)
  auto run = [&](int ta, int tb, bool with_history, bool trace) {
    Out o;
    try
      {
        ScatterSim s;
        if (!with_history)
          {
            stir::set_num_threads(tb);
            configure(s, kind == 3 ? sp2 : cfg.sp);
            if (s.set_up() != Succeeded::yes)
              throw std::runtime_error("set_up failed");
            process(s, o.bins[1], o.totals[1]);
            o.ok = true;
            return o;
          }
        stir::set_num_threads(ta);
        configure(s, cfg.sp);
        if (trace)
          {
            g_sc_reads = 0;
            g_sc_hits = 0;
            start_trace();
            mark_threads(ta);
          }
        if (s.set_up() != Succeeded::yes)
          throw std::runtime_error("set_up failed");
        process(s, o.bins[0], o.totals[0]);
        switch (kind)
          {
          case 1:
            s.set_template_proj_data_info(*cfg.pdi);
            break;
          case 2:
            s.set_activity_image_sptr(shared_ptr<Vox>(new Vox(*cfg.act)));
            s.set_density_image_sptr(shared_ptr<Vox>(new Vox(*cfg.att)));
            s.set_density_image_for_scatter_points_sptr(shared_ptr<Vox>(new Vox(*cfg.sp)));
            break;
          case 3:
            s.set_density_image_for_scatter_points_sptr(sp2);
            break;
          case 4:
            s.set_exam_info(*cfg.exam);
            break;
          case 5:
            s.set_use_cache(!cache);
            s.set_use_cache(cache);
            break;
          default:
            break;
          }
        stir::set_num_threads(tb);
        if (trace)
          mark_threads(tb);
        // (kind 5 without set_up reads a cache that was never allocated, single-threaded as well: finding of C16, not repeated here)
        if (kind != 0)
          if (s.set_up() != Succeeded::yes)
            throw std::runtime_error("second set_up failed");
        process(s, o.bins[1], o.totals[1]);
        if (trace)
          {
            g_logging = false;
            g_log.push_back(Event{ 0, cache ? "sc.act.reads" : "sc.nocache", g_sc_reads.load(), static_cast<int>(g_sc_hits.load()) });
            // (set_template_proj_data_info replaces the ProjDataInfo object, possibly at the same address)
            g_drop_table_events = true;
            emit_trace("scatter.history", 0, 0, 0);
            g_drop_table_events = false;
          }
        o.ok = true;
      }
    catch (std::exception& e)
      {
        g_logging = false;
        o.error = std::string("exception: ") + e.what();
      }
    catch (...)
      {
        g_logging = false;
        o.error = "exception";
      }
    return o;
  };
  const std::string ctx = "scatter.history kind " + std::to_string(kind) + (cache ? ", cache enabled" : ", cache disabled") + ", threads " + std::to_string(T1)
                          + " then " + std::to_string(T2);
  Out first = run(1, 1, false, false); // final configuration when kind == 3
  Out ref0;                            // the first configuration
  if (kind == 3)
    {
      // (a fresh single-thread object with the first configuration)
      ScatterSim s;
      stir::set_num_threads(1);
      try
        {
          configure(s, cfg.sp);
          if (s.set_up() != Succeeded::yes)
            throw std::runtime_error("set_up failed");
          process(s, ref0.bins[1], ref0.totals[1]);
          ref0.ok = true;
        }
      catch (std::exception& e)
        {
          ref0.error = e.what();
        }
    }
  else
    ref0 = first;
  ++oracle_checks;
  if (!first.ok || !ref0.ok)
    {
      fail(ctx + ": single-thread reference run failed: " + first.error + ref0.error);
      stir::set_num_threads(1);
      return;
    }
  auto compare = [&](const Out& o, const std::string& who) {
    ++oracle_checks;
    if (!o.ok)
      {
        fail(ctx + ": " + who + ": " + o.error + " where fresh single-thread objects succeeded");
        return;
      }
    for (int run_no = 0; run_no < 2; ++run_no)
      {
        const Out& r = run_no == 0 ? ref0 : first;
        const std::string which = who + ", process_data " + std::to_string(run_no + 1);
        ++oracle_checks;
        if (o.bins[run_no].size() != r.bins[1].size())
          fail(ctx + ": " + which + ": output size differs");
        else
          for (std::size_t i = 0; i < r.bins[1].size(); ++i)
            if (!(o.bins[run_no][i] == r.bins[1][i]))
              {
                fail(ctx + ": " + which + ": bin " + std::to_string(i) + " = " + vh::hex(o.bins[run_no][i]) + " vs " + vh::hex(r.bins[1][i])
                     + " from a fresh single-thread object");
                break;
              }
        ++oracle_checks;
        if (o.totals[run_no].size() != r.totals[1].size())
          fail(ctx + ": " + which + ": number of viewgrams processed differs");
        else
          for (std::size_t i = 0; i < r.totals[1].size(); ++i)
            if (!(std::fabs(o.totals[run_no][i] - r.totals[1][i]) <= 1e-12 * std::fabs(r.totals[1][i])))
              {
                fail(ctx + ": " + which + ": total scatter of viewgram " + std::to_string(i) + " = " + vh::hex(o.totals[run_no][i]) + " vs "
                     + vh::hex(r.totals[1][i]));
                break;
              }
      }
  };
  compare(run(1, 1, true, false), "the same history with one thread");
  compare(run(T1, T2, true, true), "the history with threads");
  stir::set_num_threads(1);
}

// ================================================================================================================================
// scenario family `listmode`: PoissonLogLikelihoodWithLinearModelForMeanAndListModeDataWithProjMatrixByBin on synthetic list-mode data
// held in memory (LM_distributable_computation: per-thread images, per-thread rows, reduction), with and without cache files.
// (The synthetic list-mode classes are those of harness/c14_lm_histogram.cxx, without the raw-bin events.)
// ================================================================================================================================
namespace lm
{
struct Rec
{
  bool is_time = false;
  unsigned long ms = 0;
  bool prompt = true;
  int d1 = 0, r1 = 0, d2 = 1, r2 = 0, tp = 0;
};

struct SynEvent : public CListEventCylindricalScannerWithDiscreteDetectors
{
  typedef CListEventCylindricalScannerWithDiscreteDetectors base;
  explicit SynEvent(const shared_ptr<const ProjDataInfo>& pdi)
      : base(pdi)
  {}
  bool prompt = true;
  DetectionPositionPair<> dp;
  bool is_prompt() const override { return prompt; }
  void get_detection_position(DetectionPositionPair<>& d) const override { d = dp; }
  void set_detection_position(const DetectionPositionPair<>& d) override { dp = d; }
};

struct SynTime : public ListTime
{
  unsigned long ms = 0;
  unsigned long get_time_in_millisecs() const override { return ms; }
  Succeeded set_time_in_millisecs(const unsigned long t) override
  {
    ms = t;
    return Succeeded::yes;
  }
};

struct SynRecord : public CListRecord
{
  explicit SynRecord(const shared_ptr<const ProjDataInfo>& pdi)
      : e(pdi)
  {}
  bool istime = false;
  SynTime t;
  SynEvent e;
  bool is_time() const override { return istime; }
  bool is_event() const override { return !istime; }
  ListEvent& event() override { return e; }
  const ListEvent& event() const override { return e; }
  ListTime& time() override { return t; }
  const ListTime& time() const override { return t; }
  void load(const Rec& r)
  {
    istime = r.is_time;
    if (r.is_time)
      t.ms = r.ms;
    else
      {
        e.prompt = r.prompt;
        e.dp = DetectionPositionPair<>(DetectionPosition<>(r.d1, r.r1, 0), DetectionPosition<>(r.d2, r.r2, 0), r.tp);
      }
  }
};

struct SynLM : public ListModeData
{
  std::vector<Rec> recs;
  mutable std::size_t pos = 0;
  std::vector<std::size_t> saved;
  SynLM(const shared_ptr<const ProjDataInfo>& pdi, const std::vector<Rec>& r)
      : recs(r)
  {
    shared_ptr<ExamInfo> ei(new ExamInfo);
    ei->imaging_modality = ImagingModality::PT;
    this->exam_info_sptr = ei;
    this->set_proj_data_info_sptr(pdi);
  }
  std::string get_name() const override { return "verif-synthetic-listmode"; }
  Succeeded reset() override
  {
    pos = 0;
    return Succeeded::yes;
  }
  SavedPosition save_get_position() override
  {
    saved.push_back(pos);
    return static_cast<SavedPosition>(saved.size() - 1);
  }
  Succeeded set_get_position(const SavedPosition& p) override
  {
    if (p >= saved.size())
      return Succeeded::no;
    pos = saved[p];
    return Succeeded::yes;
  }
  bool has_delayeds() const override { return true; }

protected:
  shared_ptr<ListRecord> get_empty_record_helper_sptr() const override
  {
    return shared_ptr<ListRecord>(new SynRecord(this->get_proj_data_info_sptr()));
  }
  Succeeded get_next(ListRecord& r) const override
  {
    if (pos >= recs.size())
      return Succeeded::no;
    static_cast<SynRecord&>(r).load(recs[pos++]);
    return Succeeded::yes;
  }
};

typedef PoissonLogLikelihoodWithLinearModelForMeanAndListModeDataWithProjMatrixByBin<Image> LMBase;

// the file-reading part of post_processing() switched off, so that the keys without a setter can be given through the object's own keymap
struct LMObj : public LMBase
{
  bool post_processing() override { return false; }
  bool set_keys(int frame_num, long num_events_to_use)
  {
    std::ostringstream par;
    par << "PoissonLogLikelihoodWithLinearModelForMeanAndListModeDataWithProjMatrixByBin Parameters:=\n";
    par << "time frame number := " << frame_num << "\n";
    par << "num_events_to_use := " << num_events_to_use << "\n";
    par << "End PoissonLogLikelihoodWithLinearModelForMeanAndListModeDataWithProjMatrixByBin Parameters:=\n";
    std::istringstream in(par.str());
    return this->parse(in);
  }
};
} // namespace lm

static std::string g_lm_dir;

static void
clean_lm_dir()
{
  if (DIR* d = opendir(g_lm_dir.c_str()))
    {
      while (dirent* e = readdir(d))
        {
          const std::string n = e->d_name;
          if (n != "." && n != "..")
            unlink((g_lm_dir + "/" + n).c_str());
        }
      closedir(d);
    }
}

// thr: the thread counts of the successive uses of ONE objective function ({T}: plain comparison; {N, M, N}: rethread).
static void
scenario_listmode(vh::Rng& rng, const std::vector<int>& thr, bool tiny)
{
  Problem p = make_problem(rng, tiny);
  const int N = p.pdi->get_scanner_ptr()->get_num_detectors_per_ring(), R = p.pdi->get_scanner_ptr()->get_num_rings();
  const int tp_half = p.tof ? 2 : 0;
  // events
  std::vector<lm::Rec> recs;
  const int n_ev = tiny ? rng.range(3, 8) : rng.range(150, 400);
  long now = 0;
  {
    lm::Rec t;
    t.is_time = true;
    t.ms = 0;
    recs.push_back(t);
  }
  for (int i = 0; i < n_ev; ++i)
    {
      if (rng.range(0, 19) == 0)
        {
          lm::Rec t;
          t.is_time = true;
          now += rng.range(1, 50);
          t.ms = static_cast<unsigned long>(now);
          recs.push_back(t);
        }
      lm::Rec r;
      r.prompt = rng.range(0, 5) != 0;
      r.d1 = rng.range(0, N - 1);
      do
        r.d2 = rng.range(0, N - 1);
      while (r.d2 == r.d1);
      r.r1 = rng.range(0, R - 1);
      r.r2 = rng.range(0, R - 1);
      r.tp = rng.range(-tp_half, tp_half);
      recs.push_back(r);
    }
  const std::size_t uses = thr.size();
  std::vector<shared_ptr<Image>> xs;
  for (std::size_t k = 0; k < uses; ++k)
    {
      xs.push_back(shared_ptr<Image>(p.image->clone()));
      fill_image(*xs[k], rng, true);
    }
  shared_ptr<Image> dir(p.image->get_empty_copy());
  fill_image(*dir, rng, true);
  shared_ptr<ProjData> add, norm;
  if (rng.range(0, 2) != 0)
    {
      add.reset(new ProjDataInMemory(p.exam, p.pdi));
      fill_data(*add, rng, 1, 3);
    }
  if (rng.coin())
    {
      norm.reset(new ProjDataInMemory(p.exam, p.pdi->is_tof_data() ? p.pdi->create_non_tof_clone() : p.pdi->create_shared_clone()));
      fill_data(*norm, rng, 1, 3);
    }
  const int nsub = tiny ? 1 : rng.range(1, 3);
  // cache files: none / several batches / one batch
  const int ck = rng.range(0, 2);
  const unsigned long cache = ck == 0 ? 0UL : ck == 1 ? static_cast<unsigned long>(std::max(1, n_ev / rng.range(2, 5))) : static_cast<unsigned long>(n_ev + 10);
  std::string ctx = "listmode (threads";
  for (int t : thr)
    ctx += " " + std::to_string(t);
  ctx += std::string("; ") + (cache == 0 ? "no cache files" : "cache files of " + std::to_string(cache) + " events") + ", " + std::to_string(n_ev) + " events, "
         + std::to_string(nsub) + " subsets)";

  struct Res
  {
    bool ok = false;
    std::string error;
    std::vector<std::string> names;
    std::vector<shared_ptr<Image>> images;
    std::vector<double> scales;
    std::vector<double> values;
  };
  auto configure = [&](lm::LMObj& obj) {
    obj.set_input_data(shared_ptr<lm::SynLM>(new lm::SynLM(p.pdi, recs)));
    shared_ptr<ProjMatrixByBinUsingRayTracing> pm(new ProjMatrixByBinUsingRayTracing);
    pm->set_do_symmetry_90degrees_min_phi(p.flags & 1);
    pm->set_do_symmetry_180degrees_min_phi(p.flags & 2);
    pm->set_do_symmetry_swap_segment(p.flags & 4);
    pm->set_num_tangential_LORs(1 + (p.flags & 1));
    pm->enable_cache(true);
    obj.set_proj_matrix(pm);
    if (add)
      obj.set_additive_proj_data_sptr(add);
    if (norm)
      obj.set_normalisation_sptr(shared_ptr<BinNormalisation>(new BinNormalisationFromProjData(norm)));
    obj.set_use_subset_sensitivities(true);
    obj.set_num_subsets(nsub);
    obj.set_skip_balanced_subsets(true);
    obj.frame_defs = TimeFrameDefinitions();
    if (!obj.set_keys(1, 0))
      throw std::runtime_error("parse");
    obj.set_cache_path(g_lm_dir);
    obj.set_cache_max_size(cache);
    obj.set_recompute_cache(true);
  };
  auto ask = [&](lm::LMObj& obj, const Image& x, Res& r) {
    for (int s = 0; s < nsub; ++s)
      {
        const std::string tag = "[subset " + std::to_string(s) + "/" + std::to_string(nsub) + "]";
        auto add_image = [&](const std::string& name, shared_ptr<Image> im, double scale) {
          r.names.push_back(name + tag);
          r.images.push_back(im);
          r.scales.push_back(scale);
        };
        r.values.push_back(obj.compute_objective_function_without_penalty(x, s));
        shared_ptr<Image> sens(x.get_empty_copy());
        // (public in the base class)
        static_cast<PoissonLogLikelihoodWithLinearModelForMean<Image>&>(obj).add_subset_sensitivity(*sens, s);
        add_image("add_subset_sensitivity", sens, 0);
        add_image("subset sensitivity computed by set_up", shared_ptr<Image>(obj.get_subset_sensitivity(s).clone()), 0);
        shared_ptr<Image> gps(x.get_empty_copy());
        obj.compute_sub_gradient_without_penalty_plus_sensitivity(*gps, x, s);
        add_image("list-mode sub-gradient plus sensitivity", gps, 0);
        shared_ptr<Image> grad(x.get_empty_copy());
        obj.compute_sub_gradient_without_penalty(*grad, x, s);
        add_image("list-mode sub-gradient", grad, max_abs(*gps) + max_abs(*sens));
        shared_ptr<Image> hess(x.get_empty_copy());
        if (obj.accumulate_sub_Hessian_times_input_without_penalty(*hess, x, *dir, s) != Succeeded::yes)
          r.error = "accumulate_sub_Hessian_times_input failed";
        add_image("list-mode accumulate_sub_Hessian_times_input", hess, 0);
      }
    r.ok = r.error.empty();
  };
  std::vector<Res> refs(uses), par(uses);
  // references: a fresh objective function per use, one thread
  stir::set_num_threads(1);
  for (std::size_t k = 0; k < uses; ++k)
    {
      try
        {
          lm::LMObj obj;
          configure(obj);
          shared_ptr<Image> target(p.image->clone());
          if (obj.set_up(target) != Succeeded::yes)
            throw std::runtime_error("set_up failed");
          ask(obj, *xs[k], refs[k]);
        }
      catch (std::exception& e)
        {
          refs[k].ok = false;
          refs[k].error = std::string("exception: ") + e.what();
        }
      clean_lm_dir();
    }
  ++oracle_checks;
  for (std::size_t k = 0; k < uses; ++k)
    if (!refs[k].ok)
      {
        fail(ctx + ": single-thread reference run failed: " + refs[k].error);
        return;
      }
  // the live object
  std::size_t k_now = 0;
  try
    {
      stir::set_num_threads(thr[0]);
      lm::LMObj obj;
      configure(obj);
      start_trace();
      mark_threads(thr[0]);
      shared_ptr<Image> target(p.image->clone());
      if (obj.set_up(target) != Succeeded::yes)
        throw std::runtime_error("set_up failed");
      int slots = thr[0];
      for (std::size_t k = 0; k < uses; ++k)
        {
          k_now = k;
          const int T = thr[k];
          stir::set_num_threads(T);
          mark_threads(T);
          const bool again = T > slots || (k > 0 && T != slots && rng.range(0, 3) == 0);
          if (again)
            {
              if (obj.set_up(target) != Succeeded::yes)
                throw std::runtime_error("second set_up failed");
              slots = T;
            }
          ask(obj, *xs[k], par[k]);
        }
      g_drop_table_events = true;
      g_drop_cache_events = p.tof;
      emit_trace(uses == 1 ? "listmode" : "rethread.listmode", 0, 0, 0);
      g_drop_table_events = false;
      g_drop_cache_events = false;
    }
  catch (std::exception& e)
    {
      g_logging = false;
      par[k_now].ok = false;
      par[k_now].error = std::string("exception: ") + e.what();
    }
  clean_lm_dir();
  stir::set_num_threads(1);
  for (std::size_t k = 0; k < uses; ++k)
    {
      const std::string who = ctx + ", use " + std::to_string(k + 1) + " with " + std::to_string(thr[k]) + " threads";
      ++oracle_checks;
      if (!par[k].ok)
        {
          fail(who + ": the list-mode objective function failed (" + par[k].error + ") where the single-thread run succeeded");
          continue;
        }
      for (std::size_t i = 0; i < refs[k].values.size(); ++i)
        {
          ++oracle_checks;
          // - sum over the events of log(estimated mean) - sensitivity . image in double precision: a lost or duplicated event changes it by |log| ~ 1
          if (!(std::fabs(refs[k].values[i] - par[k].values[i]) <= 1e-7 * std::fabs(refs[k].values[i]) + 1e-6))
            fail(who + ": value of subset " + std::to_string(i) + " " + vh::hex(par[k].values[i]) + " vs single-thread " + vh::hex(refs[k].values[i]));
        }
      for (std::size_t i = 0; i < refs[k].images.size(); ++i)
        {
          ++oracle_checks;
          const double mx = std::max(max_abs(*refs[k].images[i]), refs[k].scales[i]);
          auto ia = par[k].images[i]->begin_all_const();
          for (auto ib = refs[k].images[i]->begin_all_const(); ib != refs[k].images[i]->end_all_const(); ++ib, ++ia)
            if (!(std::fabs(static_cast<double>(*ia) - *ib) <= 5e-5 * mx + 1e-30))
              {
                fail(who + ": " + refs[k].names[i] + " differs from the single-thread result beyond reassociation: " + vh::hex(*ia) + " vs " + vh::hex(*ib)
                     + " (scale " + vh::hex(mx) + ")");
                break;
              }
        }
    }
}

// ================================================================================================================================
// clear_cache() of the system matrix while other threads use the cache.  Run in a child process (the harness started again with
// `child-clearcache`): a crash or a hang of the library there is reported by the parent as a verdict instead of ending the whole run.
// ================================================================================================================================
static int
child_clear_cache(uint64_t seed, int T)
{
  alarm(100);
  vh::Rng rng(seed);
  Problem p = make_problem(rng, false);
  shared_ptr<ProjMatrixByBinUsingRayTracing> ref = make_matrix(p, false);
  shared_ptr<ProjMatrixByBinUsingRayTracing> par = make_matrix(p, true);
  if (rng.coin())
    par->store_only_basic_bins_in_cache(rng.coin());
  std::vector<Bin> bins;
  for (int s = p.pdi->get_min_segment_num(); s <= p.pdi->get_max_segment_num(); ++s)
    for (int a = p.pdi->get_min_axial_pos_num(s); a <= p.pdi->get_max_axial_pos_num(s); ++a)
      for (int v = 0; v < p.pdi->get_num_views(); ++v)
        for (int tp = -2; tp <= 2; ++tp)
          bins.push_back(Bin(s, v, a, tp, p.tof ? rng.range(p.pdi->get_min_tof_pos_num(), p.pdi->get_max_tof_pos_num()) : 0));
  std::vector<Bin> work;
  for (int rep = 0; rep < 6; ++rep)
    work.insert(work.end(), bins.begin(), bins.end());
  for (std::size_t i = work.size(); i > 1; --i)
    std::swap(work[i - 1], work[rng.range(0, static_cast<int>(i) - 1)]);
  if (work.size() > 3000)
    work.resize(3000);
  std::vector<char> clear_here(work.size(), 0);
  for (auto& c : clear_here)
    c = rng.range(0, 19) == 0;
  std::vector<ProjMatrixElemsForOneBin> refrows(work.size());
  stir::set_num_threads(1);
  for (std::size_t i = 0; i < work.size(); ++i)
    {
      ref->get_proj_matrix_elems_for_one_bin(refrows[i], work[i]);
      refrows[i].sort();
    }
  stir::set_num_threads(T);
  g_seed = seed;
  g_perturb_only = true;
  std::atomic<int> bad(0);
#pragma omp parallel for schedule(dynamic)
  for (int i = 0; i < static_cast<int>(work.size()); ++i)
    {
      if (clear_here[i])
        par->clear_cache();
      ProjMatrixElemsForOneBin row;
      par->get_proj_matrix_elems_for_one_bin(row, work[i]);
      row.sort();
      bool same = row.size() == refrows[i].size();
      if (same)
        {
          auto a = refrows[i].begin();
          for (auto b = row.begin(); b != row.end(); ++b, ++a)
            if (a->get_coords() != b->get_coords() || std::fabs(a->get_value() - b->get_value()) > 1e-4F * std::fabs(a->get_value()) + 1e-7F)
              same = false;
        }
      if (!same)
        ++bad;
    }
  return bad ? 3 : 0;
}

static std::string g_self;

static void
scenario_clear_cache(vh::Rng& rng, int T, const char* seed_text, const char* tier)
{
  const std::string sub = std::to_string(rng.next() % 1000000007ULL), threads = std::to_string(T);
  const char* av[] = { g_self.c_str(), seed_text, tier, "-", "-", "child-clearcache", threads.c_str(), sub.c_str(), nullptr };
  pid_t pid = 0;
  ++oracle_checks;
  if (posix_spawn(&pid, g_self.c_str(), nullptr, nullptr, const_cast<char* const*>(av), environ) != 0)
    {
      fail("clear_cache: the child process could not be started");
      return;
    }
  int status = 0;
  waitpid(pid, &status, 0);
  const std::string ctx = "ProjMatrixByBin::clear_cache() called by some of " + threads + " threads while they all read rows through the cache of one matrix: ";
  // one class of input (stable key), whatever the symptom
  std::string symptom;
  if (WIFSIGNALED(status))
    symptom = WTERMSIG(status) == SIGALRM ? "no result after 100 s (threads hang)" : "the process died with signal " + std::to_string(WTERMSIG(status));
  else if (WIFEXITED(status) && WEXITSTATUS(status) == 3)
    symptom = "a row differs from the directly computed row";
  else if (!(WIFEXITED(status) && WEXITSTATUS(status) == 0))
    symptom = "the process ended with status " + std::to_string(status);
  if (!symptom.empty())
    {
      ++oracle_fails;
      std::fprintf(orc, "KNOWN-CANDIDATE clear_cache:concurrent-with-readers %s%s (child: seed %s)\n", ctx.c_str(), symptom.c_str(), sub.c_str());
    }
}

// ================================================================================================================================
// the default number of threads (num_threads.cxx): get_default_num_threads / set_num_threads() / set_default_num_threads with and
// without OMP_NUM_THREADS, answered by the executable model as well; must run before anything else calls set_num_threads
// (the function keeps a static `already set once`).
// ================================================================================================================================
static void
scenario_default_threads(vh::Rng& rng)
{
  const int nprocs = omp_get_num_procs();
  const std::string np = std::to_string(nprocs);
  auto check_parallel = [&](const std::string& what, int expected) {
    int seen = 0;
#pragma omp parallel
    {
#pragma omp single
      seen = omp_get_num_threads();
    }
    ++oracle_checks;
    if (seen != expected || stir::get_max_num_threads() != expected)
      fail("default_threads: " + what + ": a parallel region runs " + std::to_string(seen) + " threads and get_max_num_threads() = "
           + std::to_string(stir::get_max_num_threads()) + ", expected " + std::to_string(expected));
  };
  // without OMP_NUM_THREADS
  unsetenv("OMP_NUM_THREADS");
  op("nt default " + np + " none", std::to_string(stir::get_default_num_threads()));
  // with OMP_NUM_THREADS
  const int e1 = rng.range(2, 9);
  setenv("OMP_NUM_THREADS", std::to_string(e1).c_str(), 1);
  op("nt default " + np + " " + std::to_string(e1), std::to_string(stir::get_default_num_threads()));
  // the first set_num_threads() of the process takes the default
  stir::set_num_threads();
  op("nt set 0 " + np + " " + std::to_string(e1), "max " + std::to_string(stir::get_max_num_threads()));
  check_parallel("first set_num_threads() with OMP_NUM_THREADS=" + std::to_string(e1), e1);
  // a whole computation under the default number of threads
  scenario_project(rng, e1, false);
  // later calls without argument keep what was set
  const int e2 = rng.range(2, 9);
  stir::set_num_threads(e2);
  op("nt set " + std::to_string(e2) + " " + np + " " + std::to_string(e1), "max " + std::to_string(stir::get_max_num_threads()));
  stir::set_num_threads();
  op("nt set 0 " + np + " " + std::to_string(e1), "max " + std::to_string(stir::get_max_num_threads()));
  check_parallel("set_num_threads() after set_num_threads(" + std::to_string(e2) + ")", e2);
  // set_default_num_threads goes back to the default, whatever was set (here: more threads than processors)
  const int e3 = nprocs + rng.range(1, 4);
  setenv("OMP_NUM_THREADS", std::to_string(e3).c_str(), 1);
  stir::set_default_num_threads();
  op("nt setdefault " + np + " " + std::to_string(e3), "max " + std::to_string(stir::get_max_num_threads()));
  check_parallel("set_default_num_threads() with OMP_NUM_THREADS=" + std::to_string(e3), e3);
  unsetenv("OMP_NUM_THREADS");
  stir::set_default_num_threads();
  op("nt setdefault " + np + " none", "max " + std::to_string(stir::get_max_num_threads()));
  check_parallel("set_default_num_threads() without OMP_NUM_THREADS", stir::get_default_num_threads());
  stir::set_num_threads(1);
  op("nt set 1 " + np + " none", "max " + std::to_string(stir::get_max_num_threads()));
}

int
main(int argc, char** argv)
{
  if (argc < 5)
    return 2;
  vh::quiet();
  omp_set_dynamic(0);
  g_self = argv[0];
  if (argc > 7 && std::string(argv[5]) == "child-clearcache")
    return child_clear_cache(std::strtoull(argv[7], nullptr, 10), std::atoi(argv[6]));
  g_seed = std::strtoull(argv[1], nullptr, 10);
  vh::Rng rng(g_seed * 48271ULL + 18);
  const bool thorough = std::string(argv[2]) == "thorough";
  ops = std::fopen(argv[3], "w");
  out = std::fopen(argv[4], "w");
  orc = std::fopen((std::string(argv[4]) + ".oracle").c_str(), "w");
  {
    const std::string opsname(argv[3]);
    const std::size_t slash = opsname.find_last_of('/');
    g_dir = (slash == std::string::npos ? std::string(".") : opsname.substr(0, slash)) + "/c18_files_" + argv[2];
    mkdir(g_dir.c_str(), 0777);
    wipe_dir();
    g_lm_dir = g_dir + "/lm";
    mkdir(g_lm_dir.c_str(), 0777);
    clean_lm_dir();
  }
  const std::vector<int> threads = thorough ? std::vector<int>{ 2, 3, 4, 5, 8, 11, 16 } : std::vector<int>{ 2, 4, 7 };
  const int reps = thorough ? 12 : 3;
  // development aid: an optional 5th argument restricts the run to one scenario (the check never passes it)
  const std::string only = argc > 5 ? argv[5] : "";
  auto want = [&](const char* name) { return only.empty() || only == name; };
  const bool timing = getenv("C18_TIMING") != nullptr; // development aid: wall time of every guarded scenario to stderr
  auto guarded = [&](const std::string& what, const std::function<void()>& f) {
    const double t0 = omp_get_wtime();
    try
      {
        f();
        if (timing)
          std::fprintf(stderr, "[time] %-45s %.2f s\n", what.c_str(), omp_get_wtime() - t0);
      }
    catch (std::exception& e)
      {
        fail("exception in " + what + ": " + e.what());
        g_logging = false;
      }
  };
  // the default number of threads: before the first set_num_threads of the process
  if (want("default_threads"))
    guarded("default_threads", [&]() { scenario_default_threads(rng); });
  // the new families use a generator of their own, so that the scenarios below see the same inputs as before they were added
  vh::Rng rng2(g_seed * 69621ULL + 1818);
  for (int rep = 0; rep < reps; ++rep)
    for (int T : threads)
      {
        try
          {
            if (want("tables"))
              scenario_tables(rng, T);
            if (want("cache"))
              scenario_cache(rng, T);
            if (want("project"))
              scenario_project(rng, T, false);
            if (want("loglik"))
              scenario_loglik(rng, T);
            if (want("loglik_full"))
              scenario_loglik_full(rng, T);
            if (want("projdata_stream"))
              scenario_projdata_stream(rng, T);
            if (want("scatter"))
              scenario_scatter(rng, T);
          }
        catch (std::exception& e)
          {
            fail(std::string("exception in multi-threaded scenario with threads=") + std::to_string(T) + ": " + e.what());
            g_logging = false;
          }
      }
  // thread-count changes on live objects, setter histories of the scatter simulation under threads
  const int re_reps = thorough ? 12 : 1;
  for (int rep = 0; rep < re_reps; ++rep)
    for (int pr = 0; pr < 4; ++pr)
      {
        const int N = g_pairs[pr][0], M = g_pairs[pr][1];
        const std::string tag = " " + std::to_string(N) + "->" + std::to_string(M);
        if (want("rethread") || want("rethread.project"))
          for (int k = 0; k < 2; ++k)
            guarded("rethread.project" + tag, [&]() { scenario_rethread_project(rng2, N, M); });
        if (want("rethread") || want("rethread.loglik"))
          guarded("rethread.loglik" + tag, [&]() { scenario_rethread_loglik(rng2, N, M); });
        if (want("rethread") || want("rethread.listmode"))
          guarded("rethread.listmode" + tag, [&]() { scenario_listmode(rng2, std::vector<int>{ N, M, N }, false); });
        if (want("rethread") || want("scatter.history"))
          {
            // (the setter that restarts the detector numbering twice: it is the one whose effect depends on the schedule)
            static const int kinds[] = { 0, 1, 2, 3, 1, 4, 5 };
            for (int kind : kinds)
              guarded("scatter.history" + tag, [&]() { scenario_scatter_history(rng2, N, M, kind); });
          }
      }
  // list-mode objective function, T threads vs 1 thread
  for (int rep = 0; rep < (thorough ? 10 : 2); ++rep)
    for (int T : threads)
      if (want("listmode"))
        guarded("listmode", [&]() { scenario_listmode(rng2, std::vector<int>{ T }, false); });
  // more threads than work items
  for (int rep = 0; rep < reps; ++rep)
    {
      try
        {
          if (want("project"))
            scenario_project(rng, 16, true);
        }
      catch (std::exception& e)
        {
          fail(std::string("exception with more threads than work items: ") + e.what());
          g_logging = false;
        }
      if (want("tiny"))
        {
          guarded("loglik on a tiny problem", [&]() { scenario_loglik(rng2, 16, true); });
          guarded("loglik_full on a tiny problem", [&]() { scenario_loglik_full(rng2, 16, true); });
          guarded("scatter on a tiny problem", [&]() { scenario_scatter(rng2, 16, true); });
          guarded("scatter.history on a tiny problem", [&]() { scenario_scatter_history(rng2, 16, rng2.coin() ? 16 : 3, rng2.range(0, n_scatter_history_kinds - 1), true); });
          guarded("listmode on a tiny problem", [&]() { scenario_listmode(rng2, std::vector<int>{ 16 }, true); });
        }
    }
  // clear_cache() against readers of the cache (child processes)
  if (want("clear_cache"))
    for (int rep = 0; rep < (thorough ? 48 : 8); ++rep)
      scenario_clear_cache(rng2, rep % 3 == 0 ? 4 : rep % 3 == 1 ? 7 : 2, argv[1], argv[2]);
  stir::set_num_threads(1);
  wipe_dir();
  clean_lm_dir();
  rmdir(g_lm_dir.c_str());
  rmdir(g_dir.c_str());
  std::fprintf(orc, "ORACLE-DONE checks=%ld fails=%ld\n", oracle_checks, oracle_fails);
  std::fclose(ops);
  std::fclose(out);
  std::fclose(orc);
  return 0;
}
