// C18 — implementation side, linked against the OpenMP build of STIR (build/stir-omp).
// Defines the UCL_STIR_VERIF schedule-point call-out: records (thread, site, key, value) events and perturbs the
// schedule there (seeded yields / sleeps).  Scenarios (fresh objects each time so that first-use races are re-armed):
//   tables   : lazily built geometry tables used concurrently from the first call on
//   cache    : system-matrix cache requested concurrently with repeats
//   project  : forward / back projection of whole data sets with T threads vs 1 thread
//   loglik   : Poisson log-likelihood value / gradient / sensitivity / Hessian product with T threads vs 1 thread
// Output: the event trace of every scenario in the line protocol (validated by lean/Driver/C18.lean) and
// ORACLE verdicts comparing multi-threaded with single-threaded results.
// Usage: c18_threads <seed> <quick|thorough> <opsfile> <implfile>
#include "stir_fixtures.h"
#include "common.h"
#include "stir/Bin.h"
#include "stir/DetectionPositionPair.h"
#include "stir/ProjDataInMemory.h"
#include "stir/ProjDataInfoCylindricalNoArcCorr.h"
#include "stir/recon_buildblock/ProjMatrixByBinUsingRayTracing.h"
#include "stir/recon_buildblock/ProjMatrixElemsForOneBin.h"
#include "stir/recon_buildblock/ProjectorByBinPairUsingProjMatrixByBin.h"
#include "stir/recon_buildblock/ForwardProjectorByBinUsingProjMatrixByBin.h"
#include "stir/recon_buildblock/BackProjectorByBinUsingProjMatrixByBin.h"
#include "stir/recon_buildblock/PoissonLogLikelihoodWithLinearModelForMeanAndProjData.h"
#include "stir/recon_buildblock/find_basic_vs_nums_in_subsets.h"
#include "stir/Succeeded.h"
#include "stir/num_threads.h"
#include <omp.h>
#include <mutex>
#include <map>
#include <cmath>
#include <sched.h>
#include <unistd.h>
#include <algorithm>

using namespace stir;
typedef DiscretisedDensity<3, float> Image;

struct Event
{
  int tid;
  std::string site;
  long key;
  int val;
};
static std::mutex g_mx;
static std::vector<Event> g_log;
static bool g_logging = false;
static uint64_t g_seed = 1;
static int g_round = 0;

extern "C" void
stir_verif_sched_point(const char* site, long key, int value)
{
  if (!g_logging)
    return;
  const int tid = omp_get_thread_num();
  {
    std::lock_guard<std::mutex> lk(g_mx);
    g_log.push_back(Event{ tid, site, key, value });
  }
  // perturb the schedule
  static thread_local vh::Rng rng(0);
  static thread_local int round = -1;
  if (round != g_round)
    {
      round = g_round;
      rng = vh::Rng(g_seed * 977 + tid * 7919 + g_round * 104729 + 13);
    }
  const int r = rng.range(0, 9);
  if (r < 3)
    sched_yield();
  else if (r < 5)
    usleep(rng.range(1, 120));
}

static FILE *ops, *out, *orc;
static long oracle_checks = 0, oracle_fails = 0;
static long n_events = 0;

static void
start_trace()
{
  std::lock_guard<std::mutex> lk(g_mx);
  g_log.clear();
  ++g_round;
  g_logging = true;
}

static void
emit_trace(const std::string& name, int expected_bp, int expected_fp, int expected_dist)
{
  g_logging = false;
  std::fprintf(ops, "begin %s %d %d %d\n", name.c_str(), expected_bp, expected_fp, expected_dist);
  std::fprintf(out, "begin\n");
  // canonicalise pointer-valued keys (object identities) by order of first appearance
  std::map<long, long> ids;
  for (auto& e : g_log)
    {
      long k = e.key;
      if (e.site.compare(0, 4, "pdi.") == 0 || e.site.compare(0, 9, "bp.local.") == 0 || e.site == "bp.reduce")
        {
          if (!ids.count(k))
            {
              const long n = static_cast<long>(ids.size()) + 1;
              ids[k] = n;
            }
          k = ids[k];
        }
      std::fprintf(ops, "ev %d %s %ld %d\n", e.tid, e.site.c_str(), k, e.val);
      std::fprintf(out, ".\n");
      ++n_events;
    }
  std::fprintf(ops, "end\n");
  std::fprintf(out, "ok\n");
}

static void
fail(const std::string& what)
{
  ++oracle_fails;
  if (oracle_fails < 40)
    std::fprintf(orc, "ORACLE-FAIL %s\n", what.c_str());
}

// ---------------------------------------------------------------- scenario: lazily built geometry tables
static void
scenario_tables(vh::Rng& rng, int T)
{
  const int N = 2 * rng.range(6, 14), R = rng.range(2, 4);
  shared_ptr<Scanner> scanner = vh::make_scanner(N, R);
  const int span = rng.coin() ? 1 : 3;
  if (span == 3 && R < 2)
    return;
  shared_ptr<ProjDataInfo> p0 = vh::make_pdi(scanner, span, R - 1, N / 2, N / 2 - 1, false, 0);
  shared_ptr<ProjDataInfo> p1 = vh::make_pdi(scanner, span, R - 1, N / 2, N / 2 - 1, false, 0);
  auto* ref = dynamic_cast<ProjDataInfoCylindricalNoArcCorr*>(p0.get());
  auto* par = dynamic_cast<ProjDataInfoCylindricalNoArcCorr*>(p1.get());
  // work list
  std::vector<DetectionPositionPair<>> dps;
  for (int k = 0; k < 400; ++k)
    {
      DetectionPositionPair<> dp;
      int d1 = rng.range(0, N - 1), d2 = rng.range(0, N - 1);
      if (d1 == d2)
        d2 = (d2 + 1) % N;
      dp.pos1().tangential_coord() = d1;
      dp.pos2().tangential_coord() = d2;
      dp.pos1().axial_coord() = rng.range(0, R - 1);
      dp.pos2().axial_coord() = rng.range(0, R - 1);
      dps.push_back(dp);
    }
  std::vector<Bin> refb(dps.size()), parb(dps.size());
  std::vector<int> refok(dps.size()), parok(dps.size());
  std::vector<float> refm(dps.size(), 0.F), parm(dps.size(), 0.F);
  std::vector<int> refd(dps.size(), -1), pard(dps.size(), -1);
  stir::set_num_threads(1);
  for (std::size_t i = 0; i < dps.size(); ++i)
    {
      refok[i] = ref->get_bin_for_det_pos_pair(refb[i], dps[i]) == Succeeded::yes;
      if (refok[i])
        {
          refm[i] = ref->get_m(refb[i]);
          int a, b;
          ref->get_det_num_pair_for_view_tangential_pos_num(a, b, refb[i].view_num(), refb[i].tangential_pos_num());
          refd[i] = a * 1000 + b;
        }
    }
  stir::set_num_threads(T);
  start_trace();
#pragma omp parallel for schedule(dynamic)
  for (int i = 0; i < static_cast<int>(dps.size()); ++i)
    {
      parok[i] = par->get_bin_for_det_pos_pair(parb[i], dps[i]) == Succeeded::yes;
      if (parok[i])
        {
          parm[i] = par->get_m(parb[i]);
          int a, b;
          par->get_det_num_pair_for_view_tangential_pos_num(a, b, parb[i].view_num(), parb[i].tangential_pos_num());
          pard[i] = a * 1000 + b;
        }
    }
  emit_trace("tables", 0, 0, 0);
  ++oracle_checks;
  for (std::size_t i = 0; i < dps.size(); ++i)
    if (refok[i] != parok[i] || (refok[i] && (!(refb[i] == parb[i]) || refm[i] != parm[i] || refd[i] != pard[i])))
      {
        fail("tables: concurrent first use of the geometry tables gave a different bin/coordinate than the single-thread run, threads=" + std::to_string(T));
        break;
      }
}

// ---------------------------------------------------------------- shared small reconstruction problem
struct Problem
{
  shared_ptr<ProjDataInfo> pdi;
  shared_ptr<Image> image;
  shared_ptr<ExamInfo> exam;
  int flags;
  bool tof;
};

static Problem
make_problem(vh::Rng& rng, bool tiny)
{
  Problem p;
  p.tof = rng.range(0, 3) == 0;
  const int N = tiny ? 8 : 2 * rng.range(6, 10), R = tiny ? 1 : rng.range(2, 3);
  shared_ptr<Scanner> scanner = vh::make_scanner(N, R, p.tof ? 5 : -1);
  p.pdi = vh::make_pdi(scanner, 1, R - 1, tiny ? 2 : N / 2, N / 2 - 1, false, p.tof ? 1 : 0);
  p.image = vh::make_image(*p.pdi, 1.F, 7, 2 * R - 1);
  p.exam.reset(new ExamInfo);
  p.exam->imaging_modality = ImagingModality::PT;
  p.flags = rng.range(0, 7);
  return p;
}

static shared_ptr<ProjMatrixByBinUsingRayTracing>
make_matrix(const Problem& p, bool cache)
{
  shared_ptr<ProjMatrixByBinUsingRayTracing> pm(new ProjMatrixByBinUsingRayTracing);
  pm->set_do_symmetry_90degrees_min_phi(p.flags & 1);
  pm->set_do_symmetry_180degrees_min_phi(p.flags & 2);
  pm->set_do_symmetry_swap_segment(p.flags & 4);
  pm->set_num_tangential_LORs(1 + (p.flags & 1));
  pm->enable_cache(cache);
  pm->set_up(p.pdi, p.image);
  return pm;
}

static void
fill_image(Image& im, vh::Rng& rng, bool positive)
{
  for (auto it = im.begin_all(); it != im.end_all(); ++it)
    *it = positive ? static_cast<float>(rng.range(1, 9)) : static_cast<float>(rng.range(-5, 5));
}

static void
fill_data(ProjData& d, vh::Rng& rng, int lo, int hi)
{
  for (int t = d.get_min_tof_pos_num(); t <= d.get_max_tof_pos_num(); ++t)
    for (int s = d.get_min_segment_num(); s <= d.get_max_segment_num(); ++s)
      {
        SegmentByView<float> seg = d.get_empty_segment_by_view(s, false, t);
        for (auto it = seg.begin_all(); it != seg.end_all(); ++it)
          *it = static_cast<float>(rng.range(lo, hi));
        d.set_segment(seg);
      }
}

static bool
images_close(const Image& a, const Image& b, double rel, std::string& why)
{
  double mx = 0;
  for (auto it = b.begin_all_const(); it != b.end_all_const(); ++it)
    mx = std::max(mx, std::fabs(static_cast<double>(*it)));
  auto ia = a.begin_all_const();
  for (auto ib = b.begin_all_const(); ib != b.end_all_const(); ++ib, ++ia)
    if (!(std::fabs(static_cast<double>(*ia) - *ib) <= rel * mx + 1e-30))
      {
        why = "value " + vh::hex(*ia) + " vs single-thread " + vh::hex(*ib) + " (max " + vh::hex(mx) + ")";
        return false;
      }
  return true;
}

// ---------------------------------------------------------------- scenario: cache
static void
scenario_cache(vh::Rng& rng, int T)
{
  Problem p = make_problem(rng, false);
  shared_ptr<ProjMatrixByBinUsingRayTracing> ref = make_matrix(p, false);
  shared_ptr<ProjMatrixByBinUsingRayTracing> par = make_matrix(p, true);
  if (rng.coin())
    par->store_only_basic_bins_in_cache(rng.coin());
  std::vector<Bin> bins;
  for (int s = p.pdi->get_min_segment_num(); s <= p.pdi->get_max_segment_num(); ++s)
    for (int a = p.pdi->get_min_axial_pos_num(s); a <= p.pdi->get_max_axial_pos_num(s); ++a)
      for (int v = 0; v < p.pdi->get_num_views(); ++v)
        for (int tp = -2; tp <= 2; ++tp)
          bins.push_back(Bin(s, v, a, tp, p.tof ? rng.range(p.pdi->get_min_tof_pos_num(), p.pdi->get_max_tof_pos_num()) : 0));
  std::vector<Bin> work;
  for (int rep = 0; rep < 3; ++rep)
    work.insert(work.end(), bins.begin(), bins.end());
  for (std::size_t i = work.size(); i > 1; --i)
    std::swap(work[i - 1], work[rng.range(0, static_cast<int>(i) - 1)]);
  if (work.size() > 900)
    work.resize(900);
  std::vector<ProjMatrixElemsForOneBin> refrows(work.size()), parrows(work.size());
  stir::set_num_threads(1);
  for (std::size_t i = 0; i < work.size(); ++i)
    {
      ref->get_proj_matrix_elems_for_one_bin(refrows[i], work[i]);
      refrows[i].sort();
    }
  stir::set_num_threads(T);
  start_trace();
#pragma omp parallel for schedule(dynamic)
  for (int i = 0; i < static_cast<int>(work.size()); ++i)
    {
      par->get_proj_matrix_elems_for_one_bin(parrows[i], work[i]);
      parrows[i].sort();
    }
  emit_trace("cache", 0, 0, 0);
  ++oracle_checks;
  for (std::size_t i = 0; i < work.size(); ++i)
    {
      bool same = refrows[i].size() == parrows[i].size();
      if (same)
        {
          auto a = refrows[i].begin();
          for (auto b = parrows[i].begin(); b != parrows[i].end(); ++b, ++a)
            if (a->get_coords() != b->get_coords() || std::fabs(a->get_value() - b->get_value()) > 1e-4F * std::fabs(a->get_value()) + 1e-7F)
              same = false;
        }
      if (!same)
        {
          fail("cache: row obtained concurrently through the cache differs from the directly computed row, threads=" + std::to_string(T));
          break;
        }
    }
}

// ---------------------------------------------------------------- scenario: forward / back projection
static void
scenario_project(vh::Rng& rng, int T, bool tiny)
{
  Problem p = make_problem(rng, tiny);
  const int n_items = [&]() {
    shared_ptr<ProjMatrixByBinUsingRayTracing> pm = make_matrix(p, true);
    shared_ptr<DataSymmetriesForViewSegmentNumbers> sym(pm->get_symmetries_ptr()->clone());
    return static_cast<int>(detail::find_basic_vs_nums_in_subset(*p.pdi, *sym, p.pdi->get_min_segment_num(), p.pdi->get_max_segment_num(), 0, 1).size())
           * p.pdi->get_num_tof_poss();
  }();
  Image& x = *p.image;
  fill_image(x, rng, false);
  ProjDataInMemory y(p.exam, p.pdi);
  fill_data(y, rng, -4, 4);
  // single thread reference
  stir::set_num_threads(1);
  ProjDataInMemory fwd_ref(p.exam, p.pdi), fwd_par(p.exam, p.pdi);
  shared_ptr<Image> bck_ref(x.get_empty_copy()), bck_par(x.get_empty_copy());
  {
    shared_ptr<ProjMatrixByBin> pm = make_matrix(p, true);
    ForwardProjectorByBinUsingProjMatrixByBin fp(pm);
    BackProjectorByBinUsingProjMatrixByBin bp(pm);
    fp.set_up(p.pdi, p.image);
    bp.set_up(p.pdi, p.image);
    fp.forward_project(fwd_ref, x);
    bp.back_project(*bck_ref, y);
  }
  stir::set_num_threads(T);
  {
    shared_ptr<ProjMatrixByBin> pm = make_matrix(p, true);
    ForwardProjectorByBinUsingProjMatrixByBin fp(pm);
    BackProjectorByBinUsingProjMatrixByBin bp(pm);
    fp.set_up(p.pdi, p.image);
    bp.set_up(p.pdi, p.image);
    start_trace();
    fp.forward_project(fwd_par, x);
    bp.back_project(*bck_par, y);
    emit_trace("project", n_items, n_items, 0);
  }
  ++oracle_checks;
  // forward projection: every bin is computed by exactly one thread from the same row -> compare tightly
  double mx = 0;
  for (auto it = fwd_ref.begin_all(); it != fwd_ref.end_all(); ++it)
    mx = std::max(mx, std::fabs(static_cast<double>(*it)));
  auto ip = fwd_par.begin_all();
  for (auto it = fwd_ref.begin_all(); it != fwd_ref.end_all(); ++it, ++ip)
    if (std::fabs(static_cast<double>(*it) - *ip) > 1e-5 * mx)
      {
        fail("project: forward projection with " + std::to_string(T) + " threads differs from single-thread result (" + vh::hex(*ip) + " vs " + vh::hex(*it) + ")");
        break;
      }
  std::string why;
  ++oracle_checks;
  if (!images_close(*bck_par, *bck_ref, 2e-5, why))
    fail("project: back projection with " + std::to_string(T) + " threads differs from single-thread result beyond reassociation: " + why);
}

// ---------------------------------------------------------------- scenario: log-likelihood
static void
scenario_loglik(vh::Rng& rng, int T)
{
  Problem p = make_problem(rng, false);
  Image& x = *p.image;
  fill_image(x, rng, true);
  shared_ptr<ProjData> y(new ProjDataInMemory(p.exam, p.pdi));
  fill_data(*y, rng, 0, 6);
  shared_ptr<ProjData> add(new ProjDataInMemory(p.exam, p.pdi));
  fill_data(*add, rng, 1, 2);
  shared_ptr<Image> dir(x.get_empty_copy());
  fill_image(*dir, rng, true); // the Hessian product requires a non-negative forward projection of its input
  struct Res
  {
    double value;
    shared_ptr<Image> grad, sens, hess;
  };
  const bool with_add = rng.coin();
  auto run = [&](int threads, bool trace, int& n_items) {
    stir::set_num_threads(threads);
    shared_ptr<ProjMatrixByBin> pm = make_matrix(p, true);
    shared_ptr<ProjectorByBinPair> pair(new ProjectorByBinPairUsingProjMatrixByBin(pm));
    PoissonLogLikelihoodWithLinearModelForMeanAndProjData<Image> obj;
    obj.set_proj_data_sptr(y);
    obj.set_projector_pair_sptr(pair);
    if (with_add)
      obj.set_additive_proj_data_sptr(add);
    obj.set_num_subsets(1);
    obj.set_recompute_sensitivity(true);
    obj.set_use_subset_sensitivities(true);
    if (trace)
      start_trace();
    shared_ptr<Image> target(x.clone());
    obj.set_up(target);
    Res r;
    r.value = obj.compute_objective_function(x);
    r.grad.reset(x.get_empty_copy());
    obj.compute_sub_gradient(*r.grad, x, 0);
    r.sens.reset(obj.get_subset_sensitivity(0).clone());
    r.hess.reset(x.get_empty_copy());
    obj.accumulate_sub_Hessian_times_input(*r.hess, x, *dir, 0);
    if (trace)
      {
        shared_ptr<DataSymmetriesForViewSegmentNumbers> sym(pm->get_symmetries_ptr()->clone());
        n_items = static_cast<int>(detail::find_basic_vs_nums_in_subset(*p.pdi, *sym, p.pdi->get_min_segment_num(), p.pdi->get_max_segment_num(), 0, 1).size())
                  * p.pdi->get_num_tof_poss();
        emit_trace("loglik", 0, 0, 0);
      }
    return r;
  };
  int n_items = 0;
  Res ref = run(1, false, n_items);
  Res par = run(T, true, n_items);
  std::string why;
  ++oracle_checks;
  if (std::fabs(ref.value - par.value) > 1e-6 * std::fabs(ref.value) + 1e-9)
    fail("loglik: value with " + std::to_string(T) + " threads " + vh::hex(par.value) + " vs single-thread " + vh::hex(ref.value));
  ++oracle_checks;
  if (!images_close(*par.grad, *ref.grad, 5e-5, why))
    fail("loglik: gradient differs from single-thread result: " + why);
  ++oracle_checks;
  if (!images_close(*par.sens, *ref.sens, 5e-5, why))
    fail("loglik: sensitivity differs from single-thread result: " + why);
  ++oracle_checks;
  if (!images_close(*par.hess, *ref.hess, 5e-5, why))
    fail("loglik: Hessian-times-vector differs from single-thread result: " + why);
}

int
main(int argc, char** argv)
{
  if (argc < 5)
    return 2;
  vh::quiet();
  g_seed = std::strtoull(argv[1], nullptr, 10);
  vh::Rng rng(g_seed * 48271ULL + 18);
  const bool thorough = std::string(argv[2]) == "thorough";
  ops = std::fopen(argv[3], "w");
  out = std::fopen(argv[4], "w");
  orc = std::fopen((std::string(argv[4]) + ".oracle").c_str(), "w");
  omp_set_dynamic(0);
  const std::vector<int> threads = thorough ? std::vector<int>{ 2, 3, 4, 5, 8, 11, 16 } : std::vector<int>{ 2, 4, 7 };
  const int reps = thorough ? 12 : 3;
  for (int rep = 0; rep < reps; ++rep)
    for (int T : threads)
      {
        try
          {
            scenario_tables(rng, T);
            scenario_cache(rng, T);
            scenario_project(rng, T, false);
            scenario_loglik(rng, T);
          }
        catch (std::exception& e)
          {
            fail(std::string("exception in multi-threaded scenario with threads=") + std::to_string(T) + ": " + e.what());
            g_logging = false;
          }
      }
  // more threads than work items
  for (int rep = 0; rep < reps; ++rep)
    {
      try
        {
          scenario_project(rng, 16, true);
        }
      catch (std::exception& e)
        {
          fail(std::string("exception with more threads than work items: ") + e.what());
          g_logging = false;
        }
    }
  std::fprintf(orc, "ORACLE-DONE checks=%ld fails=%ld\n", oracle_checks, oracle_fails);
  std::fclose(ops);
  std::fclose(out);
  std::fclose(orc);
  return 0;
}
