// C18 — implementation side, linked against the OpenMP build of STIR (build/stir-omp).
// Defines the UCL_STIR_VERIF schedule-point call-out: records (thread, site, key, value) events and perturbs the
// schedule there (seeded yields / sleeps).  Scenarios (fresh objects each time so that first-use races are re-armed):
//   tables   : lazily built geometry tables used concurrently from the first call on
//   cache    : system-matrix cache requested concurrently with repeats
//   project  : forward / back projection of whole data sets with T threads vs 1 thread
//   loglik   : Poisson log-likelihood value / gradient / sensitivity / Hessian product with T threads vs 1 thread
//   loglik_full     : the same objective function with 1..3 subsets, normalisation, additive term, end-plane zeroing: per subset
//                     value, sub-gradient, sub-gradient + sensitivity, add_subset_sensitivity, accumulate_sub_Hessian_times_input,
//                     add_multiplication_with_approximate_sub_Hessian, T threads vs 1 thread (one trace per objective function, and
//                     the work items of every distributable pass as a trace of their own); the value repeated 150 times on a small data set
//   projdata_stream : projection data held in ProjDataInterfile / ProjDataFromStream on real files (written by this harness under
//                     <dir of opsfile>/c18_files_<tier>) and in ProjDataInMemory:
//                       .io      concurrent get_/set_ viewgram / sinogram / segment / bin value from the harness' own parallel loop
//                                (disjoint regions written, every region read back; reads compared with an in-memory copy),
//                       .project forward projection into a file and back projection from a file, T threads vs 1 thread,
//                       .loglik  log-likelihood value / gradient / sensitivity / Hessian products with data, additive term and
//                                normalisation factors read from files
//   scatter  : SingleScatterSimulation::process_data on a small scanner / phantom, line-integral cache enabled and disabled,
//              T threads vs 1 thread (all bins bitwise, total scatter up to reassociation of the per-thread partial sums)
// Output: the event trace of every scenario in the line protocol (validated by lean/Driver/C18.lean) and
// ORACLE verdicts comparing multi-threaded with single-threaded results.
// Usage: c18_threads <seed> <quick|thorough> <opsfile> <implfile>
#include "stir_fixtures.h"
#include "common.h"
#include "stir/Bin.h"
#include "stir/DetectionPositionPair.h"
#include "stir/ProjDataInMemory.h"
#include "stir/ProjDataInterfile.h"
#include "stir/ProjDataFromStream.h"
#include "stir/Viewgram.h"
#include "stir/Sinogram.h"
#include "stir/SegmentByView.h"
#include "stir/SegmentBySinogram.h"
#include "stir/recon_buildblock/BinNormalisationFromProjData.h"
#include "stir/scatter/SingleScatterSimulation.h"
#include "stir/ProjDataInfoCylindricalNoArcCorr.h"
#include "stir/recon_buildblock/ProjMatrixByBinUsingRayTracing.h"
#include "stir/recon_buildblock/ProjMatrixElemsForOneBin.h"
#include "stir/recon_buildblock/ProjectorByBinPairUsingProjMatrixByBin.h"
#include "stir/recon_buildblock/ForwardProjectorByBinUsingProjMatrixByBin.h"
#include "stir/recon_buildblock/BackProjectorByBinUsingProjMatrixByBin.h"
#include "stir/recon_buildblock/PoissonLogLikelihoodWithLinearModelForMeanAndProjData.h"
#include "stir/recon_buildblock/find_basic_vs_nums_in_subsets.h"
#include "stir/Succeeded.h"
#include "stir/num_threads.h"
#include <omp.h>
#include <mutex>
#include <map>
#include <cmath>
#include <sched.h>
#include <unistd.h>
#include <algorithm>
#include <atomic>
#include <functional>
#include <sys/stat.h>
#include <fcntl.h>
#include <dirent.h>

using namespace stir;
typedef DiscretisedDensity<3, float> Image;

struct Event
{
  int tid;
  std::string site;
  long key;
  int val;
};
static std::mutex g_mx;
static std::vector<Event> g_log;
static bool g_logging = false;
static uint64_t g_seed = 1;
static int g_round = 0;
// events of the scatter cache are far too many to be listed one by one (and no validator reads them): they are counted
static std::atomic<long> g_sc_reads(0), g_sc_hits(0);

// seeded perturbation of the schedule of the calling thread: `light` = yields only (used inside tight loops)
static void
perturb(bool light)
{
  const int tid = omp_get_thread_num();
  static thread_local vh::Rng rng(0);
  static thread_local int round = -1;
  if (round != g_round)
    {
      round = g_round;
      rng = vh::Rng(g_seed * 977 + tid * 7919 + g_round * 104729 + 13);
    }
  const int r = rng.range(0, 9);
  if (r < 3)
    sched_yield();
  else if (r < 5 && !light)
    usleep(rng.range(1, 120));
  else if (r < 4 && light)
    usleep(rng.range(1, 20));
}

extern "C" void
stir_verif_sched_point(const char* site, long key, int value)
{
  if (!g_logging)
    return;
  if (site[0] == 's' && site[1] == 'c' && site[2] == '.')
    {
      ++g_sc_reads;
      if (value)
        ++g_sc_hits;
      perturb(true);
      return;
    }
  const int tid = omp_get_thread_num();
  {
    std::lock_guard<std::mutex> lk(g_mx);
    g_log.push_back(Event{ tid, site, key, value });
  }
  perturb(false);
}

static FILE *ops, *out, *orc;
static long oracle_checks = 0, oracle_fails = 0;
static long n_events = 0;

static void
start_trace()
{
  std::lock_guard<std::mutex> lk(g_mx);
  g_log.clear();
  ++g_round;
  g_logging = true;
}

// Prints the recorded events [from, to) as one trace.  only_site != "": only the events of that site (a view of a part of a
// longer trace, used to have the work items of one pass checked on their own).
static void
emit_trace(const std::string& name, int expected_bp, int expected_fp, int expected_dist, std::size_t from = 0, std::size_t to = static_cast<std::size_t>(-1),
           const std::string& only_site = "")
{
  g_logging = false;
  std::fprintf(ops, "begin %s %d %d %d\n", name.c_str(), expected_bp, expected_fp, expected_dist);
  std::fprintf(out, "begin\n");
  // canonicalise pointer-valued keys (object identities) by order of first appearance
  std::map<long, long> ids;
  to = std::min(to, g_log.size());
  for (std::size_t i = from; i < to; ++i)
    {
      const Event& e = g_log[i];
      if (!only_site.empty() && e.site != only_site)
        continue;
      long k = e.key;
      if (e.site.compare(0, 4, "pdi.") == 0 || e.site.compare(0, 9, "bp.local.") == 0 || e.site == "bp.reduce")
        {
          if (!ids.count(k))
            {
              const long n = static_cast<long>(ids.size()) + 1;
              ids[k] = n;
            }
          k = ids[k];
        }
      std::fprintf(ops, "ev %d %s %ld %d\n", e.tid, e.site.c_str(), k, e.val);
      std::fprintf(out, ".\n");
      ++n_events;
    }
  std::fprintf(ops, "end\n");
  std::fprintf(out, "ok\n");
  // a crash of the library in a later scenario must not leave the two files cut at different places
  std::fflush(ops);
  std::fflush(out);
}

static void
fail(const std::string& what)
{
  ++oracle_fails;
  if (oracle_fails < 40)
    std::fprintf(orc, "ORACLE-FAIL %s\n", what.c_str());
}

// ---------------------------------------------------------------- scenario: lazily built geometry tables
static void
scenario_tables(vh::Rng& rng, int T)
{
  const int N = 2 * rng.range(6, 14), R = rng.range(2, 4);
  shared_ptr<Scanner> scanner = vh::make_scanner(N, R);
  const int span = rng.coin() ? 1 : 3;
  if (span == 3 && R < 2)
    return;
  shared_ptr<ProjDataInfo> p0 = vh::make_pdi(scanner, span, R - 1, N / 2, N / 2 - 1, false, 0);
  shared_ptr<ProjDataInfo> p1 = vh::make_pdi(scanner, span, R - 1, N / 2, N / 2 - 1, false, 0);
  auto* ref = dynamic_cast<ProjDataInfoCylindricalNoArcCorr*>(p0.get());
  auto* par = dynamic_cast<ProjDataInfoCylindricalNoArcCorr*>(p1.get());
  // work list
  std::vector<DetectionPositionPair<>> dps;
  for (int k = 0; k < 400; ++k)
    {
      DetectionPositionPair<> dp;
      int d1 = rng.range(0, N - 1), d2 = rng.range(0, N - 1);
      if (d1 == d2)
        d2 = (d2 + 1) % N;
      dp.pos1().tangential_coord() = d1;
      dp.pos2().tangential_coord() = d2;
      dp.pos1().axial_coord() = rng.range(0, R - 1);
      dp.pos2().axial_coord() = rng.range(0, R - 1);
      dps.push_back(dp);
    }
  std::vector<Bin> refb(dps.size()), parb(dps.size());
  std::vector<int> refok(dps.size()), parok(dps.size());
  std::vector<float> refm(dps.size(), 0.F), parm(dps.size(), 0.F);
  std::vector<int> refd(dps.size(), -1), pard(dps.size(), -1);
  stir::set_num_threads(1);
  for (std::size_t i = 0; i < dps.size(); ++i)
    {
      refok[i] = ref->get_bin_for_det_pos_pair(refb[i], dps[i]) == Succeeded::yes;
      if (refok[i])
        {
          refm[i] = ref->get_m(refb[i]);
          int a, b;
          ref->get_det_num_pair_for_view_tangential_pos_num(a, b, refb[i].view_num(), refb[i].tangential_pos_num());
          refd[i] = a * 1000 + b;
        }
    }
  stir::set_num_threads(T);
  start_trace();
#pragma omp parallel for schedule(dynamic)
  for (int i = 0; i < static_cast<int>(dps.size()); ++i)
    {
      parok[i] = par->get_bin_for_det_pos_pair(parb[i], dps[i]) == Succeeded::yes;
      if (parok[i])
        {
          parm[i] = par->get_m(parb[i]);
          int a, b;
          par->get_det_num_pair_for_view_tangential_pos_num(a, b, parb[i].view_num(), parb[i].tangential_pos_num());
          pard[i] = a * 1000 + b;
        }
    }
  emit_trace("tables", 0, 0, 0);
  ++oracle_checks;
  for (std::size_t i = 0; i < dps.size(); ++i)
    if (refok[i] != parok[i] || (refok[i] && (!(refb[i] == parb[i]) || refm[i] != parm[i] || refd[i] != pard[i])))
      {
        fail("tables: concurrent first use of the geometry tables gave a different bin/coordinate than the single-thread run, threads=" + std::to_string(T));
        break;
      }
}

// ---------------------------------------------------------------- shared small reconstruction problem
struct Problem
{
  shared_ptr<ProjDataInfo> pdi;
  shared_ptr<Image> image;
  shared_ptr<ExamInfo> exam;
  int flags;
  bool tof;
};

static Problem
make_problem(vh::Rng& rng, bool tiny)
{
  Problem p;
  p.tof = rng.range(0, 3) == 0;
  const int N = tiny ? 8 : 2 * rng.range(6, 10), R = tiny ? 1 : rng.range(2, 3);
  shared_ptr<Scanner> scanner = vh::make_scanner(N, R, p.tof ? 5 : -1);
  p.pdi = vh::make_pdi(scanner, 1, R - 1, tiny ? 2 : N / 2, N / 2 - 1, false, p.tof ? 1 : 0);
  p.image = vh::make_image(*p.pdi, 1.F, 7, 2 * R - 1);
  p.exam.reset(new ExamInfo);
  p.exam->imaging_modality = ImagingModality::PT;
  p.flags = rng.range(0, 7);
  return p;
}

static shared_ptr<ProjMatrixByBinUsingRayTracing>
make_matrix(const Problem& p, bool cache)
{
  shared_ptr<ProjMatrixByBinUsingRayTracing> pm(new ProjMatrixByBinUsingRayTracing);
  pm->set_do_symmetry_90degrees_min_phi(p.flags & 1);
  pm->set_do_symmetry_180degrees_min_phi(p.flags & 2);
  pm->set_do_symmetry_swap_segment(p.flags & 4);
  pm->set_num_tangential_LORs(1 + (p.flags & 1));
  pm->enable_cache(cache);
  pm->set_up(p.pdi, p.image);
  return pm;
}

static void
fill_image(Image& im, vh::Rng& rng, bool positive)
{
  for (auto it = im.begin_all(); it != im.end_all(); ++it)
    *it = positive ? static_cast<float>(rng.range(1, 9)) : static_cast<float>(rng.range(-5, 5));
}

static void
fill_data(ProjData& d, vh::Rng& rng, int lo, int hi)
{
  for (int t = d.get_min_tof_pos_num(); t <= d.get_max_tof_pos_num(); ++t)
    for (int s = d.get_min_segment_num(); s <= d.get_max_segment_num(); ++s)
      {
        SegmentByView<float> seg = d.get_empty_segment_by_view(s, false, t);
        for (auto it = seg.begin_all(); it != seg.end_all(); ++it)
          *it = static_cast<float>(rng.range(lo, hi));
        d.set_segment(seg);
      }
}

static bool
images_close(const Image& a, const Image& b, double rel, std::string& why)
{
  double mx = 0;
  for (auto it = b.begin_all_const(); it != b.end_all_const(); ++it)
    mx = std::max(mx, std::fabs(static_cast<double>(*it)));
  auto ia = a.begin_all_const();
  for (auto ib = b.begin_all_const(); ib != b.end_all_const(); ++ib, ++ia)
    if (!(std::fabs(static_cast<double>(*ia) - *ib) <= rel * mx + 1e-30))
      {
        why = "value " + vh::hex(*ia) + " vs single-thread " + vh::hex(*ib) + " (max " + vh::hex(mx) + ")";
        return false;
      }
  return true;
}

// ---------------------------------------------------------------- scenario: cache
static void
scenario_cache(vh::Rng& rng, int T)
{
  Problem p = make_problem(rng, false);
  shared_ptr<ProjMatrixByBinUsingRayTracing> ref = make_matrix(p, false);
  shared_ptr<ProjMatrixByBinUsingRayTracing> par = make_matrix(p, true);
  if (rng.coin())
    par->store_only_basic_bins_in_cache(rng.coin());
  std::vector<Bin> bins;
  for (int s = p.pdi->get_min_segment_num(); s <= p.pdi->get_max_segment_num(); ++s)
    for (int a = p.pdi->get_min_axial_pos_num(s); a <= p.pdi->get_max_axial_pos_num(s); ++a)
      for (int v = 0; v < p.pdi->get_num_views(); ++v)
        for (int tp = -2; tp <= 2; ++tp)
          bins.push_back(Bin(s, v, a, tp, p.tof ? rng.range(p.pdi->get_min_tof_pos_num(), p.pdi->get_max_tof_pos_num()) : 0));
  std::vector<Bin> work;
  for (int rep = 0; rep < 3; ++rep)
    work.insert(work.end(), bins.begin(), bins.end());
  for (std::size_t i = work.size(); i > 1; --i)
    std::swap(work[i - 1], work[rng.range(0, static_cast<int>(i) - 1)]);
  if (work.size() > 900)
    work.resize(900);
  std::vector<ProjMatrixElemsForOneBin> refrows(work.size()), parrows(work.size());
  stir::set_num_threads(1);
  for (std::size_t i = 0; i < work.size(); ++i)
    {
      ref->get_proj_matrix_elems_for_one_bin(refrows[i], work[i]);
      refrows[i].sort();
    }
  stir::set_num_threads(T);
  start_trace();
#pragma omp parallel for schedule(dynamic)
  for (int i = 0; i < static_cast<int>(work.size()); ++i)
    {
      par->get_proj_matrix_elems_for_one_bin(parrows[i], work[i]);
      parrows[i].sort();
    }
  emit_trace("cache", 0, 0, 0);
  ++oracle_checks;
  for (std::size_t i = 0; i < work.size(); ++i)
    {
      bool same = refrows[i].size() == parrows[i].size();
      if (same)
        {
          auto a = refrows[i].begin();
          for (auto b = parrows[i].begin(); b != parrows[i].end(); ++b, ++a)
            if (a->get_coords() != b->get_coords() || std::fabs(a->get_value() - b->get_value()) > 1e-4F * std::fabs(a->get_value()) + 1e-7F)
              same = false;
        }
      if (!same)
        {
          fail("cache: row obtained concurrently through the cache differs from the directly computed row, threads=" + std::to_string(T));
          break;
        }
    }
}

// ---------------------------------------------------------------- scenario: forward / back projection
static void
scenario_project(vh::Rng& rng, int T, bool tiny)
{
  Problem p = make_problem(rng, tiny);
  const int n_items = [&]() {
    shared_ptr<ProjMatrixByBinUsingRayTracing> pm = make_matrix(p, true);
    shared_ptr<DataSymmetriesForViewSegmentNumbers> sym(pm->get_symmetries_ptr()->clone());
    return static_cast<int>(detail::find_basic_vs_nums_in_subset(*p.pdi, *sym, p.pdi->get_min_segment_num(), p.pdi->get_max_segment_num(), 0, 1).size())
           * p.pdi->get_num_tof_poss();
  }();
  Image& x = *p.image;
  fill_image(x, rng, false);
  ProjDataInMemory y(p.exam, p.pdi);
  fill_data(y, rng, -4, 4);
  // single thread reference
  stir::set_num_threads(1);
  ProjDataInMemory fwd_ref(p.exam, p.pdi), fwd_par(p.exam, p.pdi);
  shared_ptr<Image> bck_ref(x.get_empty_copy()), bck_par(x.get_empty_copy());
  {
    shared_ptr<ProjMatrixByBin> pm = make_matrix(p, true);
    ForwardProjectorByBinUsingProjMatrixByBin fp(pm);
    BackProjectorByBinUsingProjMatrixByBin bp(pm);
    fp.set_up(p.pdi, p.image);
    bp.set_up(p.pdi, p.image);
    fp.forward_project(fwd_ref, x);
    bp.back_project(*bck_ref, y);
  }
  stir::set_num_threads(T);
  {
    shared_ptr<ProjMatrixByBin> pm = make_matrix(p, true);
    ForwardProjectorByBinUsingProjMatrixByBin fp(pm);
    BackProjectorByBinUsingProjMatrixByBin bp(pm);
    fp.set_up(p.pdi, p.image);
    bp.set_up(p.pdi, p.image);
    start_trace();
    fp.forward_project(fwd_par, x);
    bp.back_project(*bck_par, y);
    emit_trace("project", n_items, n_items, 0);
  }
  ++oracle_checks;
  // forward projection: every bin is computed by exactly one thread from the same row -> compare tightly
  double mx = 0;
  for (auto it = fwd_ref.begin_all(); it != fwd_ref.end_all(); ++it)
    mx = std::max(mx, std::fabs(static_cast<double>(*it)));
  auto ip = fwd_par.begin_all();
  for (auto it = fwd_ref.begin_all(); it != fwd_ref.end_all(); ++it, ++ip)
    if (std::fabs(static_cast<double>(*it) - *ip) > 1e-5 * mx)
      {
        fail("project: forward projection with " + std::to_string(T) + " threads differs from single-thread result (" + vh::hex(*ip) + " vs " + vh::hex(*it) + ")");
        break;
      }
  std::string why;
  ++oracle_checks;
  if (!images_close(*bck_par, *bck_ref, 2e-5, why))
    fail("project: back projection with " + std::to_string(T) + " threads differs from single-thread result beyond reassociation: " + why);
}

// ---------------------------------------------------------------- scenario: log-likelihood
static void
scenario_loglik(vh::Rng& rng, int T)
{
  Problem p = make_problem(rng, false);
  Image& x = *p.image;
  fill_image(x, rng, true);
  shared_ptr<ProjData> y(new ProjDataInMemory(p.exam, p.pdi));
  fill_data(*y, rng, 0, 6);
  shared_ptr<ProjData> add(new ProjDataInMemory(p.exam, p.pdi));
  fill_data(*add, rng, 1, 2);
  shared_ptr<Image> dir(x.get_empty_copy());
  fill_image(*dir, rng, true); // the Hessian product requires a non-negative forward projection of its input
  struct Res
  {
    double value;
    shared_ptr<Image> grad, sens, hess;
  };
  const bool with_add = rng.coin();
  auto run = [&](int threads, bool trace, int& n_items) {
    stir::set_num_threads(threads);
    shared_ptr<ProjMatrixByBin> pm = make_matrix(p, true);
    shared_ptr<ProjectorByBinPair> pair(new ProjectorByBinPairUsingProjMatrixByBin(pm));
    PoissonLogLikelihoodWithLinearModelForMeanAndProjData<Image> obj;
    obj.set_proj_data_sptr(y);
    obj.set_projector_pair_sptr(pair);
    if (with_add)
      obj.set_additive_proj_data_sptr(add);
    obj.set_num_subsets(1);
    obj.set_recompute_sensitivity(true);
    obj.set_use_subset_sensitivities(true);
    if (trace)
      start_trace();
    shared_ptr<Image> target(x.clone());
    obj.set_up(target);
    Res r;
    r.value = obj.compute_objective_function(x);
    r.grad.reset(x.get_empty_copy());
    obj.compute_sub_gradient(*r.grad, x, 0);
    r.sens.reset(obj.get_subset_sensitivity(0).clone());
    r.hess.reset(x.get_empty_copy());
    obj.accumulate_sub_Hessian_times_input(*r.hess, x, *dir, 0);
    if (trace)
      {
        shared_ptr<DataSymmetriesForViewSegmentNumbers> sym(pm->get_symmetries_ptr()->clone());
        n_items = static_cast<int>(detail::find_basic_vs_nums_in_subset(*p.pdi, *sym, p.pdi->get_min_segment_num(), p.pdi->get_max_segment_num(), 0, 1).size())
                  * p.pdi->get_num_tof_poss();
        emit_trace("loglik", 0, 0, 0);
      }
    return r;
  };
  int n_items = 0;
  Res ref = run(1, false, n_items);
  Res par = run(T, true, n_items);
  std::string why;
  ++oracle_checks;
  if (std::fabs(ref.value - par.value) > 1e-6 * std::fabs(ref.value) + 1e-9)
    fail("loglik: value with " + std::to_string(T) + " threads " + vh::hex(par.value) + " vs single-thread " + vh::hex(ref.value));
  ++oracle_checks;
  if (!images_close(*par.grad, *ref.grad, 5e-5, why))
    fail("loglik: gradient differs from single-thread result: " + why);
  ++oracle_checks;
  if (!images_close(*par.sens, *ref.sens, 5e-5, why))
    fail("loglik: sensitivity differs from single-thread result: " + why);
  ++oracle_checks;
  if (!images_close(*par.hess, *ref.hess, 5e-5, why))
    fail("loglik: Hessian-times-vector differs from single-thread result: " + why);
}

// ---------------------------------------------------------------- helpers for the scenarios on files / objective function
static std::string g_dir;
static int g_file_counter = 0;

// remove what an earlier (possibly crashed) run left behind
static void
wipe_dir()
{
  if (DIR* d = opendir(g_dir.c_str()))
    {
      while (dirent* e = readdir(d))
        if (e->d_name[0] == 'f')
          unlink((g_dir + "/" + e->d_name).c_str());
      closedir(d);
    }
}

static std::string
new_file(const char* tag)
{
  return g_dir + "/f" + std::to_string(++g_file_counter) + "_" + tag;
}

static void
remove_files(const std::string& base)
{
  unlink((base + ".hs").c_str());
  unlink((base + ".s").c_str());
}

static shared_ptr<ProjData>
make_file(const Problem& p, const std::string& base, ProjDataFromStream::StorageOrder order)
{
  return shared_ptr<ProjData>(new ProjDataInterfile(p.exam, p.pdi, base + ".hs", std::ios::in | std::ios::out | std::ios::trunc, order));
}

template <class A, class B>
static bool
same_values(const A& a, const B& b)
{
  if (a.size_all() != b.size_all())
    return false;
  auto ib = b.begin_all();
  for (auto ia = a.begin_all(); ia != a.end_all(); ++ia, ++ib)
    if (!(*ia == *ib))
      return false;
  return true;
}

// all viewgrams of `a` against `b` (read single-threaded): |a-b| <= rel * max|b|
static bool
projdata_close(const ProjData& a, const ProjData& b, double rel, std::string& why)
{
  double mx = 0;
  for (int t = b.get_min_tof_pos_num(); t <= b.get_max_tof_pos_num(); ++t)
    for (int s = b.get_min_segment_num(); s <= b.get_max_segment_num(); ++s)
      for (int v = b.get_min_view_num(); v <= b.get_max_view_num(); ++v)
        {
          const Viewgram<float> vb = b.get_viewgram(v, s, false, t);
          for (auto it = vb.begin_all(); it != vb.end_all(); ++it)
            mx = std::max(mx, std::fabs(static_cast<double>(*it)));
        }
  for (int t = b.get_min_tof_pos_num(); t <= b.get_max_tof_pos_num(); ++t)
    for (int s = b.get_min_segment_num(); s <= b.get_max_segment_num(); ++s)
      for (int v = b.get_min_view_num(); v <= b.get_max_view_num(); ++v)
        {
          const Viewgram<float> va = a.get_viewgram(v, s, false, t);
          const Viewgram<float> vb = b.get_viewgram(v, s, false, t);
          auto ia = va.begin_all();
          for (auto ib = vb.begin_all(); ib != vb.end_all(); ++ib, ++ia)
            if (!(std::fabs(static_cast<double>(*ia) - *ib) <= rel * mx))
              {
                why = "viewgram (view " + std::to_string(v) + ", segment " + std::to_string(s) + ", tof " + std::to_string(t) + "): "
                      + vh::hex(*ia) + " vs single-thread " + vh::hex(*ib) + " (max " + vh::hex(mx) + ")";
                return false;
              }
        }
  return true;
}

static int
num_items_in_subset(const Problem& p, const ProjMatrixByBin& pm, int subset, int nsub)
{
  shared_ptr<DataSymmetriesForViewSegmentNumbers> sym(pm.get_symmetries_ptr()->clone());
  return static_cast<int>(detail::find_basic_vs_nums_in_subset(*p.pdi, *sym, p.pdi->get_min_segment_num(), p.pdi->get_max_segment_num(), subset, nsub).size())
         * p.pdi->get_num_tof_poss();
}

// everything the objective function can be asked, per subset
struct LLConfig
{
  int nsub;
  bool zero_ends;
  shared_ptr<Image> x, dir;
};
struct LLResult
{
  bool ok = false;
  std::string error;
  std::vector<std::string> names; // of images
  std::vector<shared_ptr<Image>> images;
  std::vector<double> scales; // extra magnitude (sum of cancelling parts) the tolerance of an image refers to
  std::vector<double> values;
};

typedef PoissonLogLikelihoodWithLinearModelForMeanAndProjData<Image> LLObj;

static double
max_abs(const Image& im)
{
  double mx = 0;
  for (auto it = im.begin_all_const(); it != im.end_all_const(); ++it)
    mx = std::max(mx, std::fabs(static_cast<double>(*it)));
  return mx;
}

// One fresh objective function (fresh matrix, projectors, normalisation object) asked for everything with `threads` threads.
static LLResult
run_ll(const Problem& p, const LLConfig& c, shared_ptr<ProjData> y, shared_ptr<ProjData> add, shared_ptr<ProjData> normdata,
       int threads, bool trace, const std::string& scen)
{
  LLResult r;
  stir::set_num_threads(threads);
  try
    {
      shared_ptr<ProjMatrixByBinUsingRayTracing> pm = make_matrix(p, true);
      shared_ptr<ProjectorByBinPair> pair(new ProjectorByBinPairUsingProjMatrixByBin(pm));
      LLObj obj;
      obj.set_proj_data_sptr(y);
      obj.set_projector_pair_sptr(pair);
      if (add)
        obj.set_additive_proj_data_sptr(add);
      if (normdata)
        obj.set_normalisation_sptr(shared_ptr<BinNormalisation>(new BinNormalisationFromProjData(normdata)));
      obj.set_zero_seg0_end_planes(c.zero_ends);
      obj.set_num_subsets(c.nsub);
      obj.set_recompute_sensitivity(true);
      obj.set_use_subset_sensitivities(true);
      const Image& x = *c.x;
      // one trace for the whole life of the objective function (the cache validator needs the whole history of the cache); the passes of
      // distributable_computation whose number of work items is known are also listed on their own (work items only) afterwards
      struct Pass
      {
        std::string name;
        std::size_t from, to;
        int expected;
      };
      std::vector<Pass> passes;
      std::size_t mark = 0;
      auto begin_pass = [&]() { mark = g_log.size(); }; // (no parallel region is active here)
      auto end_pass = [&](const std::string& name, int expected) {
        if (trace && expected > 0)
          passes.push_back(Pass{ scen + "." + name, mark, g_log.size(), expected });
      };
      if (trace)
        start_trace();
      shared_ptr<Image> target(x.clone());
      if (obj.set_up(target) != Succeeded::yes)
        {
          r.error = "set_up failed";
          g_logging = false;
          return r;
        }
      for (int s = 0; s < c.nsub; ++s)
        {
          const int n = num_items_in_subset(p, *pm, s, c.nsub);
          const std::string tag = "[subset " + std::to_string(s) + "/" + std::to_string(c.nsub) + "]";
          auto add_image = [&](const std::string& name, shared_ptr<Image> im, double scale) {
            r.names.push_back(name + tag);
            r.images.push_back(im);
            r.scales.push_back(scale);
          };
          // value
          begin_pass();
          r.values.push_back(obj.compute_objective_function(x, s));
          end_pass("value", n);
          // sensitivity of the subset, computed afresh
          shared_ptr<Image> sens(x.get_empty_copy());
          begin_pass();
          obj.add_subset_sensitivity(*sens, s);
          end_pass("sens", p.pdi->is_tof_data() ? 0 : n); // (TOF data: the sensitivity uses the non-TOF geometry)
          const double sens_max = max_abs(*sens);
          add_image("add_subset_sensitivity", sens, 0);
          add_image("subset sensitivity computed by set_up", shared_ptr<Image>(obj.get_subset_sensitivity(s).clone()), 0);
          // gradient + sensitivity, gradient
          shared_ptr<Image> gps(x.get_empty_copy());
          begin_pass();
          obj.compute_sub_gradient_without_penalty_plus_sensitivity(*gps, x, s);
          end_pass("gradps", n);
          add_image("sub-gradient plus sensitivity", gps, 0);
          shared_ptr<Image> grad(x.get_empty_copy());
          begin_pass();
          obj.compute_sub_gradient(*grad, x, s);
          end_pass("grad", n);
          // the gradient is (back projection of the quotient) - sensitivity: its rounding error is that of the two parts
          add_image("sub-gradient", grad, max_abs(*gps) + sens_max);
          // Hessian products
          shared_ptr<Image> hess(x.get_empty_copy());
          if (obj.accumulate_sub_Hessian_times_input(*hess, x, *c.dir, s) != Succeeded::yes)
            r.error = "accumulate_sub_Hessian_times_input failed";
          add_image("accumulate_sub_Hessian_times_input", hess, 0);
          shared_ptr<Image> ahess(x.get_empty_copy());
          if (obj.add_multiplication_with_approximate_sub_Hessian(*ahess, *c.dir, s) != Succeeded::yes)
            r.error = "add_multiplication_with_approximate_sub_Hessian failed";
          add_image("add_multiplication_with_approximate_sub_Hessian", ahess, 0);
        }
      if (trace)
        {
          emit_trace(scen, 0, 0, 0);
          for (auto& ps : passes)
            emit_trace(ps.name, 0, 0, ps.expected, ps.from, ps.to, "dist.work");
        }
      r.ok = r.error.empty();
    }
  catch (std::exception& e)
    {
      g_logging = false;
      r.error = std::string("exception: ") + e.what();
    }
  catch (...)
    {
      g_logging = false;
      r.error = "exception";
    }
  return r;
}

static void
compare_ll(const std::string& scen, int T, const LLResult& ref, const LLResult& par)
{
  ++oracle_checks;
  if (!par.ok)
    {
      fail(scen + ": with " + std::to_string(T) + " threads the objective function failed (" + par.error + ") where the single-thread run succeeded");
      return;
    }
  if (par.values.size() != ref.values.size() || par.images.size() != ref.images.size())
    {
      fail(scen + ": different number of results");
      return;
    }
  for (std::size_t i = 0; i < ref.values.size(); ++i)
    {
      ++oracle_checks;
      // sum of T partial sums of doubles instead of one: relative error far below 1e-9 of the sum of the magnitudes; the terms
      // y log(ybar) - ybar have mixed signs, so the bound is relative to a magnitude at least |value|
      if (!(std::fabs(ref.values[i] - par.values[i]) <= 1e-6 * std::fabs(ref.values[i]) + 1e-9))
        fail(scen + ": value of subset " + std::to_string(i) + " with " + std::to_string(T) + " threads " + vh::hex(par.values[i]) + " vs single-thread "
             + vh::hex(ref.values[i]));
    }
  for (std::size_t i = 0; i < ref.images.size(); ++i)
    {
      ++oracle_checks;
      const double mx = std::max(max_abs(*ref.images[i]), ref.scales[i]);
      auto ia = par.images[i]->begin_all_const();
      for (auto ib = ref.images[i]->begin_all_const(); ib != ref.images[i]->end_all_const(); ++ib, ++ia)
        if (!(std::fabs(static_cast<double>(*ia) - *ib) <= 5e-5 * mx + 1e-30))
          {
            fail(scen + ": " + ref.names[i] + " with " + std::to_string(T) + " threads differs from the single-thread result beyond reassociation: " + vh::hex(*ia)
                 + " vs " + vh::hex(*ib) + " (scale " + vh::hex(mx) + ")");
            break;
          }
    }
}

// The reduction of the per-thread log-likelihood terms happens once per viewgram: a per-thread accumulator that became shared loses a
// term only if two threads finish a viewgram within nanoseconds of each other.  Such a window is reached by repetition, not by delays:
// a small data set (a few bins per viewgram), one objective function, the value asked many times without perturbation.
static void
value_hammer(vh::Rng& rng, int T)
{
  Problem p;
  p.tof = rng.range(0, 3) == 0;
  const int N = 2 * rng.range(6, 8);
  shared_ptr<Scanner> scanner = vh::make_scanner(N, 1, p.tof ? 5 : -1);
  p.pdi = vh::make_pdi(scanner, 1, 0, N / 2, 3, false, p.tof ? 1 : 0);
  p.image = vh::make_image(*p.pdi, 1.F, 5, 1);
  p.exam.reset(new ExamInfo);
  p.exam->imaging_modality = ImagingModality::PT;
  p.flags = rng.range(0, 1) * 4; // few symmetries: as many work items as views
  Image& x = *p.image;
  fill_image(x, rng, true);
  shared_ptr<ProjData> y(new ProjDataInMemory(p.exam, p.pdi));
  fill_data(*y, rng, 0, 6);
  const int repeats = 150;
  auto run = [&](int threads, std::vector<double>& values) {
    stir::set_num_threads(threads);
    shared_ptr<ProjMatrixByBinUsingRayTracing> pm = make_matrix(p, true);
    shared_ptr<ProjectorByBinPair> pair(new ProjectorByBinPairUsingProjMatrixByBin(pm));
    LLObj obj;
    obj.set_proj_data_sptr(y);
    obj.set_projector_pair_sptr(pair);
    obj.set_num_subsets(1);
    obj.set_recompute_sensitivity(true);
    obj.set_use_subset_sensitivities(true);
    shared_ptr<Image> target(x.clone());
    if (obj.set_up(target) != Succeeded::yes)
      return false;
    for (int k = 0; k < (threads == 1 ? 1 : repeats); ++k)
      values.push_back(obj.compute_objective_function(x));
    return true;
  };
  std::vector<double> ref, par;
  ++oracle_checks;
  try
    {
      if (!run(1, ref))
        {
          fail("loglik_full: single-thread reference run (small data set) failed");
          return;
        }
      if (!run(T, par))
        {
          fail("loglik_full: set_up with " + std::to_string(T) + " threads failed where the single-thread run succeeded (small data set)");
          return;
        }
    }
  catch (std::exception& e)
    {
      fail(std::string("loglik_full: exception (small data set, repeated value), threads=") + std::to_string(T) + ": " + e.what());
      return;
    }
  stir::set_num_threads(1);
  for (std::size_t k = 0; k < par.size(); ++k)
    if (!(std::fabs(par[k] - ref[0]) <= 1e-6 * std::fabs(ref[0]) + 1e-9))
      {
        fail("loglik_full: repetition " + std::to_string(k) + " of the log-likelihood value on a small data set with " + std::to_string(T) + " threads: " + vh::hex(par[k])
             + " vs single-thread " + vh::hex(ref[0]));
        break;
      }
}

// ---------------------------------------------------------------- scenario: loglik_full
static void
scenario_loglik_full(vh::Rng& rng, int T)
{
  Problem p = make_problem(rng, false);
  LLConfig c;
  c.x = p.image;
  fill_image(*c.x, rng, true);
  c.dir.reset(c.x->get_empty_copy());
  fill_image(*c.dir, rng, true); // the Hessian products require a non-negative forward projection of their input
  shared_ptr<ProjData> y(new ProjDataInMemory(p.exam, p.pdi));
  fill_data(*y, rng, 0, 6);
  shared_ptr<ProjData> add, norm;
  if (rng.range(0, 2) != 0)
    {
      add.reset(new ProjDataInMemory(p.exam, p.pdi));
      fill_data(*add, rng, 1, 3);
    }
  if (rng.coin())
    {
      norm.reset(new ProjDataInMemory(p.exam, p.pdi));
      fill_data(*norm, rng, 1, 3);
    }
  c.zero_ends = rng.range(0, 3) == 0;
  c.nsub = rng.range(1, 3);
  LLResult ref = run_ll(p, c, y, add, norm, 1, false, "loglik_full");
  if (!ref.ok && c.nsub != 1)
    {
      // the library refuses some subset numbers for some symmetries: not this property's subject
      c.nsub = 1;
      ref = run_ll(p, c, y, add, norm, 1, false, "loglik_full");
    }
  if (!ref.ok)
    {
      fail("loglik_full: single-thread reference run failed: " + ref.error);
      ++oracle_checks;
      return;
    }
  LLResult par = run_ll(p, c, y, add, norm, T, true, "loglik_full");
  compare_ll("loglik_full", T, ref, par);
  value_hammer(rng, T);
}

// ---------------------------------------------------------------- scenario: projdata_stream
struct IoItem
{
  int kind; // 0 get_viewgram 1 get_sinogram 2 get_bin_value 3 get_segment_by_view 4 get_segment_by_sinogram
            // 10 set_viewgram 11 set_sinogram 12 set_segment (by view) 13 set_segment (by sinogram) 14 set_bin_value for one sinogram
  int seg, view, ax, tang, tof;
};

// The harness' own parallel loop over `items`: reads from `rd` are compared with `rd_copy` (an in-memory copy), writes take the
// values of `src` and go to disjoint regions of `dst`; afterwards `dst` must equal `src` everywhere.
static void
io_hammer(const std::string& what, int T, ProjData& rd, ProjDataInMemory& rd_copy, ProjData& dst, ProjDataInMemory& src, const std::vector<IoItem>& items)
{
  std::atomic<int> bad_reads(0), bad_writes(0), exceptions(0);
  auto* rd_s = dynamic_cast<ProjDataFromStream*>(&rd);
  auto* rd_m = dynamic_cast<ProjDataInMemory*>(&rd);
  auto* dst_s = dynamic_cast<ProjDataFromStream*>(&dst);
  auto* dst_m = dynamic_cast<ProjDataInMemory*>(&dst);
  stir::set_num_threads(T);
  start_trace();
#pragma omp parallel for schedule(dynamic)
  for (int i = 0; i < static_cast<int>(items.size()); ++i)
    {
      const IoItem& it = items[i];
      try
        {
          if (i % 4 == 0)
            perturb(true);
          switch (it.kind)
            {
            case 0:
              if (!same_values(rd.get_viewgram(it.view, it.seg, false, it.tof), rd_copy.get_viewgram(it.view, it.seg, false, it.tof)))
                ++bad_reads;
              break;
            case 1:
              if (!same_values(rd.get_sinogram(it.ax, it.seg, false, it.tof), rd_copy.get_sinogram(it.ax, it.seg, false, it.tof)))
                ++bad_reads;
              break;
            case 2: {
              Bin b(it.seg, it.view, it.ax, it.tang, it.tof);
              Bin b2 = b;
              const float got = rd_s ? rd_s->get_bin_value(b) : rd_m->get_bin_value(b);
              if (got != rd_copy.get_bin_value(b2))
                ++bad_reads;
              break;
            }
            case 3:
              if (!same_values(rd.get_segment_by_view(it.seg, it.tof), rd_copy.get_segment_by_view(it.seg, it.tof)))
                ++bad_reads;
              break;
            case 4:
              if (!same_values(rd.get_segment_by_sinogram(it.seg, it.tof), rd_copy.get_segment_by_sinogram(it.seg, it.tof)))
                ++bad_reads;
              break;
            case 10:
              if (dst.set_viewgram(src.get_viewgram(it.view, it.seg, false, it.tof)) != Succeeded::yes)
                ++bad_writes;
              break;
            case 11:
              if (dst.set_sinogram(src.get_sinogram(it.ax, it.seg, false, it.tof)) != Succeeded::yes)
                ++bad_writes;
              break;
            case 12:
              if (dst.set_segment(src.get_segment_by_view(it.seg, it.tof)) != Succeeded::yes)
                ++bad_writes;
              break;
            case 13:
              if (dst.set_segment(src.get_segment_by_sinogram(it.seg, it.tof)) != Succeeded::yes)
                ++bad_writes;
              break;
            case 14: {
              const Sinogram<float> sino = src.get_sinogram(it.ax, it.seg, false, it.tof);
              for (int v = sino.get_min_view_num(); v <= sino.get_max_view_num(); ++v)
                for (int tp = sino.get_min_tangential_pos_num(); tp <= sino.get_max_tangential_pos_num(); ++tp)
                  {
                    Bin b(it.seg, v, it.ax, tp, it.tof, sino[v][tp]);
                    if (dst_s)
                      dst_s->set_bin_value(b);
                    else
                      dst_m->set_bin_value(b);
                  }
              break;
            }
            }
        }
      catch (...)
        {
          ++exceptions;
        }
    }
  emit_trace("projdata_stream.io", 0, 0, 0);
  stir::set_num_threads(1);
  ++oracle_checks;
  if (exceptions)
    fail("projdata_stream: " + what + ": " + std::to_string(exceptions.load()) + " concurrent get_/set_ calls threw, threads=" + std::to_string(T));
  ++oracle_checks;
  if (bad_reads)
    fail("projdata_stream: " + what + ": " + std::to_string(bad_reads.load()) + " concurrent reads returned data different from what is stored, threads="
         + std::to_string(T));
  ++oracle_checks;
  if (bad_writes)
    fail("projdata_stream: " + what + ": " + std::to_string(bad_writes.load()) + " concurrent set_ calls reported failure, threads=" + std::to_string(T));
  ++oracle_checks;
  std::string why;
  try
    {
      if (!projdata_close(dst, src, 0., why))
        fail("projdata_stream: " + what + ": after concurrent writes to disjoint regions the data differ from what was written, threads=" + std::to_string(T) + ": " + why);
    }
  catch (...)
    {
      fail("projdata_stream: " + what + ": reading back after concurrent writes threw, threads=" + std::to_string(T));
    }
}

// with_bin_values = false: the same list without the items of kind 2 / 14 (single-bin accessors), whose positions become reads /
// writes of the sinogram (so that the list still covers every region)
static std::vector<IoItem>
without_bin_values(std::vector<IoItem> items)
{
  for (auto& it : items)
    if (it.kind == 2)
      it.kind = 1;
    else if (it.kind == 14)
      it.kind = 11;
  return items;
}

static std::vector<IoItem>
make_io_items(const Problem& p, vh::Rng& rng, int n_reads)
{
  const ProjDataInfo& pdi = *p.pdi;
  std::vector<IoItem> items;
  for (int t = pdi.get_min_tof_pos_num(); t <= pdi.get_max_tof_pos_num(); ++t)
    for (int s = pdi.get_min_segment_num(); s <= pdi.get_max_segment_num(); ++s)
      {
        const int mode = rng.range(0, 4);
        if (mode == 0)
          for (int v = pdi.get_min_view_num(); v <= pdi.get_max_view_num(); ++v)
            items.push_back(IoItem{ 10, s, v, 0, 0, t });
        else if (mode == 1)
          for (int a = pdi.get_min_axial_pos_num(s); a <= pdi.get_max_axial_pos_num(s); ++a)
            items.push_back(IoItem{ 11, s, 0, a, 0, t });
        else if (mode == 2)
          items.push_back(IoItem{ 12, s, 0, 0, 0, t });
        else if (mode == 3)
          items.push_back(IoItem{ 13, s, 0, 0, 0, t });
        else
          for (int a = pdi.get_min_axial_pos_num(s); a <= pdi.get_max_axial_pos_num(s); ++a)
            items.push_back(IoItem{ 14, s, 0, a, 0, t });
      }
  for (int k = 0; k < n_reads; ++k)
    {
      IoItem it;
      const int r = rng.range(0, 19);
      it.kind = r < 9 ? 0 : r < 13 ? 1 : r < 17 ? 2 : r < 19 ? 3 : 4;
      it.tof = rng.range(pdi.get_min_tof_pos_num(), pdi.get_max_tof_pos_num());
      it.seg = rng.range(pdi.get_min_segment_num(), pdi.get_max_segment_num());
      it.view = rng.range(pdi.get_min_view_num(), pdi.get_max_view_num());
      it.ax = rng.range(pdi.get_min_axial_pos_num(it.seg), pdi.get_max_axial_pos_num(it.seg));
      it.tang = rng.range(pdi.get_min_tangential_pos_num(), pdi.get_max_tangential_pos_num());
      items.push_back(it);
    }
  for (std::size_t i = items.size(); i > 1; --i)
    std::swap(items[i - 1], items[rng.range(0, static_cast<int>(i) - 1)]);
  return items;
}

static void
scenario_projdata_stream(vh::Rng& rng, int T)
{
  Problem p = make_problem(rng, false);
  // (the Interfile header writer knows only the by-view order for TOF data)
  const ProjDataFromStream::StorageOrder order
      = (rng.coin() || p.tof) ? ProjDataFromStream::Segment_View_AxialPos_TangPos : ProjDataFromStream::Segment_AxialPos_View_TangPos;
  std::vector<std::string> files;
  auto fresh = [&](const char* tag) {
    files.push_back(new_file(tag));
    return files.back();
  };
  stir::set_num_threads(1);
  // ---- .io: concurrent use of one object from user code
  {
    ProjDataInMemory src(p.exam, p.pdi), rd_copy(p.exam, p.pdi);
    fill_data(src, rng, 1, 9);
    fill_data(rd_copy, rng, 1, 9);
    const std::vector<IoItem> items = make_io_items(p, rng, 400);
    {
      const std::string frd = fresh("rd"), fdst = fresh("dst");
      shared_ptr<ProjData> rd = make_file(p, frd, order);
      rd->fill(rd_copy);
      shared_ptr<ProjData> dst = make_file(p, fdst, order);
      dst->fill(0.F);
      // half of the time the reader is a second object on the same file (as a reconstruction reading data written earlier)
      shared_ptr<ProjData> reader = rng.coin() ? rd : ProjData::read_from_file(frd + ".hs");
      // (ProjDataFromStream::get_bin_value / set_bin_value are not inside critical(PROJDATAFROMSTREAMIO) and no computation of the property
      //  calls them from a parallel region: they are not used on file-backed objects here)
      io_hammer("ProjDataInterfile/ProjDataFromStream on a file", T, *reader, rd_copy, *dst, src, without_bin_values(items));
    }
    {
      ProjDataInMemory rd(p.exam, p.pdi), dst(p.exam, p.pdi);
      rd.fill(rd_copy);
      dst.fill(0.F);
      io_hammer("ProjDataInMemory", T, rd, rd_copy, dst, src, items);
    }
  }
  // ---- .project: forward projection into a file, back projection from a file
  Image& x = *p.image;
  fill_image(x, rng, false);
  const std::string fy = fresh("y");
  {
    shared_ptr<ProjData> y = make_file(p, fy, order);
    ProjDataInMemory tmp(p.exam, p.pdi);
    fill_data(tmp, rng, -4, 4);
    y->fill(tmp);
  }
  int n_items = 0;
  auto project = [&](int threads, bool trace, const std::string& ffwd, shared_ptr<Image> bck) {
    stir::set_num_threads(threads);
    shared_ptr<ProjMatrixByBinUsingRayTracing> pm = make_matrix(p, true);
    n_items = num_items_in_subset(p, *pm, 0, 1);
    ForwardProjectorByBinUsingProjMatrixByBin fp(pm);
    BackProjectorByBinUsingProjMatrixByBin bp(pm);
    fp.set_up(p.pdi, p.image);
    bp.set_up(p.pdi, p.image);
    shared_ptr<ProjData> fwd = make_file(p, ffwd, order);
    shared_ptr<ProjData> y = ProjData::read_from_file(fy + ".hs");
    if (trace)
      start_trace();
    fp.forward_project(*fwd, x);
    bp.back_project(*bck, *y);
    if (trace)
      emit_trace("projdata_stream.project", n_items, n_items, 0);
  };
  {
    const std::string fref = fresh("fwd1"), fpar = fresh("fwdT");
    shared_ptr<Image> bck_ref(x.get_empty_copy()), bck_par(x.get_empty_copy());
    project(1, false, fref, bck_ref);
    project(T, true, fpar, bck_par);
    stir::set_num_threads(1);
    std::string why;
    ++oracle_checks;
    // every bin of the forward projection is computed by exactly one thread from one matrix row: no reassociation at all
    if (!projdata_close(*ProjData::read_from_file(fpar + ".hs"), *ProjData::read_from_file(fref + ".hs"), 1e-5, why))
      fail("projdata_stream: forward projection into a file with " + std::to_string(T) + " threads differs from the file written by the single-thread run: " + why);
    ++oracle_checks;
    if (!images_close(*bck_par, *bck_ref, 2e-5, why))
      fail("projdata_stream: back projection of data in a file with " + std::to_string(T) + " threads differs from single-thread result beyond reassociation: " + why);
  }
  // ---- .loglik: objective function on data / additive term / normalisation factors in files
  {
    LLConfig c;
    c.x = p.image;
    fill_image(*c.x, rng, true);
    c.dir.reset(c.x->get_empty_copy());
    fill_image(*c.dir, rng, true);
    c.zero_ends = false;
    c.nsub = rng.range(1, 2);
    const std::string fc = fresh("counts"), fa = fresh("add"), fn = fresh("norm");
    const bool with_add = rng.range(0, 3) != 0, with_norm = rng.coin();
    {
      ProjDataInMemory tmp(p.exam, p.pdi);
      fill_data(tmp, rng, 0, 6);
      make_file(p, fc, order)->fill(tmp);
      fill_data(tmp, rng, 1, 3);
      make_file(p, fa, order)->fill(tmp);
      fill_data(tmp, rng, 1, 3);
      make_file(p, fn, order)->fill(tmp);
    }
    auto open = [&](const std::string& f, bool wanted) { return wanted ? ProjData::read_from_file(f + ".hs") : shared_ptr<ProjData>(); };
    LLResult ref = run_ll(p, c, open(fc, true), open(fa, with_add), open(fn, with_norm), 1, false, "projdata_stream.loglik");
    if (!ref.ok && c.nsub != 1)
      {
        c.nsub = 1;
        ref = run_ll(p, c, open(fc, true), open(fa, with_add), open(fn, with_norm), 1, false, "projdata_stream.loglik");
      }
    ++oracle_checks;
    if (!ref.ok)
      fail("projdata_stream: single-thread reference run of the objective function failed: " + ref.error);
    else
      {
        LLResult par = run_ll(p, c, open(fc, true), open(fa, with_add), open(fn, with_norm), T, true, "projdata_stream.loglik");
        compare_ll("projdata_stream.loglik", T, ref, par);
      }
  }
  stir::set_num_threads(1);
  for (auto& f : files)
    remove_files(f);
}

// ---------------------------------------------------------------- scenario: scatter
typedef VoxelsOnCartesianGrid<float> Vox;

// access to the protected per-viewgram step (no behaviour added): records what it returns; the per-bin step (called inside the
// library's parallel loop) is a schedule point
struct ScatterSim : public SingleScatterSimulation
{
  std::vector<double> totals;
  double scatter_estimate(const Bin& bin) override
  {
    if (g_logging)
      perturb(true);
    return SingleScatterSimulation::scatter_estimate(bin);
  }
  double process_data_for_view_segment_num(const ViewSegmentNumbers& vs) override
  {
    const double t = SingleScatterSimulation::process_data_for_view_segment_num(vs);
    totals.push_back(t);
    return t;
  }
};

static shared_ptr<Vox>
blank_image(int nz, int nxy, float vz, float vxy)
{
  shared_ptr<Vox> im(new Vox(IndexRange3D(0, nz - 1, -(nxy / 2), -(nxy / 2) + nxy - 1, -(nxy / 2), -(nxy / 2) + nxy - 1),
                             CartesianCoordinate3D<float>(0, 0, 0),
                             CartesianCoordinate3D<float>(vz, vxy, vxy)));
  im->fill(0.F);
  return im;
}

static void
scenario_scatter(vh::Rng& rng, int T)
{
  static const int Ns[] = { 12, 16, 20, 24 };
  const int N = Ns[rng.range(0, 3)], R = rng.range(1, 3);
  shared_ptr<Scanner> scanner = vh::make_scanner(N, R);
  scanner->set_energy_resolution(0.10F + 0.02F * rng.range(0, 3));
  shared_ptr<ProjDataInfo> pdi = vh::make_pdi(scanner, 1, R - 1, N / 2, N / 2 - 1);
  shared_ptr<ExamInfo> exam(new ExamInfo);
  exam->set_low_energy_thres(350.F + 25 * rng.range(0, 4));
  exam->set_high_energy_thres(650.F);
  exam->imaging_modality = ImagingModality::PT;
  const int anxy = rng.coin() ? 5 : 7;
  const float avxy = anxy == 5 ? 11.F : 8.F;
  shared_ptr<Vox> act = blank_image(3, anxy, 4.F, avxy), att = blank_image(3, anxy, 4.F, avxy);
  for (auto it = act->begin_all(); it != act->end_all(); ++it)
    *it = rng.unit() < 0.25 ? 0.F : static_cast<float>(0.5 + 5.5 * rng.unit());
  for (auto it = att->begin_all(); it != att->end_all(); ++it)
    *it = rng.unit() < 0.6 ? static_cast<float>(0.012 + 0.02 * rng.unit()) : static_cast<float>(0.10 + 0.06 * rng.unit());
  // scatter points: a coarse grid with the same z-middle, 4..9 voxels above the threshold
  const int cnxy = 3, cnz = 2;
  shared_ptr<Vox> sp = blank_image(cnz, cnxy, 8.F, avxy * anxy / cnxy);
  {
    int n = 0;
    const int wanted = rng.range(4, 9);
    for (auto it = sp->begin_all(); it != sp->end_all(); ++it)
      if (n < wanted && rng.range(0, 2) != 0)
        {
          *it = static_cast<float>(0.02 + 0.13 * rng.unit());
          ++n;
        }
  }
  struct Out
  {
    bool ok = false;
    std::string error;
    std::vector<float> bins;
    std::vector<double> totals;
  };
  auto run = [&](int threads, bool cache, bool trace) {
    Out o;
    stir::set_num_threads(threads);
    try
      {
        ScatterSim s;
        s.set_randomly_place_scatter_points(false);
        s.set_attenuation_threshold(0.01F);
        s.set_use_cache(cache);
        s.set_template_proj_data_info(*pdi);
        s.set_exam_info(*exam);
        s.set_activity_image_sptr(act);
        s.set_density_image_sptr(att);
        s.set_density_image_for_scatter_points_sptr(sp);
        if (trace)
          {
            g_sc_reads = 0;
            g_sc_hits = 0;
            start_trace();
          }
        if (s.set_up() != Succeeded::yes)
          {
            g_logging = false;
            o.error = "set_up failed";
            return o;
          }
        shared_ptr<ProjDataInMemory> out(new ProjDataInMemory(s.get_exam_info_sptr(), s.get_template_proj_data_info_sptr()->create_shared_clone()));
        s.set_output_proj_data_sptr(out);
        const bool fine = s.process_data() == Succeeded::yes;
        if (trace)
          {
            // the cache reads are summarised as one event (number of reads, number of hits)
            g_logging = false;
            g_log.push_back(Event{ 0, cache ? "sc.act.reads" : "sc.nocache", g_sc_reads.load(), static_cast<int>(g_sc_hits.load()) });
            emit_trace(cache ? "scatter.cache" : "scatter.nocache", 0, 0, 0);
          }
        if (!fine)
          {
            o.error = "process_data did not succeed";
            return o;
          }
        auto* m = dynamic_cast<ProjDataInMemory*>(s.get_output_proj_data_sptr().get());
        if (!m)
          {
            o.error = "no output";
            return o;
          }
        o.bins.assign(m->begin_all(), m->end_all());
        o.totals = s.totals;
        o.ok = true;
      }
    catch (std::exception& e)
      {
        g_logging = false;
        o.error = std::string("exception: ") + e.what();
      }
    catch (...)
      {
        g_logging = false;
        o.error = "exception";
      }
    return o;
  };
  for (int rep = 0; rep < 3; ++rep)
    for (int cache = 0; cache < 2; ++cache)
      {
        const Out ref = run(1, cache, false);
        ++oracle_checks;
        if (!ref.ok)
          {
            fail(std::string("scatter: single-thread reference run failed: ") + ref.error);
            continue;
          }
        const Out par = run(T, cache, true);
        const std::string ctx = std::string(cache ? "cache enabled" : "cache disabled") + ", threads=" + std::to_string(T);
        ++oracle_checks;
        if (!par.ok)
          {
            fail("scatter: " + ctx + ": " + par.error + " where the single-thread run succeeded");
            continue;
          }
        // every bin is computed by one thread as a sequential sum over the scatter points, and a cached integral is the value the same
        // function returns uncached: no reassociation, the bins must be bitwise those of the single-thread run
        ++oracle_checks;
        if (par.bins.size() != ref.bins.size())
          fail("scatter: " + ctx + ": output size differs");
        else
          for (std::size_t i = 0; i < ref.bins.size(); ++i)
            if (!(par.bins[i] == ref.bins[i]))
              {
                fail("scatter: " + ctx + ": bin " + std::to_string(i) + " = " + vh::hex(par.bins[i]) + " vs single-thread " + vh::hex(ref.bins[i]));
                break;
              }
        // total scatter per viewgram: reduction(+) of per-thread partial sums of non-negative doubles
        ++oracle_checks;
        if (par.totals.size() != ref.totals.size())
          fail("scatter: " + ctx + ": number of viewgrams processed differs");
        else
          for (std::size_t i = 0; i < ref.totals.size(); ++i)
            if (!(std::fabs(par.totals[i] - ref.totals[i]) <= 1e-12 * std::fabs(ref.totals[i])))
              {
                fail("scatter: " + ctx + ": total scatter of viewgram " + std::to_string(i) + " = " + vh::hex(par.totals[i]) + " vs single-thread "
                     + vh::hex(ref.totals[i]));
                break;
              }
      }
  stir::set_num_threads(1);
}

int
main(int argc, char** argv)
{
  if (argc < 5)
    return 2;
  vh::quiet();
  g_seed = std::strtoull(argv[1], nullptr, 10);
  vh::Rng rng(g_seed * 48271ULL + 18);
  const bool thorough = std::string(argv[2]) == "thorough";
  ops = std::fopen(argv[3], "w");
  out = std::fopen(argv[4], "w");
  orc = std::fopen((std::string(argv[4]) + ".oracle").c_str(), "w");
  omp_set_dynamic(0);
  {
    const std::string opsname(argv[3]);
    const std::size_t slash = opsname.find_last_of('/');
    g_dir = (slash == std::string::npos ? std::string(".") : opsname.substr(0, slash)) + "/c18_files_" + argv[2];
    mkdir(g_dir.c_str(), 0777);
    wipe_dir();
  }
  const std::vector<int> threads = thorough ? std::vector<int>{ 2, 3, 4, 5, 8, 11, 16 } : std::vector<int>{ 2, 4, 7 };
  const int reps = thorough ? 12 : 3;
  // development aid: an optional 5th argument restricts the run to one scenario (the check never passes it)
  const std::string only = argc > 5 ? argv[5] : "";
  auto want = [&](const char* name) { return only.empty() || only == name; };
  for (int rep = 0; rep < reps; ++rep)
    for (int T : threads)
      {
        try
          {
            if (want("tables"))
              scenario_tables(rng, T);
            if (want("cache"))
              scenario_cache(rng, T);
            if (want("project"))
              scenario_project(rng, T, false);
            if (want("loglik"))
              scenario_loglik(rng, T);
            if (want("loglik_full"))
              scenario_loglik_full(rng, T);
            if (want("projdata_stream"))
              scenario_projdata_stream(rng, T);
            if (want("scatter"))
              scenario_scatter(rng, T);
          }
        catch (std::exception& e)
          {
            fail(std::string("exception in multi-threaded scenario with threads=") + std::to_string(T) + ": " + e.what());
            g_logging = false;
          }
      }
  // more threads than work items
  for (int rep = 0; rep < reps; ++rep)
    {
      try
        {
          if (want("project"))
            scenario_project(rng, 16, true);
        }
      catch (std::exception& e)
        {
          fail(std::string("exception with more threads than work items: ") + e.what());
          g_logging = false;
        }
    }
  wipe_dir();
  rmdir(g_dir.c_str());
  std::fprintf(orc, "ORACLE-DONE checks=%ld fails=%ld\n", oracle_checks, oracle_fails);
  std::fclose(ops);
  std::fclose(out);
  std::fclose(orc);
  return 0;
}
